package rules

// Engine E (DESIGN.md §2.3), part 1: the 64-lane bit-vector abstract domain.
// The abstract interpreter of Go syntax trees over it lives in c10_interp.go.
// Every top-level identifier is prefixed c10.

import (
	"fmt"
	"strings"
)

// ---------------------------------------------------------------------------
// lanes and vectors

type c10LK uint8

const (
	c10Zero c10LK = iota // constant 0
	c10One               // constant 1
	c10Sym               // input bit Src[Bit]
	c10Top               // unknown
)

const (
	c10SrcRef uint8 = 0
	c10SrcVer uint8 = 1
	c10SrcRaw uint8 = 2 // an arbitrary 64-bit pattern (K1 probes which lanes a decoder keeps)
)

var c10SrcName = []string{"ref", "ver", "raw"}

type c10Lane struct {
	K   c10LK
	Src uint8
	Bit uint8
}

// c10Vec is the abstract value of an integer expression: 64 lanes holding the
// sign- (signed types) or zero- (unsigned types) extension of a W-bit value.
type c10Vec struct {
	L      [64]c10Lane
	W      int
	Signed bool
}

func c10ConstVec(u uint64, w int, signed bool) c10Vec {
	v := c10Vec{W: w, Signed: signed}
	for i := 0; i < 64; i++ {
		if u>>uint(i)&1 == 1 {
			v.L[i].K = c10One
		}
	}
	return v.norm()
}

// c10InputVec: lanes 0..n-1 are the symbolic bits src[0..n-1], all lanes above are constant 0
// (the input assumption of the property: ref in [0,2^40), version in [0,2^16)).
func c10InputVec(src uint8, n, w int, signed bool) c10Vec {
	v := c10Vec{W: w, Signed: signed}
	for i := 0; i < n && i < 64; i++ {
		v.L[i] = c10Lane{K: c10Sym, Src: src, Bit: uint8(i)}
	}
	return v.norm()
}

func c10TopVec(w int, signed bool) c10Vec {
	v := c10Vec{W: w, Signed: signed}
	for i := range v.L {
		v.L[i].K = c10Top
	}
	return v.norm()
}

// norm re-establishes the extension invariant for lanes >= W.
func (v c10Vec) norm() c10Vec {
	if v.W <= 0 || v.W > 64 {
		v.W = 64
	}
	for i := v.W; i < 64; i++ {
		if v.Signed {
			v.L[i] = v.L[v.W-1]
		} else {
			v.L[i] = c10Lane{}
		}
	}
	return v
}

func c10LaneOr(a, b c10Lane) c10Lane {
	switch {
	case a.K == c10One || b.K == c10One:
		return c10Lane{K: c10One}
	case a.K == c10Zero:
		return b
	case b.K == c10Zero:
		return a
	case a.K == c10Sym && a == b:
		return a
	}
	return c10Lane{K: c10Top}
}

func c10LaneAnd(a, b c10Lane) c10Lane {
	switch {
	case a.K == c10Zero || b.K == c10Zero:
		return c10Lane{}
	case a.K == c10One:
		return b
	case b.K == c10One:
		return a
	case a.K == c10Sym && a == b:
		return a
	}
	return c10Lane{K: c10Top}
}

func c10LaneNot(a c10Lane) c10Lane {
	switch a.K {
	case c10Zero:
		return c10Lane{K: c10One}
	case c10One:
		return c10Lane{}
	}
	return c10Lane{K: c10Top}
}

func c10LaneXor(a, b c10Lane) c10Lane {
	switch {
	case a.K == c10Zero:
		return b
	case b.K == c10Zero:
		return a
	case a.K == c10One:
		return c10LaneNot(b)
	case b.K == c10One:
		return c10LaneNot(a)
	case a.K == c10Sym && a == b:
		return c10Lane{}
	}
	return c10Lane{K: c10Top}
}

func c10LaneAndNot(a, b c10Lane) c10Lane {
	switch {
	case a.K == c10Zero || b.K == c10One:
		return c10Lane{}
	case b.K == c10Zero:
		return a
	case a.K == c10Sym && a == b:
		return c10Lane{}
	}
	return c10Lane{K: c10Top}
}

func (v c10Vec) lanewise(w c10Vec, f func(a, b c10Lane) c10Lane) c10Vec {
	out := c10Vec{W: v.W, Signed: v.Signed}
	for i := 0; i < 64; i++ {
		out.L[i] = f(v.L[i], w.L[i])
	}
	return out.norm()
}

func (v c10Vec) or(w c10Vec) c10Vec     { return v.lanewise(w, c10LaneOr) }
func (v c10Vec) and(w c10Vec) c10Vec    { return v.lanewise(w, c10LaneAnd) }
func (v c10Vec) xor(w c10Vec) c10Vec    { return v.lanewise(w, c10LaneXor) }
func (v c10Vec) andNot(w c10Vec) c10Vec { return v.lanewise(w, c10LaneAndNot) }

func (v c10Vec) not() c10Vec {
	out := c10Vec{W: v.W, Signed: v.Signed}
	for i := 0; i < 64; i++ {
		out.L[i] = c10LaneNot(v.L[i])
	}
	return out.norm()
}

// add: below the lowest lane where both operands may be 1 no carry can arise, so the sum equals
// the bitwise or there; from that lane upwards the result is unknown.
func (v c10Vec) add(w c10Vec) c10Vec {
	if a, ok := v.constant(); ok {
		if b, ok := w.constant(); ok {
			return c10ConstVec(a+b, v.W, v.Signed).truncate()
		}
	}
	out := c10Vec{W: v.W, Signed: v.Signed}
	carry := false
	for i := 0; i < 64; i++ {
		if !carry && v.L[i].K != c10Zero && w.L[i].K != c10Zero {
			carry = true
		}
		if carry {
			out.L[i] = c10Lane{K: c10Top}
		} else {
			out.L[i] = c10LaneOr(v.L[i], w.L[i])
		}
	}
	return out.norm()
}

func (v c10Vec) shl(n int) c10Vec {
	out := c10Vec{W: v.W, Signed: v.Signed}
	for i := 63; i >= 0; i-- {
		if i-n >= 0 {
			out.L[i] = v.L[i-n]
		}
	}
	return out.norm()
}

// shr: arithmetic for signed values (the 64-lane form is already sign-extended), logical otherwise.
func (v c10Vec) shr(n int) c10Vec {
	out := c10Vec{W: v.W, Signed: v.Signed}
	for i := 0; i < 64; i++ {
		switch {
		case i+n < 64:
			out.L[i] = v.L[i+n]
		case v.Signed:
			out.L[i] = v.L[63]
		}
	}
	return out.norm()
}

// truncate re-reads the low W lanes of a freshly computed 64-bit pattern as a W-bit value.
func (v c10Vec) truncate() c10Vec { return v.norm() }

// sub is exact for constants and for subtracting zero; otherwise unknown.
func (v c10Vec) sub(w c10Vec) (c10Vec, bool) {
	if b, ok := w.constant(); ok {
		if b == 0 {
			return v, true
		}
		if a, ok := v.constant(); ok {
			return c10ConstVec(a-b, v.W, v.Signed).truncate(), true
		}
	}
	return c10Vec{}, false
}

// signedConst returns the constant value of v read as a signed 64-bit integer (the 64-lane form is
// already sign- or zero-extended according to the Go type).
func (v c10Vec) signedConst() (int64, bool) {
	u, ok := v.constant()
	return int64(u), ok
}

// nonNegative reports whether the sign lane is provably 0.
func (v c10Vec) nonNegative() bool { return v.L[63].K == c10Zero }

// highLane returns the highest lane that is not constant 0 (-1 when the value is constant 0).
func (v c10Vec) highLane() int {
	for i := 63; i >= 0; i-- {
		if v.L[i].K != c10Zero {
			return i
		}
	}
	return -1
}

// convert re-interprets the value in an integer type of width w: truncation keeps the low lanes,
// widening keeps the extension the source type dictated.
func (v c10Vec) convert(w int, signed bool) c10Vec {
	out := v
	out.W, out.Signed = w, signed
	return out.norm()
}

// constant returns the value when every lane is a constant.
func (v c10Vec) constant() (uint64, bool) {
	var u uint64
	for i := 0; i < 64; i++ {
		switch v.L[i].K {
		case c10One:
			u |= 1 << uint(i)
		case c10Zero:
		default:
			return 0, false
		}
	}
	return u, true
}

// constPart returns the value with every symbolic lane read as 0; ok=false when a lane is ⊤.
func (v c10Vec) constPart() (uint64, bool) {
	var u uint64
	for i := 0; i < 64; i++ {
		switch v.L[i].K {
		case c10One:
			u |= 1 << uint(i)
		case c10Top:
			return 0, false
		}
	}
	return u, true
}

func (v c10Vec) hasTop() bool {
	for i := 0; i < 64; i++ {
		if v.L[i].K == c10Top {
			return true
		}
	}
	return false
}

// c10VecEq: 1 equal on every input, 0 different on every input, -1 depends on the input.
func c10VecEq(a, b c10Vec) int {
	all := true
	for i := 0; i < 64; i++ {
		x, y := a.L[i], b.L[i]
		xc, yc := x.K == c10Zero || x.K == c10One, y.K == c10Zero || y.K == c10One
		switch {
		case xc && yc:
			if x.K != y.K {
				return 0
			}
		case x.K == c10Sym && x == y:
		default:
			all = false
		}
	}
	if all {
		return 1
	}
	return -1
}

// sameLanes reports lane-for-lane identity of the 64-lane forms (width/sign of the Go type ignored).
func (v c10Vec) sameLanes(w c10Vec) bool { return v.L == w.L }

// String renders runs of lanes from bit 63 down, e.g. [63..56]=0x10 [55..16]=ref[39..0] [15..0]=ver[15..0].
func (v c10Vec) String() string {
	var parts []string
	i := 63
	for i >= 0 {
		l := v.L[i]
		j := i
		switch l.K {
		case c10Zero, c10One:
			var val uint64
			for j >= 0 && (v.L[j].K == c10Zero || v.L[j].K == c10One) {
				val <<= 1
				if v.L[j].K == c10One {
					val |= 1
				}
				j--
			}
			parts = append(parts, fmt.Sprintf("[%s]=%#x", c10Range(i, j+1), val))
		case c10Sym:
			if i > 0 && v.L[i-1] == l { // replicated input bit (sign extension)
				for j >= 0 && v.L[j] == l {
					j--
				}
				parts = append(parts, fmt.Sprintf("[%s]=%s[%d] replicated", c10Range(i, j+1), c10SrcName[l.Src], l.Bit))
				break
			}
			for j >= 0 && v.L[j].K == c10Sym && v.L[j].Src == l.Src && int(l.Bit)-int(v.L[j].Bit) == i-j {
				j--
			}
			parts = append(parts, fmt.Sprintf("[%s]=%s[%s]", c10Range(i, j+1), c10SrcName[l.Src], c10Range(int(l.Bit), int(l.Bit)-(i-j-1))))
		default:
			for j >= 0 && v.L[j].K == c10Top {
				j--
			}
			parts = append(parts, fmt.Sprintf("[%s]=⊤", c10Range(i, j+1)))
		}
		i = j
	}
	return strings.Join(parts, " ")
}

func c10Range(hi, lo int) string {
	if hi == lo {
		return fmt.Sprint(hi)
	}
	return fmt.Sprintf("%d..%d", hi, lo)
}

// c10Diff describes where got differs from want. definite=true when some differing lane of got is a
// constant or an input bit (a provably wrong bit), false when every differing lane is ⊤ (undecided).
func c10Diff(got, want c10Vec) (diff string, definite bool) {
	var lanes []string
	for i := 63; i >= 0; i-- {
		if got.L[i] != want.L[i] {
			if got.L[i].K != c10Top {
				definite = true
			}
			if len(lanes) < 4 {
				lanes = append(lanes, fmt.Sprintf("bit %d is %s, must be %s", i, c10LaneStr(got.L[i]), c10LaneStr(want.L[i])))
			}
		}
	}
	if len(lanes) == 0 {
		return "", false
	}
	return strings.Join(lanes, "; "), definite
}

func c10LaneStr(l c10Lane) string {
	switch l.K {
	case c10Zero:
		return "0"
	case c10One:
		return "1"
	case c10Sym:
		return fmt.Sprintf("%s[%d]", c10SrcName[l.Src], l.Bit)
	}
	return "⊤"
}
