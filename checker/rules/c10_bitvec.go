package rules

// Engine E (DESIGN.md §2.3): a 64-lane bit-vector abstract domain and an
// abstract interpreter of Go syntax trees over it. Nothing here executes the
// library: expressions of /repo are folded lane by lane with the constants the
// type checker computed; in-package callees are inlined (bounded depth) by
// interpreting their statements (return, guard-if, constant switch, simple
// assignments). Every top-level identifier is prefixed c10.

import (
	"fmt"
	"go/ast"
	"go/constant"
	"go/token"
	"go/types"
	"strings"

	"golang.org/x/tools/go/packages"
)

// ---------------------------------------------------------------------------
// lanes and vectors

type c10LK uint8

const (
	c10Zero c10LK = iota // constant 0
	c10One               // constant 1
	c10Sym               // input bit Src[Bit]
	c10Top               // unknown
)

const (
	c10SrcRef uint8 = 0
	c10SrcVer uint8 = 1
)

var c10SrcName = []string{"ref", "ver"}

type c10Lane struct {
	K   c10LK
	Src uint8
	Bit uint8
}

// c10Vec is the abstract value of an integer expression: 64 lanes holding the
// sign- (signed types) or zero- (unsigned types) extension of a W-bit value.
type c10Vec struct {
	L      [64]c10Lane
	W      int
	Signed bool
}

func c10ConstVec(u uint64, w int, signed bool) c10Vec {
	v := c10Vec{W: w, Signed: signed}
	for i := 0; i < 64; i++ {
		if u>>uint(i)&1 == 1 {
			v.L[i].K = c10One
		}
	}
	return v.norm()
}

// c10InputVec: lanes 0..n-1 are the symbolic bits src[0..n-1], all lanes above are constant 0
// (the input assumption of the property: ref in [0,2^40), version in [0,2^16)).
func c10InputVec(src uint8, n, w int, signed bool) c10Vec {
	v := c10Vec{W: w, Signed: signed}
	for i := 0; i < n && i < 64; i++ {
		v.L[i] = c10Lane{K: c10Sym, Src: src, Bit: uint8(i)}
	}
	return v.norm()
}

func c10TopVec(w int, signed bool) c10Vec {
	v := c10Vec{W: w, Signed: signed}
	for i := range v.L {
		v.L[i].K = c10Top
	}
	return v.norm()
}

// norm re-establishes the extension invariant for lanes >= W.
func (v c10Vec) norm() c10Vec {
	if v.W <= 0 || v.W > 64 {
		v.W = 64
	}
	for i := v.W; i < 64; i++ {
		if v.Signed {
			v.L[i] = v.L[v.W-1]
		} else {
			v.L[i] = c10Lane{}
		}
	}
	return v
}

func c10LaneOr(a, b c10Lane) c10Lane {
	switch {
	case a.K == c10One || b.K == c10One:
		return c10Lane{K: c10One}
	case a.K == c10Zero:
		return b
	case b.K == c10Zero:
		return a
	case a.K == c10Sym && a == b:
		return a
	}
	return c10Lane{K: c10Top}
}

func c10LaneAnd(a, b c10Lane) c10Lane {
	switch {
	case a.K == c10Zero || b.K == c10Zero:
		return c10Lane{}
	case a.K == c10One:
		return b
	case b.K == c10One:
		return a
	case a.K == c10Sym && a == b:
		return a
	}
	return c10Lane{K: c10Top}
}

func c10LaneNot(a c10Lane) c10Lane {
	switch a.K {
	case c10Zero:
		return c10Lane{K: c10One}
	case c10One:
		return c10Lane{}
	}
	return c10Lane{K: c10Top}
}

func c10LaneXor(a, b c10Lane) c10Lane {
	switch {
	case a.K == c10Zero:
		return b
	case b.K == c10Zero:
		return a
	case a.K == c10One:
		return c10LaneNot(b)
	case b.K == c10One:
		return c10LaneNot(a)
	case a.K == c10Sym && a == b:
		return c10Lane{}
	}
	return c10Lane{K: c10Top}
}

func c10LaneAndNot(a, b c10Lane) c10Lane {
	switch {
	case a.K == c10Zero || b.K == c10One:
		return c10Lane{}
	case b.K == c10Zero:
		return a
	case a.K == c10Sym && a == b:
		return c10Lane{}
	}
	return c10Lane{K: c10Top}
}

func (v c10Vec) lanewise(w c10Vec, f func(a, b c10Lane) c10Lane) c10Vec {
	out := c10Vec{W: v.W, Signed: v.Signed}
	for i := 0; i < 64; i++ {
		out.L[i] = f(v.L[i], w.L[i])
	}
	return out.norm()
}

func (v c10Vec) or(w c10Vec) c10Vec     { return v.lanewise(w, c10LaneOr) }
func (v c10Vec) and(w c10Vec) c10Vec    { return v.lanewise(w, c10LaneAnd) }
func (v c10Vec) xor(w c10Vec) c10Vec    { return v.lanewise(w, c10LaneXor) }
func (v c10Vec) andNot(w c10Vec) c10Vec { return v.lanewise(w, c10LaneAndNot) }

func (v c10Vec) not() c10Vec {
	out := c10Vec{W: v.W, Signed: v.Signed}
	for i := 0; i < 64; i++ {
		out.L[i] = c10LaneNot(v.L[i])
	}
	return out.norm()
}

// add: below the lowest lane where both operands may be 1 no carry can arise, so the sum equals
// the bitwise or there; from that lane upwards the result is unknown.
func (v c10Vec) add(w c10Vec) c10Vec {
	out := c10Vec{W: v.W, Signed: v.Signed}
	carry := false
	for i := 0; i < 64; i++ {
		if !carry && v.L[i].K != c10Zero && w.L[i].K != c10Zero {
			carry = true
		}
		if carry {
			out.L[i] = c10Lane{K: c10Top}
		} else {
			out.L[i] = c10LaneOr(v.L[i], w.L[i])
		}
	}
	return out.norm()
}

func (v c10Vec) shl(n int) c10Vec {
	out := c10Vec{W: v.W, Signed: v.Signed}
	for i := 63; i >= 0; i-- {
		if i-n >= 0 {
			out.L[i] = v.L[i-n]
		}
	}
	return out.norm()
}

// shr: arithmetic for signed values (the 64-lane form is already sign-extended), logical otherwise.
func (v c10Vec) shr(n int) c10Vec {
	out := c10Vec{W: v.W, Signed: v.Signed}
	for i := 0; i < 64; i++ {
		switch {
		case i+n < 64:
			out.L[i] = v.L[i+n]
		case v.Signed:
			out.L[i] = v.L[63]
		}
	}
	return out.norm()
}

// convert re-interprets the value in an integer type of width w: truncation keeps the low lanes,
// widening keeps the extension the source type dictated.
func (v c10Vec) convert(w int, signed bool) c10Vec {
	out := v
	out.W, out.Signed = w, signed
	return out.norm()
}

// constant returns the value when every lane is a constant.
func (v c10Vec) constant() (uint64, bool) {
	var u uint64
	for i := 0; i < 64; i++ {
		switch v.L[i].K {
		case c10One:
			u |= 1 << uint(i)
		case c10Zero:
		default:
			return 0, false
		}
	}
	return u, true
}

// constPart returns the value with every symbolic lane read as 0; ok=false when a lane is ⊤.
func (v c10Vec) constPart() (uint64, bool) {
	var u uint64
	for i := 0; i < 64; i++ {
		switch v.L[i].K {
		case c10One:
			u |= 1 << uint(i)
		case c10Top:
			return 0, false
		}
	}
	return u, true
}

func (v c10Vec) hasTop() bool {
	for i := 0; i < 64; i++ {
		if v.L[i].K == c10Top {
			return true
		}
	}
	return false
}

// c10VecEq: 1 equal on every input, 0 different on every input, -1 depends on the input.
func c10VecEq(a, b c10Vec) int {
	all := true
	for i := 0; i < 64; i++ {
		x, y := a.L[i], b.L[i]
		xc, yc := x.K == c10Zero || x.K == c10One, y.K == c10Zero || y.K == c10One
		switch {
		case xc && yc:
			if x.K != y.K {
				return 0
			}
		case x.K == c10Sym && x == y:
		default:
			all = false
		}
	}
	if all {
		return 1
	}
	return -1
}

// sameLanes reports lane-for-lane identity of the 64-lane forms (width/sign of the Go type ignored).
func (v c10Vec) sameLanes(w c10Vec) bool { return v.L == w.L }

// String renders runs of lanes from bit 63 down, e.g. [63..56]=0x10 [55..16]=ref[39..0] [15..0]=ver[15..0].
func (v c10Vec) String() string {
	var parts []string
	i := 63
	for i >= 0 {
		l := v.L[i]
		j := i
		switch l.K {
		case c10Zero, c10One:
			var val uint64
			for j >= 0 && (v.L[j].K == c10Zero || v.L[j].K == c10One) {
				val <<= 1
				if v.L[j].K == c10One {
					val |= 1
				}
				j--
			}
			parts = append(parts, fmt.Sprintf("[%s]=%#x", c10Range(i, j+1), val))
		case c10Sym:
			if i > 0 && v.L[i-1] == l { // replicated input bit (sign extension)
				for j >= 0 && v.L[j] == l {
					j--
				}
				parts = append(parts, fmt.Sprintf("[%s]=%s[%d] replicated", c10Range(i, j+1), c10SrcName[l.Src], l.Bit))
				break
			}
			for j >= 0 && v.L[j].K == c10Sym && v.L[j].Src == l.Src && int(l.Bit)-int(v.L[j].Bit) == i-j {
				j--
			}
			parts = append(parts, fmt.Sprintf("[%s]=%s[%s]", c10Range(i, j+1), c10SrcName[l.Src], c10Range(int(l.Bit), int(l.Bit)-(i-j-1))))
		default:
			for j >= 0 && v.L[j].K == c10Top {
				j--
			}
			parts = append(parts, fmt.Sprintf("[%s]=⊤", c10Range(i, j+1)))
		}
		i = j
	}
	return strings.Join(parts, " ")
}

func c10Range(hi, lo int) string {
	if hi == lo {
		return fmt.Sprint(hi)
	}
	return fmt.Sprintf("%d..%d", hi, lo)
}

// c10Diff describes where got differs from want. definite=true when some differing lane of got is a
// constant or an input bit (a provably wrong bit), false when every differing lane is ⊤ (undecided).
func c10Diff(got, want c10Vec) (diff string, definite bool) {
	var lanes []string
	for i := 63; i >= 0; i-- {
		if got.L[i] != want.L[i] {
			if got.L[i].K != c10Top {
				definite = true
			}
			if len(lanes) < 4 {
				lanes = append(lanes, fmt.Sprintf("bit %d is %s, must be %s", i, c10LaneStr(got.L[i]), c10LaneStr(want.L[i])))
			}
		}
	}
	if len(lanes) == 0 {
		return "", false
	}
	return strings.Join(lanes, "; "), definite
}

func c10LaneStr(l c10Lane) string {
	switch l.K {
	case c10Zero:
		return "0"
	case c10One:
		return "1"
	case c10Sym:
		return fmt.Sprintf("%s[%d]", c10SrcName[l.Src], l.Bit)
	}
	return "⊤"
}

// ---------------------------------------------------------------------------
// abstract values of expressions

type c10VK int

const (
	c10VInt    c10VK = iota // integer: V
	c10VStr                 // constant string: S
	c10VBool                // Tri (1 true, 0 false, -1 unknown; then Cmp describes the test)
	c10VFmt                 // fmt.Sprintf(S, Args...)
	c10VNil                 // the nil literal / a zero pointer
	c10VErr                 // an error value that is provably non-nil (fmt.Errorf, errors.New)
	c10VStruct              // receiver struct with bound fields
	c10VTuple               // multi-value call result: Args
	c10VOpaque              // anything else; Why says what stopped the evaluation
)

type c10Val struct {
	K      c10VK
	V      c10Vec
	S      string
	Tri    int
	Cmp    *c10Cmp
	Args   []c10Val
	Fields map[*types.Var]c10Val
	Why    string
}

// c10Cmp is an undecided comparison L Op R (Neg: negated).
type c10Cmp struct {
	Op   token.Token
	L, R c10Val
	Neg  bool
}

func c10IntVal(v c10Vec) c10Val    { return c10Val{K: c10VInt, V: v} }
func c10StrVal(s string) c10Val    { return c10Val{K: c10VStr, S: s} }
func c10BoolVal(b bool) c10Val     { return c10Val{K: c10VBool, Tri: map[bool]int{true: 1, false: 0}[b]} }
func c10OpaqueVal(w string) c10Val { return c10Val{K: c10VOpaque, Why: w} }

func (v c10Val) String() string {
	switch v.K {
	case c10VInt:
		return v.V.String()
	case c10VStr:
		return fmt.Sprintf("%q", v.S)
	case c10VBool:
		return map[int]string{1: "true", 0: "false", -1: "undecided"}[v.Tri]
	case c10VFmt:
		var a []string
		for _, x := range v.Args {
			a = append(a, x.String())
		}
		return fmt.Sprintf("Sprintf(%q, %s)", v.S, strings.Join(a, ", "))
	case c10VNil:
		return "nil"
	case c10VErr:
		return "non-nil error"
	case c10VStruct:
		return "struct"
	case c10VTuple:
		var a []string
		for _, x := range v.Args {
			a = append(a, x.String())
		}
		return "(" + strings.Join(a, ", ") + ")"
	}
	return "opaque(" + v.Why + ")"
}

type c10Env map[types.Object]c10Val

func (e c10Env) with(o types.Object, v c10Val) c10Env {
	n := make(c10Env, len(e)+1)
	for k, x := range e {
		n[k] = x
	}
	n[o] = v
	return n
}

// c10PathCond is an undecided branch condition assumed on a path.
type c10PathCond struct {
	Cond  c10Val
	Taken bool
}

// c10Outcome is one way an interpreted function can end.
type c10Outcome struct {
	Res         []c10Val
	Panic       bool
	Conds       []c10PathCond
	Unsupported string // a statement/shape outside the interpreter's enumerated forms
	Pos         token.Pos
}

type c10State struct {
	env   c10Env
	conds []c10PathCond
}

const c10MaxDepth = 8

// c10Eval interprets expressions and function bodies of one package.
type c10Eval struct {
	pk      *packages.Package
	info    *types.Info
	decls   map[*types.Func]*ast.FuncDecl
	hook    func(e ast.Expr) (c10Val, bool) // resolves identifiers/index expressions of the depth-0 function
	Inlined int                             // number of callee bodies interpreted
	Exprs   int                             // number of expression nodes folded
}

func c10NewEval(pk *packages.Package) *c10Eval {
	ev := &c10Eval{pk: pk, info: pk.TypesInfo, decls: map[*types.Func]*ast.FuncDecl{}}
	for _, f := range pk.Syntax {
		for _, d := range f.Decls {
			if fd, ok := d.(*ast.FuncDecl); ok && fd.Body != nil {
				if obj, _ := pk.TypesInfo.Defs[fd.Name].(*types.Func); obj != nil {
					ev.decls[obj] = fd
				}
			}
		}
	}
	return ev
}

// intType returns width and signedness of an integer type under the loaded build configuration
// (types.Sizes of the package: int is 32 bits when GOARCH=386).
func (ev *c10Eval) intType(t types.Type) (int, bool, bool) {
	if t == nil {
		return 0, false, false
	}
	b, ok := t.Underlying().(*types.Basic)
	if !ok || b.Info()&types.IsInteger == 0 {
		return 0, false, false
	}
	if b.Info()&types.IsUntyped != 0 {
		return 64, true, true
	}
	w := 64
	if ev.pk.TypesSizes != nil {
		w = int(ev.pk.TypesSizes.Sizeof(t)) * 8
	}
	return w, b.Info()&types.IsUnsigned == 0, true
}

func (ev *c10Eval) isString(t types.Type) bool {
	if t == nil {
		return false
	}
	b, ok := t.Underlying().(*types.Basic)
	return ok && b.Info()&types.IsString != 0
}

// unknownOf is the value of an expression nothing is known about.
func (ev *c10Eval) unknownOf(t types.Type, why string) c10Val {
	if w, s, ok := ev.intType(t); ok {
		v := c10IntVal(c10TopVec(w, s))
		v.Why = why
		return v
	}
	return c10OpaqueVal(why)
}

func (ev *c10Eval) zeroOf(t types.Type) c10Val {
	if w, s, ok := ev.intType(t); ok {
		return c10IntVal(c10ConstVec(0, w, s))
	}
	if ev.isString(t) {
		return c10StrVal("")
	}
	switch t.Underlying().(type) {
	case *types.Pointer, *types.Slice, *types.Map, *types.Interface, *types.Signature, *types.Chan:
		return c10Val{K: c10VNil}
	}
	return c10OpaqueVal("zero value of " + t.String())
}

func (ev *c10Eval) constVal(tv types.TypeAndValue) (c10Val, bool) {
	if tv.Value == nil {
		return c10Val{}, false
	}
	switch tv.Value.Kind() {
	case constant.String:
		return c10StrVal(constant.StringVal(tv.Value)), true
	case constant.Bool:
		return c10BoolVal(constant.BoolVal(tv.Value)), true
	case constant.Int:
		w, s, ok := ev.intType(tv.Type)
		if !ok {
			w, s = 64, true
		}
		if u, exact := constant.Uint64Val(tv.Value); exact {
			return c10IntVal(c10ConstVec(u, w, s)), true
		}
		if i, exact := constant.Int64Val(tv.Value); exact {
			return c10IntVal(c10ConstVec(uint64(i), w, s)), true
		}
	}
	return c10Val{}, false
}

// expr folds an expression. depth 0 is the function the rule started from.
func (ev *c10Eval) expr(e ast.Expr, env c10Env, depth int) c10Val {
	e = ast.Unparen(e)
	ev.Exprs++
	tv := ev.info.Types[e]
	if v, ok := ev.constVal(tv); ok {
		return v
	}
	switch x := e.(type) {
	case *ast.Ident:
		obj := ev.info.Uses[x]
		if obj == nil {
			obj = ev.info.Defs[x]
		}
		if _, isNil := obj.(*types.Nil); isNil {
			return c10Val{K: c10VNil}
		}
		if v, ok := env[obj]; ok {
			return v
		}
		if depth == 0 && ev.hook != nil {
			if v, ok := ev.hook(x); ok {
				return v
			}
		}
		return ev.unknownOf(tv.Type, "value of `"+x.Name+"` is not tracked")
	case *ast.BinaryExpr:
		return ev.binary(x, env, depth)
	case *ast.UnaryExpr:
		a := ev.expr(x.X, env, depth)
		switch x.Op {
		case token.NOT:
			if a.K == c10VBool {
				return c10NotVal(a)
			}
		case token.XOR:
			if a.K == c10VInt {
				return c10IntVal(a.V.not())
			}
		case token.ADD:
			return a
		}
		return ev.unknownOf(tv.Type, "unary "+x.Op.String())
	case *ast.StarExpr:
		return ev.expr(x.X, env, depth)
	case *ast.SelectorExpr:
		if sel := ev.info.Selections[x]; sel != nil && sel.Kind() == types.FieldVal {
			base := ev.expr(x.X, env, depth)
			if base.K == c10VStruct && len(sel.Index()) == 1 {
				if v, ok := base.Fields[sel.Obj().(*types.Var)]; ok {
					return v
				}
			}
			return ev.unknownOf(tv.Type, "field "+sel.Obj().Name()+" is not an input of the id")
		}
		return ev.unknownOf(tv.Type, "selector")
	case *ast.IndexExpr:
		if depth == 0 && ev.hook != nil {
			if v, ok := ev.hook(x); ok {
				return v
			}
		}
		return ev.unknownOf(tv.Type, "indexed value")
	case *ast.CallExpr:
		return ev.callExpr(x, env, depth)
	}
	return ev.unknownOf(tv.Type, fmt.Sprintf("%T", e))
}

func c10NotVal(a c10Val) c10Val {
	out := a
	switch a.Tri {
	case 1:
		out.Tri = 0
	case 0:
		out.Tri = 1
	default:
		if a.Cmp != nil {
			c := *a.Cmp
			c.Neg = !c.Neg
			out.Cmp = &c
		}
	}
	return out
}

func (ev *c10Eval) binary(x *ast.BinaryExpr, env c10Env, depth int) c10Val {
	tv := ev.info.Types[x]
	switch x.Op {
	case token.LAND, token.LOR:
		a := ev.expr(x.X, env, depth)
		if a.K == c10VBool && a.Tri != -1 {
			if (x.Op == token.LAND) == (a.Tri == 0) {
				return a // short circuit
			}
			return ev.expr(x.Y, env, depth)
		}
		b := ev.expr(x.Y, env, depth)
		if b.K == c10VBool && b.Tri != -1 && (x.Op == token.LAND) == (b.Tri == 0) {
			return b
		}
		return c10Val{K: c10VBool, Tri: -1}
	}
	a := ev.expr(x.X, env, depth)
	b := ev.expr(x.Y, env, depth)
	switch x.Op {
	case token.EQL, token.NEQ:
		tri := -1
		switch {
		case a.K == c10VInt && b.K == c10VInt:
			tri = c10VecEq(a.V, b.V)
		case a.K == c10VStr && b.K == c10VStr:
			tri = map[bool]int{true: 1, false: 0}[a.S == b.S]
		case a.K == c10VNil && b.K == c10VNil:
			tri = 1
		case a.K == c10VErr && b.K == c10VNil, a.K == c10VNil && b.K == c10VErr:
			tri = 0
		}
		out := c10Val{K: c10VBool, Tri: tri}
		if tri == -1 {
			out.Cmp = &c10Cmp{Op: token.EQL, L: a, R: b, Neg: x.Op == token.NEQ}
		} else if x.Op == token.NEQ {
			out.Tri = 1 - tri
		}
		return out
	case token.LSS, token.LEQ, token.GTR, token.GEQ:
		if a.K == c10VInt && b.K == c10VInt {
			if ua, ok := a.V.constant(); ok {
				if ub, ok := b.V.constant(); ok && a.V.Signed {
					ia, ib := int64(ua), int64(ub)
					return c10BoolVal(map[token.Token]bool{token.LSS: ia < ib, token.LEQ: ia <= ib, token.GTR: ia > ib, token.GEQ: ia >= ib}[x.Op])
				}
			}
		}
		return c10Val{K: c10VBool, Tri: -1, Cmp: &c10Cmp{Op: x.Op, L: a, R: b}}
	}
	if a.K != c10VInt || b.K != c10VInt {
		return ev.unknownOf(tv.Type, "operand of "+x.Op.String()+" is not an integer the domain tracks")
	}
	switch x.Op {
	case token.OR:
		return c10IntVal(a.V.or(b.V))
	case token.AND:
		return c10IntVal(a.V.and(b.V))
	case token.XOR:
		return c10IntVal(a.V.xor(b.V))
	case token.AND_NOT:
		return c10IntVal(a.V.andNot(b.V))
	case token.ADD:
		return c10IntVal(a.V.add(b.V))
	case token.SUB:
		if u, ok := b.V.constant(); ok && u == 0 {
			return a
		}
	case token.SHL, token.SHR:
		if u, ok := b.V.constant(); ok && u < 64 {
			if x.Op == token.SHL {
				return c10IntVal(a.V.shl(int(u)))
			}
			return c10IntVal(a.V.shr(int(u)))
		}
	}
	return ev.unknownOf(tv.Type, "operator "+x.Op.String()+" has no transfer function for these operands")
}

func (ev *c10Eval) callExpr(call *ast.CallExpr, env c10Env, depth int) c10Val {
	tv := ev.info.Types[call]
	// conversion
	if ftv, ok := ev.info.Types[call.Fun]; ok && ftv.IsType() && len(call.Args) == 1 {
		a := ev.expr(call.Args[0], env, depth)
		if w, s, ok := ev.intType(ftv.Type); ok {
			if a.K == c10VInt {
				return c10IntVal(a.V.convert(w, s))
			}
			return ev.unknownOf(ftv.Type, "conversion of a non-integer")
		}
		if ev.isString(ftv.Type) && a.K == c10VStr {
			return a
		}
		return ev.unknownOf(ftv.Type, "conversion to "+ftv.Type.String())
	}
	fn := callee(ev.info, call)
	switch {
	case isPkgFunc(fn, "fmt", "Sprintf") && len(call.Args) >= 1:
		f := ev.expr(call.Args[0], env, depth)
		if f.K != c10VStr {
			return c10OpaqueVal("Sprintf format is not a constant")
		}
		out := c10Val{K: c10VFmt, S: f.S}
		for _, a := range call.Args[1:] {
			out.Args = append(out.Args, ev.expr(a, env, depth))
		}
		return out
	case isPkgFunc(fn, "fmt", "Errorf"), isPkgFunc(fn, "errors", "New"):
		return c10Val{K: c10VErr}
	}
	if fd := ev.decls[fn]; fd != nil {
		var recv *c10Val
		if sel, ok := ast.Unparen(call.Fun).(*ast.SelectorExpr); ok && fn.Type().(*types.Signature).Recv() != nil {
			rv := ev.expr(sel.X, env, depth)
			recv = &rv
		}
		var args []c10Val
		for _, a := range call.Args {
			args = append(args, ev.expr(a, env, depth))
		}
		outs := ev.call(fd, recv, args, depth+1)
		if len(outs) == 1 && !outs[0].Panic && outs[0].Unsupported == "" {
			if len(outs[0].Res) == 1 {
				return outs[0].Res[0]
			}
			return c10Val{K: c10VTuple, Args: outs[0].Res}
		}
		why := fmt.Sprintf("%s has %d outcomes on this input", funcName(fn), len(outs))
		for _, o := range outs {
			if o.Unsupported != "" {
				why = funcName(fn) + ": " + o.Unsupported
			} else if o.Panic && len(outs) == 1 {
				why = funcName(fn) + " panics on this input"
			}
		}
		return ev.unknownOf(tv.Type, why)
	}
	name := "call"
	if fn != nil {
		name = "call of " + fn.FullName()
	}
	return ev.unknownOf(tv.Type, name+" is not interpreted")
}

// call interprets the body of fd with the given receiver and arguments and returns every way it can end.
func (ev *c10Eval) call(fd *ast.FuncDecl, recv *c10Val, args []c10Val, depth int) []c10Outcome {
	if depth > c10MaxDepth {
		return []c10Outcome{{Unsupported: "inlining depth exceeded", Pos: fd.Pos()}}
	}
	ev.Inlined++
	env := c10Env{}
	if fd.Recv != nil && len(fd.Recv.List) == 1 && len(fd.Recv.List[0].Names) == 1 && recv != nil {
		if o := ev.info.Defs[fd.Recv.List[0].Names[0]]; o != nil {
			env[o] = *recv
		}
	}
	k := 0
	for _, f := range fd.Type.Params.List {
		for _, nm := range f.Names {
			if o := ev.info.Defs[nm]; o != nil && k < len(args) {
				env[o] = args[k]
			}
			k++
		}
	}
	outs, cont := ev.execList(fd.Body.List, c10State{env: env}, depth)
	for _, st := range cont {
		if fd.Type.Results == nil || len(fd.Type.Results.List) == 0 {
			outs = append(outs, c10Outcome{Conds: st.conds, Pos: fd.Body.Rbrace})
		} else {
			outs = append(outs, c10Outcome{Unsupported: "control reaches the end of the function (named results are not modelled)", Conds: st.conds, Pos: fd.Body.Rbrace})
		}
	}
	return outs
}

func (ev *c10Eval) execList(list []ast.Stmt, st c10State, depth int) (outs []c10Outcome, cont []c10State) {
	states := []c10State{st}
	for _, s := range list {
		var next []c10State
		for _, cur := range states {
			o, c := ev.execStmt(s, cur, depth)
			outs = append(outs, o...)
			next = append(next, c...)
		}
		states = next
		if len(states) == 0 {
			break
		}
		if len(states)+len(outs) > 32 {
			return append(outs, c10Outcome{Unsupported: "too many paths", Pos: s.Pos()}), nil
		}
	}
	return outs, states
}

func (ev *c10Eval) isPanic(s ast.Stmt) bool {
	es, ok := s.(*ast.ExprStmt)
	if !ok {
		return false
	}
	call, ok := es.X.(*ast.CallExpr)
	return ok && builtinName(ev.info, call) == "panic"
}

func (ev *c10Eval) execStmt(s ast.Stmt, st c10State, depth int) ([]c10Outcome, []c10State) {
	unsupported := func(why string) ([]c10Outcome, []c10State) {
		return []c10Outcome{{Unsupported: why, Conds: st.conds, Pos: s.Pos()}}, nil
	}
	switch x := s.(type) {
	case *ast.ReturnStmt:
		if len(x.Results) == 0 {
			return unsupported("bare return")
		}
		out := c10Outcome{Conds: st.conds, Pos: x.Pos()}
		for _, r := range x.Results {
			v := ev.expr(r, st.env, depth)
			if v.K == c10VTuple {
				out.Res = append(out.Res, v.Args...)
			} else {
				out.Res = append(out.Res, v)
			}
		}
		return []c10Outcome{out}, nil
	case *ast.BlockStmt:
		return ev.execList(x.List, st, depth)
	case *ast.ExprStmt:
		if ev.isPanic(x) {
			return []c10Outcome{{Panic: true, Conds: st.conds, Pos: x.Pos()}}, nil
		}
		return unsupported("expression statement")
	case *ast.DeclStmt:
		gd, ok := x.Decl.(*ast.GenDecl)
		if !ok || gd.Tok != token.VAR {
			return unsupported("declaration")
		}
		env := st.env
		for _, sp := range gd.Specs {
			vs := sp.(*ast.ValueSpec)
			for i, nm := range vs.Names {
				o := ev.info.Defs[nm]
				if o == nil {
					continue
				}
				if i < len(vs.Values) && len(vs.Values) == len(vs.Names) {
					env = env.with(o, ev.expr(vs.Values[i], env, depth))
				} else if len(vs.Values) == 0 {
					env = env.with(o, ev.zeroOf(o.Type()))
				} else {
					return unsupported("multi-value var declaration")
				}
			}
		}
		return nil, []c10State{{env: env, conds: st.conds}}
	case *ast.AssignStmt:
		if x.Tok != token.DEFINE && x.Tok != token.ASSIGN {
			return unsupported("compound assignment")
		}
		var vals []c10Val
		if len(x.Rhs) == 1 && len(x.Lhs) > 1 {
			v := ev.expr(x.Rhs[0], st.env, depth)
			if v.K != c10VTuple || len(v.Args) != len(x.Lhs) {
				for range x.Lhs {
					vals = append(vals, c10OpaqueVal("multi-value right-hand side: "+v.Why))
				}
			} else {
				vals = v.Args
			}
		} else if len(x.Rhs) == len(x.Lhs) {
			for _, r := range x.Rhs {
				vals = append(vals, ev.expr(r, st.env, depth))
			}
		} else {
			return unsupported("assignment shape")
		}
		env := st.env
		for i, l := range x.Lhs {
			id, ok := ast.Unparen(l).(*ast.Ident)
			if !ok {
				return unsupported("assignment to a non-variable")
			}
			if id.Name == "_" {
				continue
			}
			o := ev.info.Defs[id]
			if o == nil {
				o = ev.info.Uses[id]
			}
			if o == nil {
				return unsupported("assignment target")
			}
			env = env.with(o, vals[i])
		}
		return nil, []c10State{{env: env, conds: st.conds}}
	case *ast.IfStmt:
		if x.Init != nil {
			return unsupported("if with init statement")
		}
		c := ev.expr(x.Cond, st.env, depth)
		if c.K != c10VBool {
			return unsupported("if condition is not a tracked boolean")
		}
		var outs []c10Outcome
		var cont []c10State
		branch := func(taken bool, s2 c10State) {
			if taken {
				o, c2 := ev.execList(x.Body.List, s2, depth)
				outs, cont = append(outs, o...), append(cont, c2...)
				return
			}
			if x.Else == nil {
				cont = append(cont, s2)
				return
			}
			o, c2 := ev.execStmt(x.Else, s2, depth)
			outs, cont = append(outs, o...), append(cont, c2...)
		}
		switch c.Tri {
		case 1:
			branch(true, st)
		case 0:
			branch(false, st)
		default:
			for _, taken := range []bool{true, false} {
				cs := append(append([]c10PathCond{}, st.conds...), c10PathCond{Cond: c, Taken: taken})
				branch(taken, c10State{env: st.env, conds: cs})
			}
		}
		return outs, cont
	case *ast.SwitchStmt:
		if x.Init != nil || x.Tag == nil {
			return unsupported("switch without tag / with init")
		}
		tag := ev.expr(x.Tag, st.env, depth)
		var deflt *ast.CaseClause
		for _, cs := range x.Body.List {
			cc := cs.(*ast.CaseClause)
			if cc.List == nil {
				deflt = cc
				continue
			}
			for _, ce := range cc.List {
				cv := ev.expr(ce, st.env, depth)
				eq := -1
				switch {
				case tag.K == c10VInt && cv.K == c10VInt:
					eq = c10VecEq(tag.V, cv.V)
				case tag.K == c10VStr && cv.K == c10VStr:
					eq = map[bool]int{true: 1, false: 0}[tag.S == cv.S]
				}
				if eq == -1 {
					return unsupported("switch tag " + tag.String() + " cannot be compared with its case values for every input")
				}
				if eq == 1 {
					return ev.execCase(cc, st, depth)
				}
			}
		}
		if deflt != nil {
			return ev.execCase(deflt, st, depth)
		}
		return nil, []c10State{st}
	}
	return unsupported(fmt.Sprintf("statement %T", s))
}

func (ev *c10Eval) execCase(cc *ast.CaseClause, st c10State, depth int) ([]c10Outcome, []c10State) {
	for _, s := range cc.Body {
		if b, ok := s.(*ast.BranchStmt); ok {
			return []c10Outcome{{Unsupported: "branch statement " + b.Tok.String() + " in switch case", Conds: st.conds, Pos: b.Pos()}}, nil
		}
	}
	return ev.execList(cc.Body, st, depth)
}
