package rules

import (
	"fmt"
	"go/types"
)

// C03.T6, "values equal what is written": a hand-written decoder that stores an attribute into a numeric (or bool)
// field must obtain the value by the standard conversion of the WHOLE attribute text - strconv.ParseFloat / ParseInt /
// ParseUint / ParseBool / Atoi on the attribute's Value, at most trimmed the way encoding/xml trims it, base 10 and
// the bit size of the field - because that is what the tag-driven decoder (and every other reader of the same
// document) yields. This is provenance, not numerics: a value the decoder computes with its own digit arithmetic may
// or may not round the same way and is reported as undecided; a standard conversion with another base or bit size is
// a violation.

// c03IsAttrText: v is the attribute's Value itself, possibly through strings.TrimSpace and conversions.
func c03IsAttrText(v *c03V, start *types.Var) bool {
	for i := 0; v != nil && i < 4; i++ {
		if v.K == c03KInit {
			return c03FromAttrValue(v, start) && v.Root.Kind == "elem"
		}
		if v.K == c03KUnk && isPkgFunc(v.Fn, "strings", "TrimSpace") && len(v.From) == 1 {
			v = v.From[0]
			continue
		}
		return false
	}
	return false
}

func c03FieldBits(t types.Type) (bits int64, float, ok bool) {
	b, isBasic := t.Underlying().(*types.Basic)
	if !isBasic {
		return 0, false, false
	}
	switch b.Kind() {
	case types.Int8, types.Uint8:
		return 8, false, true
	case types.Int16, types.Uint16:
		return 16, false, true
	case types.Int32, types.Uint32:
		return 32, false, true
	case types.Int64, types.Uint64:
		return 64, false, true
	case types.Int, types.Uint, types.Uintptr:
		return 0, false, true // strconv.IntSize, 0, 32 or 64 depending on the platform
	case types.Float32:
		return 32, true, true
	case types.Float64:
		return 64, true, true
	case types.Bool:
		return -1, false, true
	}
	return 0, false, false
}

// c03Conversion judges the value a numeric field received from an attribute: "" = the standard conversion of the
// attribute text; bad = a standard conversion with the wrong parameters; unknown = something else computed from it.
func c03Conversion(v *c03V, ft types.Type, start *types.Var) (bad, unknown string) {
	bits, isFloat, _ := c03FieldBits(ft)
	if v == nil || v.K != c03KUnk || v.Fn == nil || v.Fn.Pkg() == nil || v.Fn.Pkg().Path() != "strconv" {
		return "", "it holds `" + v.String() + "`, which is computed from the attribute text by the decoder's own code rather than by strconv on the whole text: whether that agrees with the standard conversion for every input (long digit strings are rounded twice by integer-then-divide schemes, signs, exponents, overflow) is not decided"
	}
	intArg := func(i int) (int64, bool) {
		if i < len(v.From) && v.From[i].K == c03KInt {
			return v.From[i].Int, true
		}
		return 0, false
	}
	if len(v.From) == 0 || !c03IsAttrText(v.From[0], start) {
		return "", "strconv." + v.Fn.Name() + " is applied to `" + fmt.Sprint(v.From[0]) + "`, not to the attribute's (trimmed) text"
	}
	switch v.Fn.Name() {
	case "ParseFloat":
		bs, ok := intArg(1)
		switch {
		case !isFloat:
			return "a floating point conversion fills an integer field", ""
		case !ok:
			return "", "the bit size passed to strconv.ParseFloat is not a constant"
		case bs != bits:
			return fmt.Sprintf("strconv.ParseFloat is called with bit size %d for a %d-bit field: the value is rounded to %d-bit precision first, so it differs from what the tag-driven decoder yields", bs, bits, bs), ""
		}
	case "ParseInt", "ParseUint":
		base, ok1 := intArg(1)
		bs, ok2 := intArg(2)
		switch {
		case isFloat || bits < 0:
			return "an integer conversion fills a non-integer field", ""
		case !ok1 || !ok2:
			return "", "base / bit size passed to strconv." + v.Fn.Name() + " are not constants"
		case base != 10:
			return fmt.Sprintf("strconv.%s is called with base %d: encoding/xml reads attribute numbers in base 10", v.Fn.Name(), base), ""
		case bits > 0 && bs != bits, bits == 0 && bs != 0 && bs != 32 && bs != 64:
			return fmt.Sprintf("strconv.%s is called with bit size %d for a field of %d bits: out-of-range values are accepted or rejected differently from the tag-driven decoder", v.Fn.Name(), bs, bits), ""
		}
	case "Atoi":
		if isFloat || bits != 0 {
			return "", "strconv.Atoi fills a field that is not an int"
		}
	case "ParseBool":
		if bits != -1 {
			return "strconv.ParseBool fills a non-bool field", ""
		}
	default:
		return "", "strconv." + v.Fn.Name() + " is not one of the conversions encoding/xml applies"
	}
	return "", ""
}
