package rules

import (
	"go/ast"
	"go/token"
	"go/types"
)

// Taint of the values a JSON reader decoded, for C05.J11 (c05_j11.go): which expressions of an UnmarshalJSON method,
// and of the repository functions it reaches, are computed from a value the codec filled. Flow-insensitive and
// object-level on the typed AST: a variable is tainted when it is a decode target or is assigned / ranged / passed
// something that mentions a tainted variable (len / cap excepted); parameters of reached functions, of function
// literals bound to a variable and of callbacks handed to a reached function receive the taint of their arguments; a
// call is tainted when an argument or its receiver is, or when the reached callee returns something tainted.
// Over-approximate on purpose: the rule only looks at conversions of tainted values between number kinds.

type c05Taint struct {
	cx      *c05Codec
	reach   []*FuncInfo
	byFunc  map[*types.Func]*FuncInfo
	objs    map[types.Object]bool
	rets    map[*types.Func]bool            // reached functions that return something tainted
	lits    map[types.Object][]*ast.FuncLit // function literals a variable / parameter may hold
	targets []c05DecodeTarget
	changed bool
}

// c05DecodeTarget is one value handed to the codec to decode into.
type c05DecodeTarget struct {
	fi   *FuncInfo
	call *ast.CallExpr
	arg  ast.Expr
	t    types.Type // type decoded into (pointer removed)
}

func c05NewTaint(cx *c05Codec, root *FuncInfo) *c05Taint {
	t := &c05Taint{cx: cx, reach: c03Callees(cx.p, root, 5), byFunc: map[*types.Func]*FuncInfo{}, objs: map[types.Object]bool{},
		rets: map[*types.Func]bool{}, lits: map[types.Object][]*ast.FuncLit{}}
	for _, fi := range t.reach {
		t.byFunc[fi.Obj] = fi
	}
	for _, fi := range t.reach {
		t.sources(fi)
	}
	for round := 0; round < 12; round++ {
		t.changed = false
		for _, fi := range t.reach {
			t.propagate(fi)
		}
		if !t.changed {
			break
		}
	}
	return t
}

func (t *c05Taint) mark(o types.Object) {
	if o != nil && !t.objs[o] {
		t.objs[o] = true
		t.changed = true
	}
}

// c05RootObj: the variable an addressable expression is rooted in (&a, a.f, a[i], *p, (*T)(p)).
func c05RootObj(info *types.Info, e ast.Expr) types.Object {
	for {
		switch x := ast.Unparen(e).(type) {
		case *ast.UnaryExpr:
			e = x.X
		case *ast.StarExpr:
			e = x.X
		case *ast.SelectorExpr:
			if _, isPkg := info.Uses[c05Ident(x.X)].(*types.PkgName); isPkg {
				return info.Uses[x.Sel]
			}
			e = x.X
		case *ast.IndexExpr:
			e = x.X
		case *ast.SliceExpr:
			e = x.X
		case *ast.CallExpr:
			if tv, ok := info.Types[x.Fun]; ok && tv.IsType() && len(x.Args) == 1 {
				e = x.Args[0]
				continue
			}
			return nil
		case *ast.Ident:
			if o := info.Uses[x]; o != nil {
				return o
			}
			return info.Defs[x]
		default:
			return nil
		}
	}
}

func c05Ident(e ast.Expr) *ast.Ident {
	id, _ := ast.Unparen(e).(*ast.Ident)
	return id
}

// isUnmarshal: the call hands its last argument to the codec to decode into.
func (t *c05Taint) isUnmarshal(info *types.Info, call *ast.CallExpr) bool {
	fn := callee(info, call)
	if dir, _ := t.cx.classify(fn, nil); dir == "unmarshal" {
		return true
	}
	if sel, ok := ast.Unparen(call.Fun).(*ast.SelectorExpr); ok && t.cx.uv != nil {
		if id := c05Ident(sel.X); id != nil && info.Uses[id] == t.cx.uv {
			return true
		}
	}
	return false
}

func (t *c05Taint) sources(fi *FuncInfo) {
	info := fi.Pkg.TypesInfo
	ast.Inspect(fi.Decl.Body, func(n ast.Node) bool {
		call, ok := n.(*ast.CallExpr)
		if !ok || len(call.Args) == 0 || !t.isUnmarshal(info, call) {
			return true
		}
		arg := call.Args[len(call.Args)-1]
		t.mark(c05RootObj(info, arg))
		at := info.TypeOf(arg)
		if at != nil {
			if p, isPtr := at.Underlying().(*types.Pointer); isPtr {
				at = p.Elem()
			}
			t.targets = append(t.targets, c05DecodeTarget{fi: fi, call: call, arg: arg, t: at})
		}
		return true
	})
}

// Tainted: the expression mentions a tainted variable outside len / cap, or is a call of a function that returns
// something tainted.
func (t *c05Taint) Tainted(info *types.Info, e ast.Expr) bool {
	found := false
	ast.Inspect(e, func(n ast.Node) bool {
		if found {
			return false
		}
		switch x := n.(type) {
		case *ast.CallExpr:
			if b := builtinName(info, x); b == "len" || b == "cap" {
				return false
			}
			if fn := callee(info, x); fn != nil && t.rets[fn] {
				found = true
			}
		case *ast.FuncLit:
			return false
		case *ast.Ident:
			if o := info.Uses[x]; o != nil && t.objs[o] {
				found = true
			}
		}
		return !found
	})
	return found
}

func (t *c05Taint) bindLit(o types.Object, e ast.Expr) {
	lit, ok := ast.Unparen(e).(*ast.FuncLit)
	if !ok || o == nil {
		return
	}
	for _, l := range t.lits[o] {
		if l == lit {
			return
		}
	}
	t.lits[o] = append(t.lits[o], lit)
	t.changed = true
}

func (t *c05Taint) assign(info *types.Info, lhs []ast.Expr, rhs []ast.Expr) {
	for i, l := range lhs {
		var r ast.Expr
		switch {
		case len(rhs) == len(lhs):
			r = rhs[i]
		case len(rhs) == 1:
			r = rhs[0]
		default:
			continue
		}
		o := c05RootObj(info, l)
		t.bindLit(o, r)
		if t.Tainted(info, r) {
			t.mark(o)
		}
	}
}

func (t *c05Taint) propagate(fi *FuncInfo) {
	info := fi.Pkg.TypesInfo
	ast.Inspect(fi.Decl.Body, func(n ast.Node) bool {
		switch x := n.(type) {
		case *ast.AssignStmt:
			t.assign(info, x.Lhs, x.Rhs)
		case *ast.ValueSpec:
			var lhs []ast.Expr
			for _, id := range x.Names {
				lhs = append(lhs, id)
			}
			if len(x.Values) > 0 {
				t.assign(info, lhs, x.Values)
			}
		case *ast.RangeStmt:
			if t.Tainted(info, x.X) {
				if x.Value != nil {
					t.mark(c05RootObj(info, x.Value))
				}
				if _, isMap := info.TypeOf(x.X).Underlying().(*types.Map); isMap && x.Key != nil {
					t.mark(c05RootObj(info, x.Key))
				}
			}
		case *ast.TypeSwitchStmt:
			// switch v := x.(type): the implicit v of every clause is x
			if as, ok := x.Assign.(*ast.AssignStmt); ok && len(as.Rhs) == 1 && t.Tainted(info, as.Rhs[0]) {
				for _, cl := range x.Body.List {
					t.mark(info.Implicits[cl])
				}
			}
		case *ast.ReturnStmt:
			for _, r := range x.Results {
				if t.Tainted(info, r) && !t.rets[fi.Obj] {
					t.rets[fi.Obj] = true
					t.changed = true
				}
			}
		case *ast.CallExpr:
			t.call(info, x)
		}
		return true
	})
}

// call hands the taint of the arguments to the parameters of whatever is called.
func (t *c05Taint) call(info *types.Info, call *ast.CallExpr) {
	if tv, ok := info.Types[call.Fun]; ok && tv.IsType() {
		return
	}
	params := func(sig *types.Signature, i int) *types.Var {
		n := sig.Params().Len()
		switch {
		case n == 0:
			return nil
		case i >= n:
			return sig.Params().At(n - 1)
		}
		return sig.Params().At(i)
	}
	if fn := callee(info, call); fn != nil {
		ci := t.byFunc[fn]
		if ci == nil {
			return
		}
		sig := fn.Type().(*types.Signature)
		for i, a := range call.Args {
			p := params(sig, i)
			t.bindLit(p, a)
			if t.Tainted(info, a) {
				t.mark(p)
			}
		}
		if sel, ok := ast.Unparen(call.Fun).(*ast.SelectorExpr); ok && sig.Recv() != nil && t.Tainted(info, sel.X) {
			t.mark(sig.Recv())
		}
		return
	}
	// a call through a variable holding function literals: their parameters get the arguments
	var lits []*ast.FuncLit
	if lit, ok := ast.Unparen(call.Fun).(*ast.FuncLit); ok {
		lits = []*ast.FuncLit{lit}
	} else if o := c05RootObj(info, call.Fun); o != nil {
		lits = t.lits[o]
	}
	for _, lit := range lits {
		var ps []*ast.Ident
		for _, f := range lit.Type.Params.List {
			ps = append(ps, f.Names...)
		}
		for i, a := range call.Args {
			if i < len(ps) && t.Tainted(info, a) {
				t.mark(info.Defs[ps[i]])
			}
		}
	}
}

// c05NumConv is a conversion of a tainted number to an integer type that can change its value.
type c05NumConv struct {
	fi   *FuncInfo
	pos  token.Pos
	expr ast.Expr
	from types.Type
	to   types.Type
	kind string // "float" | "narrow"
}

// c05IntWidth: guaranteed width in bytes of an integer kind (int / uint: 4, they are 32 bits on 386 and arm).
func c05IntWidth(b *types.Basic) int {
	switch b.Kind() {
	case types.Int8, types.Uint8:
		return 1
	case types.Int16, types.Uint16:
		return 2
	case types.Int32, types.Uint32, types.Int, types.Uint, types.Uintptr:
		return 4
	case types.Int64, types.Uint64:
		return 8
	}
	return 0
}

// Conversions lists the lossy-by-construction conversions of decoded numbers in the reached code: float -> integer,
// and integer -> wider integer (the value went through the narrower type first).
func (t *c05Taint) Conversions() []c05NumConv {
	var out []c05NumConv
	for _, fi := range t.reach {
		info := fi.Pkg.TypesInfo
		ast.Inspect(fi.Decl.Body, func(n ast.Node) bool {
			call, ok := n.(*ast.CallExpr)
			if !ok || len(call.Args) != 1 {
				return true
			}
			tv, isConv := info.Types[call.Fun]
			if !isConv || !tv.IsType() {
				return true
			}
			to, ok1 := tv.Type.Underlying().(*types.Basic)
			ft := info.TypeOf(call.Args[0])
			if !ok1 || ft == nil || to.Info()&types.IsInteger == 0 {
				return true
			}
			from, ok2 := ft.Underlying().(*types.Basic)
			if !ok2 || !t.Tainted(info, call.Args[0]) {
				return true
			}
			switch {
			case from.Info()&types.IsFloat != 0:
				out = append(out, c05NumConv{fi: fi, pos: call.Pos(), expr: call, from: ft, to: tv.Type, kind: "float"})
			case from.Info()&types.IsInteger != 0 && from.Info()&types.IsUntyped == 0 && c05IntWidth(from) < c05IntWidth(to):
				out = append(out, c05NumConv{fi: fi, pos: call.Pos(), expr: call, from: ft, to: tv.Type, kind: "narrow"})
			}
			return true
		})
	}
	return out
}
