package rules

import "osmcheck/core"

// c17Benign4: behaviour-preserving variants, round 6: an option deciding through the result of a helper with several
// returns, through the ok of a (value, ok) pair, through constant results; the interest test spelled with the library
// method osm.Tags.AnyInteresting and the skippable store behind a helper taking the way id.
var c17Benign4 = []core.Mutant{
	// both guards of the bookkeeping behind a helper with several returns (switch on the member type); the option decides through the helper's result
	{Name: "b-g3-membership-multipath-result-helper", File: "osmgeojson/convert.go", Nth: 0,
		Find: `// Convert takes a set of osm elements and converts them
// to a geojson feature collection.
func Convert(o *osm.OSM, opts ...Option) (*geojson.FeatureCollection, error) {
	ctx := &context{
		osm:       o,
		skippable: make(map[osm.WayID]struct{}),
	}

	for _, opt := range opts {
		if err := opt(ctx); err != nil {
			return nil, err
		}
	}

	ctx.wayMap = make(map[osm.WayID]*osm.Way, len(o.Ways))
	for _, w := range ctx.osm.Ways {
		ctx.wayMap[w.ID] = w
	}

	ctx.wayMember = make(map[osm.NodeID]struct{}, len(ctx.osm.Nodes))
	for _, w := range ctx.osm.Ways {
		for i := range w.Nodes {
			ctx.wayMember[w.Nodes[i].ID] = struct{}{}
		}
	}

	// figure out relation membership map
	ctx.relationMember = make(map[osm.FeatureID][]*relationSummary)
	for _, relation := range ctx.osm.Relations {
		var tags map[string]string
		for _, m := range relation.Members {
			if ctx.noRelationMembership && m.Type != osm.TypeNode {
				// If we don't need to do relation membership we only
				// need this for nodes to check if they're interesting.
				continue
			}

			if m.Type == osm.TypeWay {
				// We only need to store the way membership for ways that are
				// present. eg. relations could have thousands of members but only
				// a few in set of osm.
				if _, ok := ctx.wayMap[osm.WayID(m.Ref)]; !ok {
					continue
				}
			}
`,
		Replace: `// needsMembership returns true if the membership needs to be remembered.
func (ctx *context) needsMembership(m osm.Member) bool {
	switch m.Type {
	case osm.TypeNode:
		// always needed, to check if the nodes are interesting.
		return true
	case osm.TypeWay:
		if ctx.noRelationMembership {
			return false
		}

		// We only need to store the way membership for ways that are present.
		_, present := ctx.wayMap[osm.WayID(m.Ref)]
		return present
	default:
		return !ctx.noRelationMembership
	}
}

// Convert takes a set of osm elements and converts them
// to a geojson feature collection.
func Convert(o *osm.OSM, opts ...Option) (*geojson.FeatureCollection, error) {
	ctx := &context{
		osm:       o,
		skippable: make(map[osm.WayID]struct{}),
	}

	for _, opt := range opts {
		if err := opt(ctx); err != nil {
			return nil, err
		}
	}

	ctx.wayMap = make(map[osm.WayID]*osm.Way, len(o.Ways))
	for _, w := range ctx.osm.Ways {
		ctx.wayMap[w.ID] = w
	}

	ctx.wayMember = make(map[osm.NodeID]struct{}, len(ctx.osm.Nodes))
	for _, w := range ctx.osm.Ways {
		for i := range w.Nodes {
			ctx.wayMember[w.Nodes[i].ID] = struct{}{}
		}
	}

	// figure out relation membership map
	ctx.relationMember = make(map[osm.FeatureID][]*relationSummary)
	for _, relation := range ctx.osm.Relations {
		var tags map[string]string
		for _, m := range relation.Members {
			if !ctx.needsMembership(m) {
				continue
			}
`},
	// flag + value -> (value, ok): the option decides the ok of a helper returning a pair
	{Name: "b-g3-relations-value-ok-helper", File: "osmgeojson/convert.go", Nth: 0,
		Find: `func (ctx *context) addMetaProperties(props geojson.Properties, e osm.Element) {
	if !ctx.noRelationMembership {
		relations := ctx.relationMember[e.FeatureID()]
		if len(relations) != 0 {
			props["relations"] = relations
		} else {
			props["relations"] = []*relationSummary{}
		}
	}
`,
		Replace: `// relationsOf returns the relations the element is a member of, false if they are not wanted.
func (ctx *context) relationsOf(e osm.Element) ([]*relationSummary, bool) {
	if ctx.noRelationMembership {
		return nil, false
	}

	if list := ctx.relationMember[e.FeatureID()]; len(list) != 0 {
		return list, true
	}

	return []*relationSummary{}, true
}

func (ctx *context) addMetaProperties(props geojson.Properties, e osm.Element) {
	if relations, ok := ctx.relationsOf(e); ok {
		props["relations"] = relations
	}
`},
	// the option turned into constant results of a helper with two returns
	{Name: "b-g3-noid-constant-result-helper", File: "osmgeojson/convert.go", Nth: 0,
		Find: `func (ctx *context) nodeToFeature(n *osm.Node) *geojson.Feature {
	// our definition of empty, ill defined
	if n.Lon == 0 && n.Lat == 0 && n.Version == 0 {
		return nil
	}

	f := geojson.NewFeature(orb.Point{n.Lon, n.Lat})

	if !ctx.noID {
		f.ID = fmt.Sprintf("node/%d", n.ID)
	}
`,
		Replace: `// anonymous reports whether features are to be left without an id.
func (ctx *context) anonymous() bool {
	if ctx.noID {
		return true
	}

	return false
}

func (ctx *context) nodeToFeature(n *osm.Node) *geojson.Feature {
	// our definition of empty, ill defined
	if n.Lon == 0 && n.Lat == 0 && n.Version == 0 {
		return nil
	}

	f := geojson.NewFeature(orb.Point{n.Lon, n.Lat})

	if !ctx.anonymous() {
		f.ID = fmt.Sprintf("node/%d", n.ID)
	}
`},
	// store behind a helper taking the way id; interest test through osm.Tags.AnyInteresting (no discount set)
	{Name: "b-g6-store-helper-anyinteresting", File: "osmgeojson/convert.go", Nth: 0,
		Find: `func (ctx *context) buildRouteLineString(relation *osm.Relation) *geojson.Feature {
	lines := make([]mputil.Segment, 0, 10)
	tainted := false
	for _, m := range relation.Members {
		if m.Type != osm.TypeWay {
			continue
		}

		way := ctx.wayMap[osm.WayID(m.Ref)]
		if way == nil {
			tainted = true
			continue
		}

		if !hasInterestingTags(way.Tags, nil) {
			ctx.skippable[way.ID] = struct{}{}
		}
`,
		Replace: `// markSkippable notes that the way does not need a feature of its own.
func (ctx *context) markSkippable(id osm.WayID) {
	ctx.skippable[id] = struct{}{}
}

func (ctx *context) buildRouteLineString(relation *osm.Relation) *geojson.Feature {
	lines := make([]mputil.Segment, 0, 10)
	tainted := false
	for _, m := range relation.Members {
		if m.Type != osm.TypeWay {
			continue
		}

		way := ctx.wayMap[osm.WayID(m.Ref)]
		if way == nil {
			tainted = true
			continue
		}

		if !way.Tags.AnyInteresting() {
			ctx.markSkippable(way.ID)
		}
`},
	// flag + value -> nil-able value: the helper returns nil exactly when NoMeta is set and the caller tests the value
	{Name: "b-g3-meta-nil-result-helper", File: "osmgeojson/convert.go", Nth: 0,
		Find: `	if ctx.noMeta {
		return
	}

	meta := make(map[string]interface{}, 5)
	switch e := e.(type) {
	case *osm.Node:
		if !e.Timestamp.IsZero() {
			meta["timestamp"] = e.Timestamp
		}

		if e.Version != 0 {
			meta["version"] = e.Version
		}

		if e.ChangesetID != 0 {
			meta["changeset"] = e.ChangesetID
		}

		if e.User != "" {
			meta["user"] = e.User
		}

		if e.UserID != 0 {
			meta["uid"] = e.UserID
		}

	case *osm.Way:
		if !e.Timestamp.IsZero() {
			meta["timestamp"] = e.Timestamp
		}

		if e.Version != 0 {
			meta["version"] = e.Version
		}

		if e.ChangesetID != 0 {
			meta["changeset"] = e.ChangesetID
		}

		if e.User != "" {
			meta["user"] = e.User
		}

		if e.UserID != 0 {
			meta["uid"] = e.UserID
		}

	case *osm.Relation:
		if !e.Timestamp.IsZero() {
			meta["timestamp"] = e.Timestamp
		}

		if e.Version != 0 {
			meta["version"] = e.Version
		}

		if e.ChangesetID != 0 {
			meta["changeset"] = e.ChangesetID
		}

		if e.User != "" {
			meta["user"] = e.User
		}

		if e.UserID != 0 {
			meta["uid"] = e.UserID
		}

	default:
		panic("unsupported type")
	}

	props["meta"] = meta
}
`,
		Replace: `	if meta := ctx.metaOf(e); meta != nil {
		props["meta"] = meta
	}
}

// metaOf returns the meta object of the element, nil if it is not wanted.
func (ctx *context) metaOf(e osm.Element) map[string]interface{} {
	if ctx.noMeta {
		return nil
	}

	meta := make(map[string]interface{}, 5)
	switch e := e.(type) {
	case *osm.Node:
		if !e.Timestamp.IsZero() {
			meta["timestamp"] = e.Timestamp
		}

		if e.Version != 0 {
			meta["version"] = e.Version
		}

		if e.ChangesetID != 0 {
			meta["changeset"] = e.ChangesetID
		}

		if e.User != "" {
			meta["user"] = e.User
		}

		if e.UserID != 0 {
			meta["uid"] = e.UserID
		}

	case *osm.Way:
		if !e.Timestamp.IsZero() {
			meta["timestamp"] = e.Timestamp
		}

		if e.Version != 0 {
			meta["version"] = e.Version
		}

		if e.ChangesetID != 0 {
			meta["changeset"] = e.ChangesetID
		}

		if e.User != "" {
			meta["user"] = e.User
		}

		if e.UserID != 0 {
			meta["uid"] = e.UserID
		}

	case *osm.Relation:
		if !e.Timestamp.IsZero() {
			meta["timestamp"] = e.Timestamp
		}

		if e.Version != 0 {
			meta["version"] = e.Version
		}

		if e.ChangesetID != 0 {
			meta["changeset"] = e.ChangesetID
		}

		if e.User != "" {
			meta["user"] = e.User
		}

		if e.UserID != 0 {
			meta["uid"] = e.UserID
		}

	default:
		panic("unsupported type")
	}

	return meta
}
`},
}

// c17Mutants4: defects seeded into those shapes.
var c17Mutants4 = []core.Mutant{
	// the helper lets the option drop node members too
	{Name: "r-g3-multipath-helper-drops-nodes", File: "osmgeojson/convert.go", Nth: 0, ExpectRule: "G3", ExpectConstruct: "noRelationMembership",
		Find: `// Convert takes a set of osm elements and converts them
// to a geojson feature collection.
func Convert(o *osm.OSM, opts ...Option) (*geojson.FeatureCollection, error) {
	ctx := &context{
		osm:       o,
		skippable: make(map[osm.WayID]struct{}),
	}

	for _, opt := range opts {
		if err := opt(ctx); err != nil {
			return nil, err
		}
	}

	ctx.wayMap = make(map[osm.WayID]*osm.Way, len(o.Ways))
	for _, w := range ctx.osm.Ways {
		ctx.wayMap[w.ID] = w
	}

	ctx.wayMember = make(map[osm.NodeID]struct{}, len(ctx.osm.Nodes))
	for _, w := range ctx.osm.Ways {
		for i := range w.Nodes {
			ctx.wayMember[w.Nodes[i].ID] = struct{}{}
		}
	}

	// figure out relation membership map
	ctx.relationMember = make(map[osm.FeatureID][]*relationSummary)
	for _, relation := range ctx.osm.Relations {
		var tags map[string]string
		for _, m := range relation.Members {
			if ctx.noRelationMembership && m.Type != osm.TypeNode {
				// If we don't need to do relation membership we only
				// need this for nodes to check if they're interesting.
				continue
			}

			if m.Type == osm.TypeWay {
				// We only need to store the way membership for ways that are
				// present. eg. relations could have thousands of members but only
				// a few in set of osm.
				if _, ok := ctx.wayMap[osm.WayID(m.Ref)]; !ok {
					continue
				}
			}
`,
		Replace: `// needsMembership returns true if the membership needs to be remembered.
func (ctx *context) needsMembership(m osm.Member) bool {
	switch m.Type {
	case osm.TypeNode:
		return !ctx.noRelationMembership
	case osm.TypeWay:
		if ctx.noRelationMembership {
			return false
		}

		// We only need to store the way membership for ways that are present.
		_, present := ctx.wayMap[osm.WayID(m.Ref)]
		return present
	default:
		return !ctx.noRelationMembership
	}
}

// Convert takes a set of osm elements and converts them
// to a geojson feature collection.
func Convert(o *osm.OSM, opts ...Option) (*geojson.FeatureCollection, error) {
	ctx := &context{
		osm:       o,
		skippable: make(map[osm.WayID]struct{}),
	}

	for _, opt := range opts {
		if err := opt(ctx); err != nil {
			return nil, err
		}
	}

	ctx.wayMap = make(map[osm.WayID]*osm.Way, len(o.Ways))
	for _, w := range ctx.osm.Ways {
		ctx.wayMap[w.ID] = w
	}

	ctx.wayMember = make(map[osm.NodeID]struct{}, len(ctx.osm.Nodes))
	for _, w := range ctx.osm.Ways {
		for i := range w.Nodes {
			ctx.wayMember[w.Nodes[i].ID] = struct{}{}
		}
	}

	// figure out relation membership map
	ctx.relationMember = make(map[osm.FeatureID][]*relationSummary)
	for _, relation := range ctx.osm.Relations {
		var tags map[string]string
		for _, m := range relation.Members {
			if !ctx.needsMembership(m) {
				continue
			}
`},
	// default case returns the option un-negated: relation memberships are recorded only when the option is set
	{Name: "r-g3-multipath-helper-inverted-default", File: "osmgeojson/convert.go", Nth: 0, ExpectRule: "G3", ExpectConstruct: "noRelationMembership",
		Find: `// Convert takes a set of osm elements and converts them
// to a geojson feature collection.
func Convert(o *osm.OSM, opts ...Option) (*geojson.FeatureCollection, error) {
	ctx := &context{
		osm:       o,
		skippable: make(map[osm.WayID]struct{}),
	}

	for _, opt := range opts {
		if err := opt(ctx); err != nil {
			return nil, err
		}
	}

	ctx.wayMap = make(map[osm.WayID]*osm.Way, len(o.Ways))
	for _, w := range ctx.osm.Ways {
		ctx.wayMap[w.ID] = w
	}

	ctx.wayMember = make(map[osm.NodeID]struct{}, len(ctx.osm.Nodes))
	for _, w := range ctx.osm.Ways {
		for i := range w.Nodes {
			ctx.wayMember[w.Nodes[i].ID] = struct{}{}
		}
	}

	// figure out relation membership map
	ctx.relationMember = make(map[osm.FeatureID][]*relationSummary)
	for _, relation := range ctx.osm.Relations {
		var tags map[string]string
		for _, m := range relation.Members {
			if ctx.noRelationMembership && m.Type != osm.TypeNode {
				// If we don't need to do relation membership we only
				// need this for nodes to check if they're interesting.
				continue
			}

			if m.Type == osm.TypeWay {
				// We only need to store the way membership for ways that are
				// present. eg. relations could have thousands of members but only
				// a few in set of osm.
				if _, ok := ctx.wayMap[osm.WayID(m.Ref)]; !ok {
					continue
				}
			}
`,
		Replace: `// needsMembership returns true if the membership needs to be remembered.
func (ctx *context) needsMembership(m osm.Member) bool {
	switch m.Type {
	case osm.TypeNode:
		// always needed, to check if the nodes are interesting.
		return true
	case osm.TypeWay:
		if ctx.noRelationMembership {
			return false
		}

		// We only need to store the way membership for ways that are present.
		_, present := ctx.wayMap[osm.WayID(m.Ref)]
		return present
	default:
		return ctx.noRelationMembership
	}
}

// Convert takes a set of osm elements and converts them
// to a geojson feature collection.
func Convert(o *osm.OSM, opts ...Option) (*geojson.FeatureCollection, error) {
	ctx := &context{
		osm:       o,
		skippable: make(map[osm.WayID]struct{}),
	}

	for _, opt := range opts {
		if err := opt(ctx); err != nil {
			return nil, err
		}
	}

	ctx.wayMap = make(map[osm.WayID]*osm.Way, len(o.Ways))
	for _, w := range ctx.osm.Ways {
		ctx.wayMap[w.ID] = w
	}

	ctx.wayMember = make(map[osm.NodeID]struct{}, len(ctx.osm.Nodes))
	for _, w := range ctx.osm.Ways {
		for i := range w.Nodes {
			ctx.wayMember[w.Nodes[i].ID] = struct{}{}
		}
	}

	// figure out relation membership map
	ctx.relationMember = make(map[osm.FeatureID][]*relationSummary)
	for _, relation := range ctx.osm.Relations {
		var tags map[string]string
		for _, m := range relation.Members {
			if !ctx.needsMembership(m) {
				continue
			}
`},
	// the pair helper no longer reads the option: relations are stored with NoRelationMembership set
	{Name: "r-g3-value-ok-helper-ignores-option", File: "osmgeojson/convert.go", Nth: 0, ExpectRule: "G3", ExpectConstruct: "relassign@",
		Find: `func (ctx *context) addMetaProperties(props geojson.Properties, e osm.Element) {
	if !ctx.noRelationMembership {
		relations := ctx.relationMember[e.FeatureID()]
		if len(relations) != 0 {
			props["relations"] = relations
		} else {
			props["relations"] = []*relationSummary{}
		}
	}
`,
		Replace: `// relationsOf returns the relations the element is a member of, false if they are not wanted.
func (ctx *context) relationsOf(e osm.Element) ([]*relationSummary, bool) {
	if list := ctx.relationMember[e.FeatureID()]; len(list) != 0 {
		return list, true
	}

	return []*relationSummary{}, true
}

func (ctx *context) addMetaProperties(props geojson.Properties, e osm.Element) {
	if relations, ok := ctx.relationsOf(e); ok {
		props["relations"] = relations
	}
`},
	// the option is honoured only for elements without memberships
	{Name: "r-g3-value-ok-helper-checks-after-lookup", File: "osmgeojson/convert.go", Nth: 0, ExpectRule: "G3", ExpectConstruct: "",
		Find: `func (ctx *context) addMetaProperties(props geojson.Properties, e osm.Element) {
	if !ctx.noRelationMembership {
		relations := ctx.relationMember[e.FeatureID()]
		if len(relations) != 0 {
			props["relations"] = relations
		} else {
			props["relations"] = []*relationSummary{}
		}
	}
`,
		Replace: `// relationsOf returns the relations the element is a member of, false if they are not wanted.
func (ctx *context) relationsOf(e osm.Element) ([]*relationSummary, bool) {
	if list := ctx.relationMember[e.FeatureID()]; len(list) != 0 {
		return list, true
	}

	if ctx.noRelationMembership {
		return nil, false
	}

	return []*relationSummary{}, true
}

func (ctx *context) addMetaProperties(props geojson.Properties, e osm.Element) {
	if relations, ok := ctx.relationsOf(e); ok {
		props["relations"] = relations
	}
`},
	// a second use of the constant-result helper returns early: NoID also drops the properties
	{Name: "r-g3-constant-result-helper-returns-early", File: "osmgeojson/convert.go", Nth: 0, ExpectRule: "G3", ExpectConstruct: "nodeToFeature noID",
		Find: `func (ctx *context) nodeToFeature(n *osm.Node) *geojson.Feature {
	// our definition of empty, ill defined
	if n.Lon == 0 && n.Lat == 0 && n.Version == 0 {
		return nil
	}

	f := geojson.NewFeature(orb.Point{n.Lon, n.Lat})

	if !ctx.noID {
		f.ID = fmt.Sprintf("node/%d", n.ID)
	}
`,
		Replace: `// anonymous reports whether features are to be left without an id.
func (ctx *context) anonymous() bool {
	if ctx.noID {
		return true
	}

	return false
}

func (ctx *context) nodeToFeature(n *osm.Node) *geojson.Feature {
	// our definition of empty, ill defined
	if n.Lon == 0 && n.Lat == 0 && n.Version == 0 {
		return nil
	}

	f := geojson.NewFeature(orb.Point{n.Lon, n.Lat})

	if !ctx.anonymous() {
		f.ID = fmt.Sprintf("node/%d", n.ID)
	}
	if ctx.anonymous() {
		return f
	}
`},
	// interesting ways are made skippable
	{Name: "r-g6-anyinteresting-inverted", File: "osmgeojson/convert.go", Nth: 0, ExpectRule: "G6", ExpectConstruct: "buildRouteLineString",
		Find: `func (ctx *context) buildRouteLineString(relation *osm.Relation) *geojson.Feature {
	lines := make([]mputil.Segment, 0, 10)
	tainted := false
	for _, m := range relation.Members {
		if m.Type != osm.TypeWay {
			continue
		}

		way := ctx.wayMap[osm.WayID(m.Ref)]
		if way == nil {
			tainted = true
			continue
		}

		if !hasInterestingTags(way.Tags, nil) {
			ctx.skippable[way.ID] = struct{}{}
		}
`,
		Replace: `// markSkippable notes that the way does not need a feature of its own.
func (ctx *context) markSkippable(id osm.WayID) {
	ctx.skippable[id] = struct{}{}
}

func (ctx *context) buildRouteLineString(relation *osm.Relation) *geojson.Feature {
	lines := make([]mputil.Segment, 0, 10)
	tainted := false
	for _, m := range relation.Members {
		if m.Type != osm.TypeWay {
			continue
		}

		way := ctx.wayMap[osm.WayID(m.Ref)]
		if way == nil {
			tainted = true
			continue
		}

		if way.Tags.AnyInteresting() {
			ctx.markSkippable(way.ID)
		}
`},
	// the store helper is called without the interest test
	{Name: "r-g6-store-helper-unguarded-call", File: "osmgeojson/convert.go", Nth: 0, ExpectRule: "G6", ExpectConstruct: "buildRouteLineString",
		Find: `func (ctx *context) buildRouteLineString(relation *osm.Relation) *geojson.Feature {
	lines := make([]mputil.Segment, 0, 10)
	tainted := false
	for _, m := range relation.Members {
		if m.Type != osm.TypeWay {
			continue
		}

		way := ctx.wayMap[osm.WayID(m.Ref)]
		if way == nil {
			tainted = true
			continue
		}

		if !hasInterestingTags(way.Tags, nil) {
			ctx.skippable[way.ID] = struct{}{}
		}
`,
		Replace: `// markSkippable notes that the way does not need a feature of its own.
func (ctx *context) markSkippable(id osm.WayID) {
	ctx.skippable[id] = struct{}{}
}

func (ctx *context) buildRouteLineString(relation *osm.Relation) *geojson.Feature {
	lines := make([]mputil.Segment, 0, 10)
	tainted := false
	for _, m := range relation.Members {
		if m.Type != osm.TypeWay {
			continue
		}

		way := ctx.wayMap[osm.WayID(m.Ref)]
		if way == nil {
			tainted = true
			continue
		}

		ctx.markSkippable(way.ID)
`},
	// the interest test looks at the relation's tags, not the way's
	{Name: "r-g6-anyinteresting-of-relation", File: "osmgeojson/convert.go", Nth: 0, ExpectRule: "G6", ExpectConstruct: "buildRouteLineString",
		Find: `func (ctx *context) buildRouteLineString(relation *osm.Relation) *geojson.Feature {
	lines := make([]mputil.Segment, 0, 10)
	tainted := false
	for _, m := range relation.Members {
		if m.Type != osm.TypeWay {
			continue
		}

		way := ctx.wayMap[osm.WayID(m.Ref)]
		if way == nil {
			tainted = true
			continue
		}

		if !hasInterestingTags(way.Tags, nil) {
			ctx.skippable[way.ID] = struct{}{}
		}
`,
		Replace: `// markSkippable notes that the way does not need a feature of its own.
func (ctx *context) markSkippable(id osm.WayID) {
	ctx.skippable[id] = struct{}{}
}

func (ctx *context) buildRouteLineString(relation *osm.Relation) *geojson.Feature {
	lines := make([]mputil.Segment, 0, 10)
	tainted := false
	for _, m := range relation.Members {
		if m.Type != osm.TypeWay {
			continue
		}

		way := ctx.wayMap[osm.WayID(m.Ref)]
		if way == nil {
			tainted = true
			continue
		}

		if !relation.Tags.AnyInteresting() {
			ctx.markSkippable(way.ID)
		}
`},
	// with NoMeta set the helper returns an empty object instead of nil: an empty meta property is stored
	{Name: "r-g3-nil-result-helper-returns-empty", File: "osmgeojson/convert.go", Nth: 0, ExpectRule: "G3", ExpectConstruct: "",
		Find: `	if ctx.noMeta {
		return
	}

	meta := make(map[string]interface{}, 5)
	switch e := e.(type) {
	case *osm.Node:
		if !e.Timestamp.IsZero() {
			meta["timestamp"] = e.Timestamp
		}

		if e.Version != 0 {
			meta["version"] = e.Version
		}

		if e.ChangesetID != 0 {
			meta["changeset"] = e.ChangesetID
		}

		if e.User != "" {
			meta["user"] = e.User
		}

		if e.UserID != 0 {
			meta["uid"] = e.UserID
		}

	case *osm.Way:
		if !e.Timestamp.IsZero() {
			meta["timestamp"] = e.Timestamp
		}

		if e.Version != 0 {
			meta["version"] = e.Version
		}

		if e.ChangesetID != 0 {
			meta["changeset"] = e.ChangesetID
		}

		if e.User != "" {
			meta["user"] = e.User
		}

		if e.UserID != 0 {
			meta["uid"] = e.UserID
		}

	case *osm.Relation:
		if !e.Timestamp.IsZero() {
			meta["timestamp"] = e.Timestamp
		}

		if e.Version != 0 {
			meta["version"] = e.Version
		}

		if e.ChangesetID != 0 {
			meta["changeset"] = e.ChangesetID
		}

		if e.User != "" {
			meta["user"] = e.User
		}

		if e.UserID != 0 {
			meta["uid"] = e.UserID
		}

	default:
		panic("unsupported type")
	}

	props["meta"] = meta
}
`,
		Replace: `	if meta := ctx.metaOf(e); meta != nil {
		props["meta"] = meta
	}
}

// metaOf returns the meta object of the element, nil if it is not wanted.
func (ctx *context) metaOf(e osm.Element) map[string]interface{} {
	if ctx.noMeta {
		return map[string]interface{}{}
	}

	meta := make(map[string]interface{}, 5)
	switch e := e.(type) {
	case *osm.Node:
		if !e.Timestamp.IsZero() {
			meta["timestamp"] = e.Timestamp
		}

		if e.Version != 0 {
			meta["version"] = e.Version
		}

		if e.ChangesetID != 0 {
			meta["changeset"] = e.ChangesetID
		}

		if e.User != "" {
			meta["user"] = e.User
		}

		if e.UserID != 0 {
			meta["uid"] = e.UserID
		}

	case *osm.Way:
		if !e.Timestamp.IsZero() {
			meta["timestamp"] = e.Timestamp
		}

		if e.Version != 0 {
			meta["version"] = e.Version
		}

		if e.ChangesetID != 0 {
			meta["changeset"] = e.ChangesetID
		}

		if e.User != "" {
			meta["user"] = e.User
		}

		if e.UserID != 0 {
			meta["uid"] = e.UserID
		}

	case *osm.Relation:
		if !e.Timestamp.IsZero() {
			meta["timestamp"] = e.Timestamp
		}

		if e.Version != 0 {
			meta["version"] = e.Version
		}

		if e.ChangesetID != 0 {
			meta["changeset"] = e.ChangesetID
		}

		if e.User != "" {
			meta["user"] = e.User
		}

		if e.UserID != 0 {
			meta["uid"] = e.UserID
		}

	default:
		panic("unsupported type")
	}

	return meta
}
`},
}
