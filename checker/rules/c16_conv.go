package rules

// c16_conv.go — evaluation of osmgeojson.Convert on an abstract multipolygon relation and the check of the geometry
// it yields against the ground truth.

import (
	"fmt"
	"go/types"
	"strings"
)

// c16Rel is one abstract input of Convert: a relation over ways cut from ground-truth rings.
type c16Rel struct {
	g       *c16Ground
	ways    []c16Way
	mems    []c16Mem
	onNodes func(tok string) bool // is the coordinate of this point on the way node (else: on a node object)
	invalid bool                  // IncludeInvalidPolygons
}

// containHook finds, by role, the containment test of osmgeojson (two rings -> bool) and answers it from the
// ground truth: true exactly when one ring is a hole of the other.
func (e *c16Env) containHook(g *c16Ground, hooks map[string]c16Hook) {
	for _, fi := range allFuncs(e.gj) {
		sig := fi.Obj.Type().(*types.Signature)
		if sig.Recv() != nil || sig.Params().Len() != 2 || sig.Results().Len() != 1 {
			continue
		}
		if !types.Identical(sig.Params().At(0).Type(), e.ringT) || !types.Identical(sig.Params().At(1).Type(), e.ringT) || !types.Identical(sig.Results().At(0).Type(), types.Typ[types.Bool]) {
			continue
		}
		hooks[fi.Obj.FullName()] = func(m *c16M, _ c16Val, args []c16Val) (c16Val, bool) {
			var ring [2]int
			for i := range ring {
				chain, ok := c16Toks(args[i])
				if !ok {
					m.abort("containment asked of something that is not a list of symbolic points")
				}
				if _, ri, ok := g.dirOf(chain); ok {
					ring[i] = ri
				} else {
					m.abort("containment asked of %v, which is not a complete ring of the scenario", chain)
				}
			}
			in := func(h, o int) bool { w, ok := g.within[h]; return g.inner[h] && ok && w == o }
			return in(ring[1], ring[0]) || in(ring[0], ring[1]), true
		}
	}
}

// convert evaluates Convert on rel and checks, on every path (decisions on values the evaluator does not know, such
// as time stamps, are explored both ways), the polygons of the relation's feature against the ground truth.
func (e *c16Env) convert(rel c16Rel) (c16Val, c16Verdict) {
	conv := findFunc(e.gj, "Convert")
	sig := conv.Obj.Type().(*types.Signature)
	var log []c16Ask
	hooks := e.orientHooks(rel.g.truthOracle, &log)
	e.containHook(rel.g, hooks)
	run := func(m *c16M) c16Val {
		osmT := e.osmType("OSM")
		o := c16Zero(osmT).(*c16Struct)
		var ways, nodes []c16Val
		seen := map[string]bool{}
		for _, w := range rel.ways {
			wv := e.wayValue(m, w, true)
			wst := wv.(*c16Ptr).load().(*c16Struct)
			for i, n := range wst.f["Nodes"].(c16Slice).elems() {
				tk := w.toks[i]
				if !rel.onNodes(tk) {
					ns := n.(*c16Struct)
					ns.f["Lon"], ns.f["Lat"], ns.f["Version"] = c16Flt{}, c16Flt{}, int64(0)
					if !seen[tk] {
						seen[tk] = true
						nodes = append(nodes, e.nodeValue(m, tk))
					}
				}
			}
			ways = append(ways, wv)
		}
		relT := e.osmType("Relation")
		r := c16Zero(relT).(*c16Struct)
		r.f["ID"], r.f["Visible"] = int64(77), true
		tag := c16Zero(e.osmType("Tag")).(*c16Struct)
		tag.f["Key"], tag.f["Value"] = "type", "multipolygon"
		r.f["Tags"] = c16NewSlice(e.osmType("Tags"), []c16Val{tag})
		r.f["Members"] = e.membersValue(rel.mems)
		o.f["Nodes"] = c16NewSlice(e.osmType("Nodes"), nodes)
		o.f["Ways"] = c16NewSlice(e.osmType("Ways"), ways)
		o.f["Relations"] = c16NewSlice(e.osmType("Relations"), []c16Val{m.newPtr(relT, &c16Cell{v: r})})
		var opts []c16Val
		for _, name := range []string{"NoID", "NoMeta", "NoRelationMembership", "IncludeInvalidPolygons"} {
			on := name != "IncludeInvalidPolygons" || rel.invalid
			ctor := findFunc(e.gj, name)
			if ctor == nil {
				m.abort("option constructor osmgeojson.%s not found", name)
			}
			opts = append(opts, m.callFunc(ctor, nil, on))
		}
		optsT := sig.Params().At(sig.Params().Len() - 1).Type()
		return m.callFunc(conv, nil, m.newPtr(osmT, &c16Cell{v: o}), c16NewSlice(optsT, opts))
	}
	outs, complete := c16Explore(e.r.P, hooks, run)
	if !complete || len(outs) > 64 {
		return nil, c16Verdict{undecided: fmt.Sprintf("more than %d paths through Convert (%s)", len(outs)-1, c16ChoicesText(outs[len(outs)-1].choices))}
	}
	for _, out := range outs {
		val, v := c16Settle(out)
		if !v.ok() {
			return nil, v
		}
		polys, v := c16ReadPolys(val)
		if v.ok() {
			v.bad = c16CheckPolys(rel.g, polys, rel.invalid)
		}
		if !v.ok() {
			if len(out.choices) > 0 && v.bad != "" {
				v.bad += " (path: " + c16ChoicesText(out.choices) + ")"
			}
			return nil, v
		}
	}
	return nil, c16Verdict{}
}

// c16ReadPolys digs the polygon geometry out of the feature collection Convert returned.
func c16ReadPolys(val c16Val) ([][][]string, c16Verdict) {
	und := func(why string) ([][][]string, c16Verdict) {
		return nil, c16Verdict{undecided: why + ": " + c16Show(val)}
	}
	res, ok := val.(c16Tuple)
	if !ok || len(res) != 2 {
		return und("Convert did not yield (collection, error)")
	}
	if _, isNil := res[1].(c16Nil); !isNil {
		return nil, c16Verdict{bad: "Convert returns an error: " + c16Show(res[1])}
	}
	fcp, ok := res[0].(*c16Ptr)
	if !ok {
		return und("the collection is not concrete")
	}
	fc, _ := fcp.load().(*c16Struct)
	feats, ok := fc.f["Features"].(c16Slice)
	if fc == nil || !ok {
		return und("the collection has no concrete feature list")
	}
	var polys [][][]string
	found := 0
	for _, fv := range feats.elems() {
		fp, ok := fv.(*c16Ptr)
		if !ok {
			return und("a feature is not concrete")
		}
		geom := fp.load().(*c16Struct).f["Geometry"]
		gs, ok := geom.(c16Slice)
		if !ok {
			if c16IsOpq(geom) {
				return und("a feature geometry is opaque")
			}
			continue // a point
		}
		var list []c16Val
		switch namedPath(gs.typ) {
		case c16OrbPath + ".Polygon":
			list = []c16Val{gs}
		case c16OrbPath + ".MultiPolygon":
			list = gs.elems()
		default:
			continue // line strings of ways are not this property's business
		}
		found++
		for _, pv := range list {
			ps, ok := pv.(c16Slice)
			if !ok {
				return und("a polygon is not concrete")
			}
			var poly [][]string
			for _, rv := range ps.elems() {
				if _, isNil := rv.(c16Nil); isNil {
					rv = c16Slice{}
				}
				chain, ok := c16Toks(rv)
				if !ok {
					return nil, c16Verdict{bad: "a ring holds a point that is not (lon, lat) of one node: " + c16Show(rv)}
				}
				poly = append(poly, chain)
			}
			polys = append(polys, poly)
		}
	}
	if found > 1 {
		return nil, c16Verdict{bad: fmt.Sprintf("%d polygon features for one relation, want one", found)}
	}
	return polys, c16Verdict{}
}

// c16CheckPolys: the polygons are exactly the ground-truth rings: every outer ring once, counter-clockwise, first
// in its polygon, followed by exactly its own holes, clockwise; nothing lost, duplicated or invented. Holes without
// an outer ring (orphans) are absent, or with invalid=true present exactly once in a polygon without outer ring.
func c16CheckPolys(g *c16Ground, polys [][][]string, invalid bool) string {
	count := map[int]int{}
	for pi, poly := range polys {
		if len(poly) == 0 {
			return fmt.Sprintf("polygon %d has no ring", pi)
		}
		outer := -1
		for k, chain := range poly {
			if k == 0 && len(chain) == 0 && invalid {
				continue // placeholder for a missing outer ring
			}
			dir, ri, ok := g.dirOf(chain)
			if !ok {
				return fmt.Sprintf("polygon %d ring %d is %v: not one of the original rings, closed, with every coordinate once", pi, k, chain)
			}
			count[ri]++
			switch {
			case k == 0 && g.inner[ri]:
				return fmt.Sprintf("polygon %d starts with the inner ring %v", pi, chain)
			case k == 0:
				outer = ri
				if dir != c16CCW {
					return fmt.Sprintf("outer ring %v is clockwise, want counter-clockwise", chain)
				}
			case !g.inner[ri]:
				return fmt.Sprintf("outer ring %v is listed as a hole of polygon %d", chain, pi)
			default:
				if w, has := g.within[ri]; (has && w != outer) || (!has && outer != -1) {
					return fmt.Sprintf("hole %v is in polygon %d whose outer ring is not the one around it", chain, pi)
				}
				if dir != c16CW {
					return fmt.Sprintf("inner ring %v is counter-clockwise, want clockwise", chain)
				}
			}
		}
	}
	for ri, r := range g.rings {
		_, hasOuter := g.within[ri]
		want := 1
		if g.inner[ri] && !hasOuter && !invalid {
			want = 0
		}
		if count[ri] != want {
			return fmt.Sprintf("ring %v appears %d time(s) in the geometry %s, want %d", r, count[ri], c16PolysText(polys), want)
		}
	}
	return ""
}

func c16PolysText(polys [][][]string) string {
	var ps []string
	for _, p := range polys {
		var rs []string
		for _, r := range p {
			rs = append(rs, strings.Join(r, ""))
		}
		ps = append(ps, "("+strings.Join(rs, " ")+")")
	}
	return strings.Join(ps, " ")
}
