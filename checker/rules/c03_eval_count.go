package rules

import (
	"go/token"
	"strings"
)

// Counts under the one-iteration abstraction, and presized lists filled by index.
//
// The interpreter runs the body of a loop over a symbolic list once, so a list built by `append` in such loops holds
// one element per loop. The allocation-free spelling of the same code - a counting expression (`len(a)+len(b)`, `n++`
// under a condition), `make(T, n)`, then `r[i] = v; i++` - is modelled in the same abstraction: len of a symbolic list
// counts 1, sums and increments of counts are counts, and a store at the index that equals the number of elements
// stored so far appends to the abstract list. The made length stays attached (Base = the "made" marker with the count
// in From[0]), so a consumer can compare the number of slots with the number of stores: a counting pass that disagrees
// with the filling pass shows as a different count.

// c03CountOf: the count a value stands for (a known integer, or an unknown one with an abstract count).
func c03CountOf(v *c03V) (int64, bool) {
	switch {
	case v == nil:
		return 0, false
	case v.K == c03KInt:
		return v.Int, true
	case v.K == c03KUnk && v.HasCnt:
		return v.Cnt, true
	}
	return 0, false
}

// c03CountOp: a + b / a - b on counts of which at least one is abstract.
func c03CountOp(op token.Token, a, b *c03V) (int64, bool) {
	x, ok1 := c03CountOf(a)
	y, ok2 := c03CountOf(b)
	if !ok1 || !ok2 {
		return 0, false
	}
	switch op {
	case token.ADD, token.ADD_ASSIGN, token.INC:
		return x + y, true
	case token.SUB, token.SUB_ASSIGN, token.DEC:
		return x - y, true
	}
	return 0, false
}

// c03IsMade: v is the marker for the zero elements of a make(T, n) list; n is its length value.
func c03IsMade(v *c03V) (n *c03V, ok bool) {
	if v == nil || v.K != c03KUnk || !strings.HasPrefix(v.Key, "made") || len(v.From) != 1 {
		return nil, false
	}
	return v.From[0], true
}

// c03MadeFill: list[idx] = val on a made list that has been filled up to idx exactly: the abstract list grows.
func c03MadeFill(list, idx, val *c03V) *c03V {
	if list == nil || list.K != c03KList || idx == nil || idx.K != c03KInt || idx.Int != int64(len(list.Elems)) || c03HasSpread(list) || len(list.Keys) > 0 {
		return nil
	}
	if _, made := c03IsMade(list.Base); !made {
		return nil
	}
	nl := *list
	nl.Elems = append(append([]*c03V{}, list.Elems...), val)
	return &nl
}

// c03MadeSliceFrom: list[lo:] of a made list whose first len(Elems) slots are filled.
func c03MadeSliceFrom(list *c03V, lo int64) *c03V {
	n, made := c03IsMade(list.Base)
	if !made || lo < 0 || lo > int64(len(list.Elems)) || c03HasSpread(list) || len(list.Keys) > 0 {
		return nil
	}
	nl := *list
	nl.Elems = append([]*c03V{}, list.Elems[lo:]...)
	nb := *list.Base
	if c, ok := c03CountOf(n); ok {
		nb.From = []*c03V{{K: c03KUnk, T: n.T, Key: n.Key, Z: triU, HasCnt: true, Cnt: c - lo, From: []*c03V{n}}}
	}
	nl.Base = &nb
	return &nl
}

// c03MadeExact reports, for a list with a made marker, whether the number of slots equals the number of stores.
func c03MadeExact(list *c03V) (made, known, exact bool, slots int64) {
	n, ok := c03IsMade(list.Base)
	if !ok {
		return false, false, false, 0
	}
	c, ok := c03CountOf(n)
	if !ok {
		return true, false, false, 0
	}
	return true, true, c == int64(len(list.Elems)) && !c03HasSpread(list), c
}

// c03MadeFull: a presized list all of whose slots have been assigned is the list of what was assigned.
func c03MadeFull(v *c03V) *c03V {
	if v == nil || v.K != c03KList || v.Base == nil {
		return v
	}
	if made, known, exact, _ := c03MadeExact(v); made && known && exact {
		nl := *v
		nl.Base = nil
		return &nl
	}
	return v
}
