package rules

import "osmcheck/core"

// Round-7 shape: Tags.MarshalJSON writing its JSON object by hand. c05Benign4 encodes every key and value through
// the codec helper (silent); c05Mutants4 writes them raw.

const c05TagsMarshal = "func (ts Tags) MarshalJSON() ([]byte, error) {\n\treturn marshalJSON(ts.Map())\n}\n"

func c05TagsByHand(encode string) string {
	return "func (ts Tags) MarshalJSON() ([]byte, error) {\n\tm := ts.Map()\n\tkeys := make([]string, 0, len(m))\n\tfor k := range m {\n\t\tkeys = append(keys, k)\n\t}\n\tsort.Strings(keys)\n\n\tbuf := []byte{'{'}\n\tfor i, k := range keys {\n\t\tif i != 0 {\n\t\t\tbuf = append(buf, ',')\n\t\t}\n" + encode + "\t}\n\n\treturn append(buf, '}'), nil\n}\n"
}

const c05EncodeByCodec = "\t\tkb, err := marshalJSON(k)\n\t\tif err != nil {\n\t\t\treturn nil, err\n\t\t}\n\t\tvb, err := marshalJSON(m[k])\n\t\tif err != nil {\n\t\t\treturn nil, err\n\t\t}\n\t\tbuf = append(buf, kb...)\n\t\tbuf = append(buf, ':')\n\t\tbuf = append(buf, vb...)\n"

const c05EncodeRaw = "\t\tbuf = append(buf, '\"')\n\t\tbuf = append(buf, k...)\n\t\tbuf = append(buf, '\"', ':', '\"')\n\t\tbuf = append(buf, m[k]...)\n\t\tbuf = append(buf, '\"')\n"

const c05EncodeValueRaw = "\t\tkb, err := marshalJSON(k)\n\t\tif err != nil {\n\t\t\treturn nil, err\n\t\t}\n\t\tbuf = append(buf, kb...)\n\t\tbuf = append(buf, ':', '\"')\n\t\tbuf = append(buf, m[k]...)\n\t\tbuf = append(buf, '\"')\n"

var c05Benign4 = []core.Mutant{
	{Name: "tags-object-written-by-hand-through-codec", File: "tag.go", Find: c05TagsMarshal, Replace: c05TagsByHand(c05EncodeByCodec)},
}

var c05Mutants4 = []core.Mutant{
	{Name: "tags-object-written-by-hand-unescaped", File: "tag.go", Find: c05TagsMarshal, Replace: c05TagsByHand(c05EncodeRaw), ExpectRule: "J5", ExpectConstruct: "strings@Tags.MarshalJSON"},
	{Name: "tags-object-values-written-unescaped", File: "tag.go", Find: c05TagsMarshal, Replace: c05TagsByHand(c05EncodeValueRaw), ExpectRule: "J5", ExpectConstruct: "strings@Tags.MarshalJSON"},
}
