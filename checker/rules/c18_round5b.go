package rules

import "osmcheck/core"

// Round 5, one step further: lookup tables instead of switches, and a table that is assigned first and sorted
// afterwards through the local it shares its entries with.

const c18SrcChainToEnd = c18SrcChain + "\t}\n\n\treturn false\n}\n"

// the condition kind selects a matcher from a map (declared functions and function literals as values).
const c18ShapeMatcherMap = `		if match, ok := conditionMatchers[c.Condition]; ok && match(c.Values, v) {
			return true
		}
	}

	return false
}

var conditionMatchers = map[conditionType]func(list []string, s string) bool{
	conditionAll:       func([]string, string) bool { return true },
	conditionWhitelist: listedIn,
	conditionBlacklist: func(list []string, s string) bool { return !listedIn(list, s) },
}

func listedIn(list []string, s string) bool {
	i := sort.SearchStrings(list, s)
	return i < len(list) && list[i] == s
}
`

// Relation.Polygon as a set lookup.
const c18ShapeRelationSet = `	return areaRelationTypes[r.Tags.Find("type")]
}

var areaRelationTypes = map[string]bool{
	"multipolygon": true,
	"boundary":     true,
}
`

// init assigns the decoded local to the table first and sorts through the local afterwards (shared entries).
const c18ShapeAssignThenSort = `func init() {
	var decoded []polyCondition
	if err := json.Unmarshal(polygonJSON, &decoded); err != nil {
		// This must be valid json
		panic(err)
	}

	polyConditions = decoded
	for i := range decoded {
		sort.Strings(decoded[i].Values)
	}
}
`

func c18Round5bBenign() []core.Mutant {
	f := "polygon.go"
	return []core.Mutant{
		{Name: "kind-dispatch-through-matcher-map", File: f, Find: c18SrcChainToEnd, Replace: c18ShapeMatcherMap},
		{Name: "relation-type-set-lookup", File: f, Find: c18SrcRel + "}\n", Replace: c18ShapeRelationSet},
		{Name: "init-assigns-then-sorts-shared-local", File: f, Find: c18SrcInit, Replace: c18ShapeAssignThenSort},
	}
}

func c18Round5bMutants() []core.Mutant {
	return []core.Mutant{
		c18Seed("matcher-map-blacklist-not-negated", c18SrcChainToEnd, c18ShapeMatcherMap, "return !listedIn(list, s)", "return listedIn(list, s)", "L3", "branch blacklist"),
		c18Seed("matcher-map-whitelist-entry-missing", c18SrcChainToEnd, c18ShapeMatcherMap, "\tconditionWhitelist: listedIn,\n", "", "L3", "branch whitelist"),
		c18Seed("matcher-map-keys-swapped", c18SrcChainToEnd, c18ShapeMatcherMap, "\tconditionWhitelist: listedIn,\n", "\tconditionBlacklist: listedIn,\n", "", ""),
		c18Seed("matcher-map-written-elsewhere", c18SrcChainToEnd, c18ShapeMatcherMap, "func listedIn(list []string, s string) bool {", "// RegisterMatcher lets callers override a kind.\nfunc RegisterMatcher(kind string, m func(list []string, s string) bool) {\n\tconditionMatchers[conditionType(kind)] = m\n}\n\nfunc listedIn(list []string, s string) bool {", "L3", "branch"),
		c18Seed("relation-set-extra-route", c18SrcRel+"}\n", c18ShapeRelationSet, "\t\"boundary\":     true,\n", "\t\"boundary\":     true,\n\t\"route\":        true,\n", "L4", "others"),
		c18Seed("relation-set-extra-site", c18SrcRel+"}\n", c18ShapeRelationSet, "\t\"boundary\":     true,\n", "\t\"boundary\":     true,\n\t\"site\":         true,\n", "L4", "others"),
		c18Seed("relation-set-boundary-false", c18SrcRel+"}\n", c18ShapeRelationSet, "\"boundary\":     true,", "\"boundary\":     false,", "L4", "type=boundary"),
		c18Seed("assign-then-sort-deep-copy-between", c18SrcInit, c18ShapeAssignThenSort, "\tpolyConditions = decoded\n", "\tpolyConditions = decoded\n\tdecoded = append([]polyCondition(nil), decoded...)\n\tfor i := range decoded {\n\t\tdecoded[i].Values = append([]string(nil), decoded[i].Values...)\n\t}\n", "L2", "sorted@"),
	}
}
