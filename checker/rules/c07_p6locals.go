package rules

import (
	"go/ast"
	"go/token"
	"go/types"
)

// c07TrackLocals: Err evaluated for ONE abstract input follows a single path (every branch is decided by the input),
// so the nodes arrive in execution order and a local of type error can be given the value it holds at each point:
// `err := s.err; switch { case err == io.EOF: err = nil; ... }; return err`. An assignment records what its right
// side stands for at that moment ("" when that is nothing the table knows: the local is then opaque again). A value
// that names a field is only kept when the function never assigns that field.
func (sc *c07Scanner) c07TrackLocals(ev *pbfEvent) {
	info := sc.pk.TypesInfo
	body := ast.Node(ev.fi.Decl.Body)
	set := func(lhs ast.Expr, rhs ast.Expr) {
		id, ok := ast.Unparen(lhs).(*ast.Ident)
		if !ok {
			return
		}
		o, ok := objOf(info, id).(*types.Var)
		if !ok || o.IsField() || !types.Identical(o.Type(), types.Universe.Lookup("error").Type()) {
			return
		}
		v := ""
		if rhs != nil {
			v = sc.term(body, rhs, 0)
			if (v == "err" && c07AssignsField(info, body, sc.errField)) || v == "closed" {
				v = ""
			}
		} else {
			v = "nil" // `var err error`
		}
		sc.localVal[o] = v
	}
	switch x := ev.n.(type) {
	case *ast.AssignStmt:
		if x.Tok != token.ASSIGN && x.Tok != token.DEFINE {
			return
		}
		if len(x.Lhs) == len(x.Rhs) {
			// (right sides are evaluated before any left side is written)
			vals := make([]ast.Expr, len(x.Rhs))
			copy(vals, x.Rhs)
			for i, l := range x.Lhs {
				set(l, vals[i])
			}
			return
		}
		for _, l := range x.Lhs {
			if id, ok := ast.Unparen(l).(*ast.Ident); ok {
				if o, ok := objOf(info, id).(*types.Var); ok && !o.IsField() {
					if _, tracked := sc.localVal[o]; tracked {
						sc.localVal[o] = ""
					}
				}
			}
		}
	case *ast.ValueSpec:
		for i, nm := range x.Names {
			switch {
			case len(x.Values) == len(x.Names):
				set(nm, x.Values[i])
			case len(x.Values) == 0:
				set(nm, nil)
			}
		}
	case *ast.DeclStmt:
		if gd, ok := x.Decl.(*ast.GenDecl); ok {
			for _, sp := range gd.Specs {
				if vs, ok := sp.(*ast.ValueSpec); ok {
					for i, nm := range vs.Names {
						switch {
						case len(vs.Values) == len(vs.Names):
							set(nm, vs.Values[i])
						case len(vs.Values) == 0:
							set(nm, nil)
						}
					}
				}
			}
		}
	}
}
