package rules

import "osmcheck/core"

// c20Mutants1: part 1 of the sensitivity suite of C20 (see c20.go).
func c20Mutants1() []core.Mutant {
	return []core.Mutant{
		{Name: "nodeversion-swap-id-version", File: "osmapi/node.go", Find: "fmt.Sprintf(\"%s/node/%d/%d\", ds.baseURL(), id, v)", Replace: "fmt.Sprintf(\"%s/node/%d/%d\", ds.baseURL(), v, id)", ExpectRule: "H4", ExpectConstruct: "(*Datasource).NodeVersion"},
		{Name: "wayrelations-wrong-segment", File: "osmapi/way.go", Find: "%s/way/%d/relations?%s", Replace: "%s/way/%d/ways?%s", ExpectRule: "H4", ExpectConstruct: "(*Datasource).WayRelations"},
		{Name: "relation-kind-segment", File: "osmapi/relation.go", Find: "\"%s/relation/%d?%s\"", Replace: "\"%s/relations/%d?%s\"", ExpectRule: "H4", ExpectConstruct: "(*Datasource).Relation"},
		{Name: "ways-multifetch-separator", File: "osmapi/way.go", Find: "url += \"&\" + params", Replace: "url += \"?\" + params", ExpectRule: "H4", ExpectConstruct: "(*Datasource).Ways"},
		{Name: "nodes-csv-semicolon", File: "osmapi/node.go", Find: "byte(',')", Replace: "byte(';')", ExpectRule: "H4", ExpectConstruct: "(*Datasource).Nodes"},
		{Name: "map-bbox-order", File: "osmapi/map.go", Find: "bounds.MinLon, bounds.MinLat,", Replace: "bounds.MinLat, bounds.MinLon,", ExpectRule: "H4", ExpectConstruct: "(*Datasource).Map"},
		{Name: "notessearch-unescaped", File: "osmapi/note.go", Find: "url.QueryEscape(query)", Replace: "url.PathEscape(query)", ExpectRule: "H4", ExpectConstruct: "(*Datasource).NotesSearch"},
		{Name: "baseurl-ignores-configured", File: "osmapi/datasource.go", Find: "if ds.BaseURL != \"\" {", Replace: "if ds.BaseURL == \"\" {", ExpectRule: "H4", ExpectConstruct: "baseURL"},
		{Name: "gone-mapped-to-notfound", File: "osmapi/datasource.go", Find: "return &GoneError{URL: url}", Replace: "return &NotFoundError{URL: url}", ExpectRule: "H3", ExpectConstruct: "status 410"},
		{Name: "non200-check-first", File: "osmapi/datasource.go", Find: "if resp.StatusCode == http.StatusNotFound {", Replace: "if resp.StatusCode != http.StatusOK {\n\t\treturn &UnexpectedStatusCodeError{Code: resp.StatusCode, URL: url}\n\t}\n\n\tif resp.StatusCode == http.StatusNotFound {", ExpectRule: "H3", ExpectConstruct: "status 404"},
		{Name: "decode-on-3xx", File: "osmapi/datasource.go", Find: "if resp.StatusCode != http.StatusOK {", Replace: "if resp.StatusCode >= 400 {", ExpectRule: "H3", ExpectConstruct: "status other"},
		{Name: "notfound-asserts-gone", File: "osmapi/datasource.go", Find: "_, ok := err.(*NotFoundError)", Replace: "_, ok := err.(*GoneError)", ExpectRule: "H3", ExpectConstruct: "NotFound"},
		{Name: "request-post", File: "osmapi/datasource.go", Find: "http.NewRequest(\"GET\", url, nil)", Replace: "http.NewRequest(\"POST\", url, nil)", ExpectRule: "H3", ExpectConstruct: "request"},
		{Name: "user-error-swallowed", File: "osmapi/user.go", Find: "if err := ds.getFromAPI(ctx, url, &o); err != nil {\n\t\treturn nil, err\n\t}", Replace: "ds.getFromAPI(ctx, url, &o)", ExpectRule: "H3", ExpectConstruct: "propagate@(*Datasource).User"},
		{Name: "limiter-wait-dropped", File: "osmapi/datasource.go", Find: "\t\terr := ds.Limiter.Wait(ctx)\n\t\tif err != nil {\n\t\t\treturn err\n\t\t}\n", Replace: "", ExpectRule: "H2", ExpectConstruct: "wait-before-do"},
		{Name: "limiter-error-ignored", File: "osmapi/datasource.go", Find: "\t\terr := ds.Limiter.Wait(ctx)\n\t\tif err != nil {\n\t\t\treturn err\n\t\t}\n", Replace: "\t\tds.Limiter.Wait(ctx)\n", ExpectRule: "H2", ExpectConstruct: "wait-error"},
		{Name: "limiter-wait-after-do", File: "osmapi/datasource.go", Find: "\tif ds.Limiter != nil {\n\t\terr := ds.Limiter.Wait(ctx)\n\t\tif err != nil {\n\t\t\treturn err\n\t\t}\n\t}\n\n\treq, err := http.NewRequest(\"GET\", url, nil)\n\tif err != nil {\n\t\treturn err\n\t}\n\n\tresp, err := client.Do(req.WithContext(ctx))\n\tif err != nil {\n\t\treturn err\n\t}\n", Replace: "\treq, err := http.NewRequest(\"GET\", url, nil)\n\tif err != nil {\n\t\treturn err\n\t}\n\n\tresp, err := client.Do(req.WithContext(ctx))\n\tif err != nil {\n\t\treturn err\n\t}\n\tif ds.Limiter != nil {\n\t\terr := ds.Limiter.Wait(ctx)\n\t\tif err != nil {\n\t\t\treturn err\n\t\t}\n\t}\n", ExpectRule: "H2", ExpectConstruct: "wait-before-do"},
		{Name: "node-len-check-eq-zero", File: "osmapi/node.go", Find: "if l := len(o.Nodes); l != 1 {", Replace: "if l := len(o.Nodes); l == 0 {", ExpectRule: "H5", ExpectConstruct: "single@(*Datasource).Node"},
		{Name: "user-len-check-other-field", File: "osmapi/user.go", Find: "if l := len(o.Users); l != 1 {", Replace: "if l := len(o.Notes); l != 1 {", ExpectRule: "H5", ExpectConstruct: "single@(*Datasource).User"},
		{Name: "note-len-check-dropped", File: "osmapi/note.go", Find: "\tif l := len(o.Notes); l != 1 {\n\t\treturn nil, fmt.Errorf(\"wrong number of notes, expected 1, got %v\", l)\n\t}\n", Replace: "", ExpectRule: "H5", ExpectConstruct: "single@(*Datasource).Note"},
		{Name: "wayfull-returns-other-document", File: "osmapi/way.go", Find: "\treturn o, nil\n", Replace: "\treturn &osm.OSM{Ways: o.Ways}, nil\n", ExpectRule: "H5", ExpectConstruct: "result@(*Datasource).WayFull"},
		{Name: "wrapper-other-method", File: "osmapi/way.go", Find: "return DefaultDatasource.WayRelations(ctx, id, opts...)", Replace: "return DefaultDatasource.NodeRelations(ctx, osm.NodeID(id), opts...)", ExpectRule: "H1", ExpectConstruct: "wrapper@WayRelations"},
		{Name: "wrapper-drops-options", File: "osmapi/map.go", Find: "return DefaultDatasource.Map(ctx, bounds, opts...)", Replace: "return DefaultDatasource.Map(ctx, bounds)", ExpectRule: "H1", ExpectConstruct: "wrapper@Map"},
		{Name: "history-request-retried", File: "osmapi/node.go", Find: "\turl := fmt.Sprintf(\"%s/node/%d/history\", ds.baseURL(), id)\n\n\to := &osm.OSM{}\n\tif err := ds.getFromAPI(ctx, url, &o); err != nil {\n\t\treturn nil, err\n\t}\n", Replace: "\turl := fmt.Sprintf(\"%s/node/%d/history\", ds.baseURL(), id)\n\n\to := &osm.OSM{}\n\tfor i := 0; i < 2; i++ {\n\t\tif err := ds.getFromAPI(ctx, url, &o); err != nil {\n\t\t\treturn nil, err\n\t\t}\n\t}\n", ExpectRule: "H1", ExpectConstruct: "once@(*Datasource).NodeHistory"},
		{Name: "changeset-double-request", File: "osmapi/changeset.go", Find: "\turl := fmt.Sprintf(\"%s/changeset/%d\", ds.baseURL(), id)\n\treturn ds.getChangeset(ctx, url)", Replace: "\turl := fmt.Sprintf(\"%s/changeset/%d\", ds.baseURL(), id)\n\tif _, err := ds.getChangeset(ctx, url); err != nil {\n\t\treturn nil, err\n\t}\n\treturn ds.getChangeset(ctx, url)", ExpectRule: "H1", ExpectConstruct: "once@(*Datasource).Changeset"},
		{Name: "http-outside-getfromapi", File: "osmapi/user.go", Find: "\to := &osm.OSM{}\n", Replace: "\to := &osm.OSM{}\n\tif resp, err := DefaultDatasource.Client.Get(url); err == nil {\n\t\tresp.Body.Close()\n\t}\n", ExpectRule: "H1", ExpectConstruct: "http-call@"},
		{Name: "at-local-time", File: "osmapi/options.go", Find: "o.t.UTC().Format(", Replace: "o.t.Format(", ExpectRule: "H6", ExpectConstruct: "apply@At"},
		{Name: "at-layout", File: "osmapi/options.go", Find: "Format(\"2006-01-02T15:04:05Z\")", Replace: "Format(\"2006-01-02 15:04:05Z\")", ExpectRule: "H6", ExpectConstruct: "apply@At"},
		{Name: "limit-upper-bound", File: "osmapi/options.go", Find: "10000 < o.n", Replace: "100000 < o.n", ExpectRule: "H6", ExpectConstruct: "range@Limit"},
		{Name: "limit-ctor-wrong-option", File: "osmapi/options.go", Find: "return &limit{num}", Replace: "return &maxDaysClosed{num}", ExpectRule: "H6", ExpectConstruct: "Limit"},
		{Name: "closed-key", File: "osmapi/options.go", Find: "\"closed=%d\"", Replace: "\"close=%d\"", ExpectRule: "H6", ExpectConstruct: "apply@MaxDaysClosed"},
		{Name: "do-error-ignored", File: "osmapi/datasource.go", Find: "\tresp, err := client.Do(req.WithContext(ctx))\n\tif err != nil {\n\t\treturn err\n\t}\n", Replace: "\tresp, _ := client.Do(req.WithContext(ctx))\n", ExpectRule: "H1", ExpectConstruct: "do-once@"},
		{Name: "option-error-ignored", File: "osmapi/options.go", Find: "\t\tparams, err = o.applyFeature(params)\n\t\tif err != nil {\n\t\t\treturn \"\", err\n\t\t}\n", Replace: "\t\tparams, _ = o.applyFeature(params)\n\t\t_ = err\n", ExpectRule: "H6", ExpectConstruct: "join@featureOptions"},
		{Name: "way-single-guard-allows-many", File: "osmapi/way.go", Find: "if l := len(o.Ways); l != 1 {", Replace: "if l := len(o.Ways); l < 1 {", ExpectRule: "H5", ExpectConstruct: "single@(*Datasource).Way"},
		{Name: "relations-csv-separator-unguarded", File: "osmapi/relation.go", Find: "\t\tif i != 0 {\n\t\t\tdata = append(data, byte(','))\n\t\t}\n", Replace: "\t\t_ = i\n\t\tdata = append(data, byte(','))\n", ExpectRule: "H4", ExpectConstruct: "path@(*Datasource).Relations"},
		{Name: "changeset-helper-swallows-request-error", File: "osmapi/changeset.go", Find: "\tif err := ds.getFromAPI(ctx, url, &css); err != nil {\n\t\treturn nil, err\n\t}\n", Replace: "\tif err := ds.getFromAPI(ctx, url, &css); err != nil {\n\t\treturn nil, fmt.Errorf(\"changeset: %v\", err)\n\t}\n", ExpectRule: "H3", ExpectConstruct: "propagate@(*Datasource).ChangesetWithDiscussion"},
		{Name: "closure-helper-always-first-id", File: "osmapi/relation.go",
			Find: `	data := make([]byte, 0, 11*len(ids))
	for i, id := range ids {
		if i != 0 {
			data = append(data, byte(','))
		}
		data = strconv.AppendInt(data, int64(id), 10)
	}
	url := ds.baseURL() + "/relations?relations=" + string(data)
	if len(params) > 0 {
		url += "&" + params
	}

	o := &osm.OSM{}
	if err := ds.getFromAPI(ctx, url, &o); err != nil {
		return nil, err
	}

	return o.Relations, nil
}
`,
			Replace: `	idList := joinInt64(len(ids), func(i int) int64 { return int64(ids[0]) })
	url := ds.baseURL() + "/relations?relations=" + idList
	if len(params) > 0 {
		url += "&" + params
	}

	o := &osm.OSM{}
	if err := ds.getFromAPI(ctx, url, &o); err != nil {
		return nil, err
	}

	return o.Relations, nil
}

// joinInt64 formats the n numbers at(0..n-1) in base 10, comma separated.
func joinInt64(n int, at func(i int) int64) string {
	out := make([]byte, 0, 11*n)
	for i := 0; i < n; i++ {
		if i > 0 {
			out = append(out, ',')
		}
		out = strconv.AppendInt(out, at(i), 10)
	}
	return string(out)
}
`, ExpectRule: "H4", ExpectConstruct: "path@(*Datasource).Relations"},
		{Name: "closure-helper-separator-guard-off-by-one", File: "osmapi/relation.go",
			Find: `	data := make([]byte, 0, 11*len(ids))
	for i, id := range ids {
		if i != 0 {
			data = append(data, byte(','))
		}
		data = strconv.AppendInt(data, int64(id), 10)
	}
	url := ds.baseURL() + "/relations?relations=" + string(data)
	if len(params) > 0 {
		url += "&" + params
	}

	o := &osm.OSM{}
	if err := ds.getFromAPI(ctx, url, &o); err != nil {
		return nil, err
	}

	return o.Relations, nil
}
`,
			Replace: `	idList := joinInt64(len(ids), func(i int) int64 { return int64(ids[i]) })
	url := ds.baseURL() + "/relations?relations=" + idList
	if len(params) > 0 {
		url += "&" + params
	}

	o := &osm.OSM{}
	if err := ds.getFromAPI(ctx, url, &o); err != nil {
		return nil, err
	}

	return o.Relations, nil
}

// joinInt64 formats the n numbers at(0..n-1) in base 10, comma separated.
func joinInt64(n int, at func(i int) int64) string {
	out := make([]byte, 0, 11*n)
	for i := 0; i < n; i++ {
		if i > 1 {
			out = append(out, ',')
		}
		out = strconv.AppendInt(out, at(i), 10)
	}
	return string(out)
}
`, ExpectRule: "H4", ExpectConstruct: "path@(*Datasource).Relations"},
		{Name: "closure-helper-semicolon", File: "osmapi/relation.go",
			Find: `	data := make([]byte, 0, 11*len(ids))
	for i, id := range ids {
		if i != 0 {
			data = append(data, byte(','))
		}
		data = strconv.AppendInt(data, int64(id), 10)
	}
	url := ds.baseURL() + "/relations?relations=" + string(data)
	if len(params) > 0 {
		url += "&" + params
	}

	o := &osm.OSM{}
	if err := ds.getFromAPI(ctx, url, &o); err != nil {
		return nil, err
	}

	return o.Relations, nil
}
`,
			Replace: `	idList := joinInt64(len(ids), func(i int) int64 { return int64(ids[i]) })
	url := ds.baseURL() + "/relations?relations=" + idList
	if len(params) > 0 {
		url += "&" + params
	}

	o := &osm.OSM{}
	if err := ds.getFromAPI(ctx, url, &o); err != nil {
		return nil, err
	}

	return o.Relations, nil
}

// joinInt64 formats the n numbers at(0..n-1) in base 10, comma separated.
func joinInt64(n int, at func(i int) int64) string {
	out := make([]byte, 0, 11*n)
	for i := 0; i < n; i++ {
		if i > 0 {
			out = append(out, ';')
		}
		out = strconv.AppendInt(out, at(i), 10)
	}
	return string(out)
}
`, ExpectRule: "H4", ExpectConstruct: "path@(*Datasource).Relations"},
		{Name: "status-table-410-mapped-to-notfound-constructor", File: "osmapi/datasource.go",
			Find: `	if resp.StatusCode == http.StatusNotFound {
		return &NotFoundError{URL: url}
	}

	if resp.StatusCode == http.StatusForbidden {
		return &ForbiddenError{URL: url}
	}

	if resp.StatusCode == http.StatusGone {
		return &GoneError{URL: url}
	}

	if resp.StatusCode == http.StatusRequestURITooLong {
		return &RequestURITooLongError{URL: url}
	}

	if resp.StatusCode != http.StatusOK {
		return &UnexpectedStatusCodeError{
			Code: resp.StatusCode,
			URL:  url,
		}
	}

	return xml.NewDecoder(resp.Body).Decode(item)
}
`,
			Replace: `	if resp.StatusCode == http.StatusOK {
		return xml.NewDecoder(resp.Body).Decode(item)
	}

	if newError, ok := statusErrors[resp.StatusCode]; ok {
		return newError(url)
	}

	return &UnexpectedStatusCodeError{Code: resp.StatusCode, URL: url}
}

var statusErrors = map[int]func(url string) error{
	http.StatusNotFound: func(url string) error { return &NotFoundError{URL: url} },
	http.StatusForbidden: func(url string) error { return &ForbiddenError{URL: url} },
	http.StatusGone: func(url string) error { return &NotFoundError{URL: url} },
	http.StatusRequestURITooLong: func(url string) error { return &RequestURITooLongError{URL: url} },
}
`, ExpectRule: "H3", ExpectConstruct: "status 410"},
		{Name: "status-table-403-missing", File: "osmapi/datasource.go",
			Find: `	if resp.StatusCode == http.StatusNotFound {
		return &NotFoundError{URL: url}
	}

	if resp.StatusCode == http.StatusForbidden {
		return &ForbiddenError{URL: url}
	}

	if resp.StatusCode == http.StatusGone {
		return &GoneError{URL: url}
	}

	if resp.StatusCode == http.StatusRequestURITooLong {
		return &RequestURITooLongError{URL: url}
	}

	if resp.StatusCode != http.StatusOK {
		return &UnexpectedStatusCodeError{
			Code: resp.StatusCode,
			URL:  url,
		}
	}

	return xml.NewDecoder(resp.Body).Decode(item)
}
`,
			Replace: `	if resp.StatusCode == http.StatusOK {
		return xml.NewDecoder(resp.Body).Decode(item)
	}

	if newError, ok := statusErrors[resp.StatusCode]; ok {
		return newError(url)
	}

	return &UnexpectedStatusCodeError{Code: resp.StatusCode, URL: url}
}

var statusErrors = map[int]func(url string) error{
	http.StatusNotFound: func(url string) error { return &NotFoundError{URL: url} },
	http.StatusGone: func(url string) error { return &GoneError{URL: url} },
	http.StatusRequestURITooLong: func(url string) error { return &RequestURITooLongError{URL: url} },
}
`, ExpectRule: "H3", ExpectConstruct: "status 403"},
		{Name: "status-table-first-with-200-entry-returning-error", File: "osmapi/datasource.go",
			Find: `	if resp.StatusCode == http.StatusNotFound {
		return &NotFoundError{URL: url}
	}

	if resp.StatusCode == http.StatusForbidden {
		return &ForbiddenError{URL: url}
	}

	if resp.StatusCode == http.StatusGone {
		return &GoneError{URL: url}
	}

	if resp.StatusCode == http.StatusRequestURITooLong {
		return &RequestURITooLongError{URL: url}
	}

	if resp.StatusCode != http.StatusOK {
		return &UnexpectedStatusCodeError{
			Code: resp.StatusCode,
			URL:  url,
		}
	}

	return xml.NewDecoder(resp.Body).Decode(item)
}
`,
			Replace: `	if newError, ok := statusErrors[resp.StatusCode]; ok {
		return newError(url)
	}

	if resp.StatusCode != http.StatusOK {
		return &UnexpectedStatusCodeError{Code: resp.StatusCode, URL: url}
	}

	return xml.NewDecoder(resp.Body).Decode(item)
}

var statusErrors = map[int]func(url string) error{
	http.StatusOK: func(url string) error { return &UnexpectedStatusCodeError{Code: http.StatusOK, URL: url} },
	http.StatusNotFound: func(url string) error { return &NotFoundError{URL: url} },
	http.StatusForbidden: func(url string) error { return &ForbiddenError{URL: url} },
	http.StatusGone: func(url string) error { return &GoneError{URL: url} },
	http.StatusRequestURITooLong: func(url string) error { return &RequestURITooLongError{URL: url} },
}
`, ExpectRule: "H3", ExpectConstruct: "status 200"},
		{Name: "limit-bounds-struct-wrong-max", File: "osmapi/options.go",
			Find: `func (o *limit) applyNotes(p []string) ([]string, error) {
	if o.n < 1 || 10000 < o.n {
		return nil, errors.New("osmapi: limit must be between 1 and 10000")
	}
	return append(p, fmt.Sprintf("limit=%d", o.n)), nil
}
`,
			Replace: `func (o *limit) applyNotes(p []string) ([]string, error) {
	if o.n < notesLimit.min || o.n > notesLimit.max {
		return nil, errors.New("osmapi: limit must be between 1 and 10000")
	}
	return append(p, fmt.Sprintf("limit=%d", o.n)), nil
}

var notesLimit = struct{ min, max int }{min: 1, max: 100000}
`, ExpectRule: "H6", ExpectConstruct: "range@Limit"},
	}
}
