package rules

import (
	"go/ast"
	"go/types"
)

// Function values, deferred calls and counted loops for the abstract interpreter of c03_eval.go.

// c03Deferred is a deferred call: callee, receiver and arguments are evaluated at the defer statement (as Go does),
// the call itself runs when the frame returns.
type c03Deferred struct {
	call *ast.CallExpr
	fn   *types.Func
	recv *c03V
	args []*c03V
	fv   *c03V // function value (literal) being deferred
	t    types.Type
}

// calleeParts evaluates what a call will call with: the static callee or the function value, receiver, arguments.
type c03Callee struct {
	st   *c03State
	fn   *types.Func
	recv *c03V
	args []*c03V
	fv   *c03V
}

// callLit enters the body of a function literal value.
func (x *c03Interp) callLit(fr *c03Frame, st *c03State, call *ast.CallExpr, fv *c03V, args []*c03V, t types.Type) []c03EV {
	if fv.Lit == nil || fv.Env == nil || fr.depth >= c03MaxDepth {
		return nil
	}
	active := 0
	for f := fr; f != nil; f = f.parent {
		if f.lit == fv.Lit {
			active++
		}
	}
	if active >= 3 {
		return nil // recursive literal: not entered any deeper
	}
	restore := func(*c03State) {}
	if active > 0 {
		restore = c03SaveScope(st, fv.Lit)
	}
	info := fv.Env.info()
	nf := &c03Frame{fi: fv.Env.fi, parent: fr, call: call, depth: fr.depth + 1, label: fv.Env.Root().Stack() + " (func literal)", lit: fv.Lit}
	st.event(c03Event{Kind: "enter", Node: call, Frame: fr, Call: call, Args: args})
	i := 0
	if fv.Lit.Type.Params != nil {
		for _, fld := range fv.Lit.Type.Params.List {
			for _, nm := range fld.Names {
				if o, ok := info.Defs[nm].(*types.Var); ok {
					if i < len(args) {
						st.vars[o] = args[i]
					} else {
						st.vars[o] = x.unk(o.Type())
					}
				}
				i++
			}
		}
	}
	var named []*types.Var
	if fv.Lit.Type.Results != nil {
		for _, fld := range fv.Lit.Type.Results.List {
			for _, nm := range fld.Names {
				if o, ok := info.Defs[nm].(*types.Var); ok {
					st.vars[o] = c03ZeroValue(o.Type())
					named = append(named, o)
				}
			}
		}
	}
	var out []c03EV
	for _, o := range x.runDefers(nf, x.execBlock(nf, st, fv.Lit.Body.List), named) {
		switch o.ctl {
		case c03Return, c03Next:
			rs := o.ret
			if len(rs) == 0 && len(named) > 0 && o.ctl == c03Return {
				for _, n := range named {
					rs = append(rs, o.st.vars[n])
				}
			}
			restore(o.st)
			out = append(out, c03EV{o.st, c03ResultValue(rs, t)})
		default:
			x.pending = append(x.pending, o)
		}
	}
	return out
}

// deferCall records a deferred call on the frame.
func (x *c03Interp) deferCall(fr *c03Frame, st *c03State, s *ast.DeferStmt) []c03Out {
	var outs []c03Out
	for _, c := range x.calleeParts(fr, st, s.Call) {
		if c.st.defers == nil {
			c.st.defers = map[*c03Frame][]c03Deferred{}
		}
		d := c03Deferred{call: s.Call, fn: c.fn, recv: c.recv, args: c.args, fv: c.fv, t: fr.info().TypeOf(s.Call)}
		list := c.st.defers[fr]
		c.st.defers[fr] = append(list[:len(list):len(list)], d)
		outs = append(outs, c03Out{st: c.st})
	}
	return outs
}

// runDefers runs the deferred calls of frame fr (last first) on every outcome that leaves the frame normally.
func (x *c03Interp) runDefers(fr *c03Frame, outs []c03Out, named []*types.Var) []c03Out {
	var res []c03Out
	for _, o := range outs {
		list := o.st.defers[fr]
		if len(list) == 0 || (o.ctl != c03Return && o.ctl != c03Next) {
			res = append(res, o)
			continue
		}
		delete(o.st.defers, fr)
		// a return statement assigns the named results before the deferred calls run; they may change them
		if o.ctl == c03Return && len(named) > 0 && len(o.ret) == len(named) {
			for i, n := range named {
				o.st.vars[n] = o.ret[i]
			}
		}
		states := []*c03State{o.st}
		for i := len(list) - 1; i >= 0; i-- {
			d := list[i]
			var next []*c03State
			for _, s := range states {
				var evs []c03EV
				if d.fv != nil && d.fv.K == c03KFunc && d.fv.Lit != nil {
					evs = x.callLit(fr, s, d.call, d.fv, d.args, d.t)
				} else {
					evs = x.apply(fr, s, d.call, d.fn, d.recv, d.args, d.t)
				}
				for _, ev := range evs {
					next = append(next, ev.st)
				}
			}
			states = next
		}
		for _, s := range states {
			c := o
			c.st = s
			if len(named) > 0 {
				c.ctl, c.ret = c03Return, nil
				for _, n := range named {
					c.ret = append(c.ret, s.vars[n])
				}
			}
			res = append(res, c)
		}
	}
	return res
}

// execFor explores a for statement. While the condition is decided by the abstract values (a counter over a list
// built on the path, constants) the loop is really iterated (bounded); once it is not, the body is explored for one
// iteration as for every other loop.
func (x *c03Interp) execFor(fr *c03Frame, st *c03State, s *ast.ForStmt, label string) []c03Out {
	outs := []c03Out{{st: st}}
	if s.Init != nil {
		outs = x.execStmt(fr, st, s.Init, "")
	}
	var res []c03Out
	var iterate func(st *c03State, n int)
	iterate = func(st *c03State, n int) {
		conds := []c03CV{{st, true}}
		decided := false
		if s.Cond != nil {
			decided = x.concreteCond(fr, st, s.Cond)
			conds = x.evalCond(fr, st, s.Cond)
			decided = decided && len(conds) == 1
		}
		for _, cv := range conds {
			if !cv.b {
				res = append(res, c03Out{st: cv.st})
				continue
			}
			cv.st.event(c03Event{Kind: "iter", Node: s, Frame: fr})
			for _, bo := range x.execBlock(fr, cv.st, s.Body.List) {
				done, leaves := c03LoopDone(bo, label)
				switch {
				case leaves:
					res = append(res, c03Out{st: bo.st})
				case done && s.Cond == nil:
					bo.st.event(c03Event{Kind: "again", Node: s, Frame: fr})
					res = append(res, c03Out{st: bo.st, ctl: c03Again, loop: s, pos: s.Pos()})
				case done:
					posts := []c03Out{{st: bo.st}}
					if s.Post != nil {
						posts = x.execStmt(fr, bo.st, s.Post, "")
					}
					for _, po := range posts {
						switch {
						case po.ctl != c03Next:
							res = append(res, po)
						case decided && n < 32 && x.spend():
							iterate(po.st, n+1)
						default:
							po.st.event(c03Event{Kind: "again", Node: s, Frame: fr})
							res = append(res, c03Out{st: po.st})
						}
					}
				default:
					res = append(res, bo)
				}
			}
		}
	}
	for _, o := range outs {
		if o.ctl != c03Next {
			res = append(res, o)
			continue
		}
		iterate(o.st, 0)
	}
	return res
}

// c03NamedResults lists the named results of a signature (nil unless all are named).
func c03NamedResults(sig *types.Signature) []*types.Var {
	var out []*types.Var
	for i := 0; i < sig.Results().Len(); i++ {
		r := sig.Results().At(i)
		if r.Name() == "" || r.Name() == "_" {
			return nil
		}
		out = append(out, r)
	}
	return out
}

// concreteCond: the loop condition compares two integers the path knows (a counter against a constant or the length
// of a list built on the path). Only then is a loop really iterated; a condition that is merely known to hold now
// (an unknown slice that the scenario makes non-empty) is explored for one iteration.
func (x *c03Interp) concreteCond(fr *c03Frame, st *c03State, cond ast.Expr) bool {
	be, ok := ast.Unparen(cond).(*ast.BinaryExpr)
	if !ok {
		return false
	}
	switch be.Op.String() {
	case "<", "<=", ">", ">=", "!=", "==":
	default:
		return false
	}
	probe := st.clone()
	for _, e := range []ast.Expr{be.X, be.Y} {
		evs := x.eval(fr, probe, e)
		if len(evs) != 1 || evs[0].v == nil || evs[0].v.K != c03KInt {
			return false
		}
	}
	return true
}

// c03SaveScope snapshots the bindings of the variables declared inside node (a function or literal that is entered
// while already active): variables are keyed by their declaration, so the inner activation would overwrite the outer
// one's parameters and locals. restore puts them back into a state the inner activation produced.
func c03SaveScope(st *c03State, node ast.Node) (restore func(*c03State)) {
	lo, hi := node.Pos(), node.End()
	saved := map[types.Object]*c03V{}
	for o, v := range st.vars {
		if p := o.Pos(); lo <= p && p < hi {
			saved[o] = v
		}
	}
	return func(s *c03State) {
		for o := range s.vars {
			if p := o.Pos(); lo <= p && p < hi {
				if v, ok := saved[o]; ok {
					s.vars[o] = v
				} else {
					delete(s.vars, o)
				}
			}
		}
	}
}
