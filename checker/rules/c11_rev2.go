package rules

// C11.A4 reverse@ — the reversal flag computed in a LATER PASS over the built list instead of in the fill loop:
//
//	list := <build>(len(ways), ...)
//	for i := 1; i < len(list); i++ { list[i].ReverseOfPrevious = IsReverse(ways[i], ways[i-1]) }
//	return list
//
// What is required is the same as in the fill loop, stated on the pass: every position i > 0 of the list gets
// ReverseOfPrevious = IsReverse(<history>[i], <history>[i-1]) — the pass visits all positions from 1 (a counting
// loop that starts at 1, or a loop over all positions that has decided i > 0), runs up to the length of the
// list / history, advances by one, every one of its iterations stores the flag — and it has run on every path
// that returns the list (a pass placed after the list escaped, or skipped on one branch, is reported).

import (
	"go/token"
	"strings"

	"osmcheck/core"
)

// c11ReversePass checks the later-pass form; n is the number of flag stores seen in passes over the list L.
func c11ReversePass(r *core.R, paths []c11Out, L, X *c11V, fill string) (n int, bad []string) {
	lenL := &c11V{k: "call", name: "len", xs: []*c11V{L}}
	lenX := &c11V{k: "call", name: "len", xs: []*c11V{X}}
	passes := map[string]bool{} // loops that store the flag of list elements
	isFlagStore := func(ev c11Ev) (*c11V, bool) {
		if ev.kind != "store" || ev.lhs.k != "field" || ev.lhs.obj.Name() != "ReverseOfPrevious" {
			return nil, false
		}
		el := c11StripPtr(ev.lhs.xs[0])
		if el.k != "index" || el.xs[0].key() != L.key() {
			return nil, false
		}
		return el.xs[1], true
	}
	for _, p := range paths {
		if p.ctl == c11Back && p.loopKey != fill {
			for _, ev := range p.st.ev {
				if _, ok := isFlagStore(ev); ok {
					passes[p.loopKey] = true
				}
			}
		}
	}
	if len(passes) == 0 {
		return 0, nil
	}
	for _, p := range paths {
		st := p.st
		if p.ctl == c11Return && len(p.res) >= 1 && p.res[0].key() == L.key() {
			ran := false
			for _, ev := range st.ev {
				if ev.kind == "loop" && passes[ev.key] {
					ran = true
				}
			}
			if !ran {
				bad = append(bad, "the list is returned on a path that has not run the pass computing ReverseOfPrevious (the pass runs after the list escaped, or is skipped on this branch)")
			}
		}
		if p.ctl != c11Back || !passes[p.loopKey] {
			continue
		}
		built := false // the path built L (on the other paths the list variable holds something else, e.g. nil for an empty history)
		for _, ev := range st.ev {
			if ev.kind == "loop" && ev.key == fill {
				built = true
			}
		}
		if !built {
			continue
		}
		after := false
		stored := false
		for _, ev := range st.ev {
			if ev.kind == "loop" && ev.key == p.loopKey {
				after = true
				continue
			}
			q, ok := isFlagStore(ev)
			if !ok || !after {
				continue
			}
			where := "`" + src(r.P.Fset, ev.node) + "` (" + r.P.Rel(ev.node.Pos()) + ")"
			if f, isConst := ev.rhs.constBool(); isConst {
				if f || c11IntPositive(st, q, ev.nas) != c11F {
					bad = append(bad, where+" sets ReverseOfPrevious to a constant for a position that is not known to be the first")
				}
				continue
			}
			n++
			stored = true
			// the position: all positions from 1 on, or all positions with i > 0 decided
			okPos := false
			if lk, isCount := c11IsLoopSym(q); isCount && lk == p.loopKey {
				startsAtOne := false
				for _, e2 := range st.ev {
					if e2.kind == "loop" && e2.key == lk {
						if pre := e2.pre[q.obj]; pre != nil && pre.isConstInt(1) {
							startsAtOne = true
						}
					}
				}
				inRange := st.truth(c11Bin(token.LSS, q, lenL)) == c11T || st.truth(c11Bin(token.LSS, q, lenX)) == c11T
				end := st.env[q.obj]
				step := end != nil && end.key() == c11Bin(token.ADD, q, c11Int(1)).key()
				okPos = startsAtOne && inRange && step
			}
			if !okPos {
				if lk, ok := c11IsPosition(paths, st, q, lenL); ok && lk == p.loopKey && c11IntPositive(st, q, ev.nas) == c11T {
					okPos = true
				} else if lk, ok := c11IsPosition(paths, st, q, lenX); ok && lk == p.loopKey && c11IntPositive(st, q, ev.nas) == c11T {
					okPos = true
				}
			}
			if !okPos {
				bad = append(bad, where+": the pass does not visit every position i >= 1 of the list exactly once (it must start at 1 — or at 0 with i > 0 decided —, run while i < len(list) and advance by one)")
			}
			elem := &c11V{k: "index", xs: []*c11V{X, q}}
			prev := &c11V{k: "index", xs: []*c11V{X, c11Bin(token.SUB, q, c11Int(1))}}
			okArgs := false
			if args, ok := ev.rhs.isFuncCall(c11AnnPath, "IsReverse"); ok && len(args) == 2 {
				okArgs = (args[0].key() == elem.key() && args[1].key() == prev.key()) || (args[1].key() == elem.key() && args[0].key() == prev.key())
			}
			if !okArgs {
				bad = append(bad, where+": ReverseOfPrevious of list[i] must be IsReverse(<history>[i], <history>[i-1]), the comparison with the previous version in the sorted history (it is "+c11Trunc(strings.ReplaceAll(ev.rhs.key(), X.key(), "<history>"))+")")
			}
		}
		if !stored {
			// an iteration of the pass without the store: acceptable only when it decided to be at the first position
			first := c11IntPositive(st, c11Sym("iter@"+p.loopKey+":key", nil), -1) == c11F
			for _, ev := range st.ev {
				if ev.kind == "loop" && ev.key == p.loopKey {
					for o := range ev.pre {
						if c11IntPositive(st, c11Sym("loop@"+p.loopKey+":"+o.Name(), o), -1) == c11F {
							first = true
						}
					}
				}
			}
			if !first {
				bad = append(bad, "an iteration of the pass can end without storing ReverseOfPrevious for a position that is not the first")
			}
		}
	}
	return n, bad
}
