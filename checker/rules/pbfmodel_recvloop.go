package rules

import (
	"go/ast"
	"go/token"
	"go/types"
)

// recvDrivenLoop recognises the explicit form of `for v := range ch`: a `for` statement without condition whose body
// starts with `v, ok := <-ch` (or `v, ok = <-ch`) directly followed by `if !ok { return }` / `if !ok { break }`. Like
// the range form it takes every value until the channel is closed and is left then. It returns the channel expression.
func (m *pbfModel) recvDrivenLoop(loop *ast.ForStmt) ast.Expr {
	if loop == nil || loop.Cond != nil || loop.Init != nil || loop.Body == nil || len(loop.Body.List) < 2 {
		return nil
	}
	as, ok := loop.Body.List[0].(*ast.AssignStmt)
	if !ok || len(as.Lhs) != 2 || len(as.Rhs) != 1 {
		return nil
	}
	ue, ok := ast.Unparen(as.Rhs[0]).(*ast.UnaryExpr)
	if !ok || ue.Op != token.ARROW {
		return nil
	}
	flag := objOf(m.info, as.Lhs[1])
	ifs, ok := loop.Body.List[1].(*ast.IfStmt)
	if !ok || flag == nil || ifs.Init != nil || ifs.Else != nil || len(ifs.Body.List) == 0 {
		return nil
	}
	not, ok := ast.Unparen(ifs.Cond).(*ast.UnaryExpr)
	if !ok || not.Op != token.NOT || objOf(m.info, not.X) != flag {
		return nil
	}
	switch last := ifs.Body.List[len(ifs.Body.List)-1].(type) {
	case *ast.ReturnStmt:
		return ue.X
	case *ast.BranchStmt:
		if last.Tok == token.BREAK && last.Label == nil {
			return ue.X
		}
	}
	return nil
}

// recvDrives reports whether the receive operation op is the one that drives a receive-driven loop.
func (m *pbfModel) recvDrives(op *chanOp) bool {
	if op == nil || op.kind != "recv" || op.sel != nil || op.u == nil {
		return false
	}
	par := parentsOf(m.p, op.u.fi)
	for p := par[op.node]; p != nil; p = par[p] {
		switch x := p.(type) {
		case *ast.ForStmt:
			ch := m.recvDrivenLoop(x)
			if ch == nil {
				return false
			}
			ue, _ := op.node.(*ast.UnaryExpr)
			return ue != nil && ast.Unparen(ch) == ast.Unparen(ue.X)
		case *ast.FuncLit, *ast.FuncDecl:
			return false
		}
	}
	return false
}

// recvLoopOf returns the loop statement a receiving operation drives (the range statement itself, or the receive-driven
// `for` of recvDrives) and, for the explicit form, the `if !ok {...}` statement that is the loop's regular exit.
func (m *pbfModel) recvLoopOf(op *chanOp) (loop ast.Stmt, body *ast.BlockStmt, regular ast.Stmt) {
	if op == nil || op.u == nil {
		return nil, nil, nil
	}
	if rs, ok := op.node.(*ast.RangeStmt); ok && op.kind == "range" {
		return rs, rs.Body, nil
	}
	if !m.recvDrives(op) {
		return nil, nil, nil
	}
	par := parentsOf(m.p, op.u.fi)
	for p := par[op.node]; p != nil; p = par[p] {
		if fs, ok := p.(*ast.ForStmt); ok {
			return fs, fs.Body, fs.Body.List[1]
		}
	}
	return nil, nil, nil
}

// loopEarlyExit finds a statement in the body of a receiving loop that leaves the loop before the channel is closed:
// a return, a goto, a break that targets the loop (unlabelled outside nested breakable statements, or labelled with the
// loop's own label), or a call of panic / runtime.Goexit / os.Exit / log.Fatal*. Function literals are not descended
// into. It returns the position of the first such statement, or token.NoPos.
func (m *pbfModel) loopEarlyExit(op *chanOp) token.Pos {
	loop, body, regular := m.recvLoopOf(op)
	if loop == nil || body == nil {
		return token.NoPos
	}
	label := ""
	if ls, ok := parentsOf(m.p, op.u.fi)[loop].(*ast.LabeledStmt); ok {
		label = ls.Label.Name
	}
	found := token.NoPos
	var walk func(n ast.Node, breakable int)
	walk = func(n ast.Node, breakable int) {
		if n == nil || found != token.NoPos || n == regular {
			return
		}
		switch x := n.(type) {
		case *ast.FuncLit:
			return
		case *ast.ReturnStmt:
			found = x.Pos()
			return
		case *ast.BranchStmt:
			switch x.Tok {
			case token.GOTO:
				found = x.Pos()
			case token.BREAK:
				if (x.Label == nil && breakable == 0) || (x.Label != nil && x.Label.Name == label && label != "") {
					found = x.Pos()
				} else if x.Label != nil && x.Label.Name != label {
					// a label of an enclosing statement of the loop leaves the loop too; labels of nested statements do not
					nested := false
					ast.Inspect(body, func(k ast.Node) bool {
						if ls, ok := k.(*ast.LabeledStmt); ok && ls.Label.Name == x.Label.Name {
							nested = true
						}
						return !nested
					})
					if !nested {
						found = x.Pos()
					}
				}
			case token.CONTINUE:
				if x.Label != nil && x.Label.Name != label {
					nested := false
					ast.Inspect(body, func(k ast.Node) bool {
						if ls, ok := k.(*ast.LabeledStmt); ok && ls.Label.Name == x.Label.Name {
							nested = true
						}
						return !nested
					})
					if !nested {
						found = x.Pos()
					}
				}
			}
			return
		case *ast.CallExpr:
			if name := builtinName(m.info, x); name == "panic" {
				found = x.Pos()
				return
			}
			if se, ok := ast.Unparen(x.Fun).(*ast.SelectorExpr); ok {
				if id, ok := se.X.(*ast.Ident); ok {
					if pn, ok := m.info.Uses[id].(*types.PkgName); ok {
						q := pn.Imported().Path() + "." + se.Sel.Name
						switch q {
						case "runtime.Goexit", "os.Exit", "log.Fatal", "log.Fatalf", "log.Fatalln", "log.Panic", "log.Panicf", "log.Panicln":
							found = x.Pos()
							return
						}
					}
				}
			}
		}
		nb := breakable
		switch n.(type) {
		case *ast.ForStmt, *ast.RangeStmt, *ast.SwitchStmt, *ast.TypeSwitchStmt, *ast.SelectStmt:
			nb++
		}
		ast.Inspect(n, func(k ast.Node) bool {
			if k == nil || k == n {
				return k == n
			}
			walk(k, nb)
			return false
		})
	}
	for _, s := range body.List {
		walk(s, 0)
	}
	return found
}

// firstSendOnClass reports whether the bare send op is necessarily the first value sent on its channel: it is not
// inside a loop of its unit, every other send on the class is in the same unit (seen from the same call context) and
// comes later in the source, and the unit is entered once per pipeline (a goroutine body, not a helper).
func (m *pbfModel) firstSendOnClass(op *chanOp, sameClass []*chanOp) bool {
	if op == nil || op.u == nil || op.u.goSite == nil {
		return false
	}
	par := parentsOf(m.p, op.u.fi)
	for p := par[op.node]; p != nil; p = par[p] {
		switch p.(type) {
		case *ast.ForStmt, *ast.RangeStmt:
			return false
		case *ast.FuncLit, *ast.FuncDecl:
			p = nil
		}
		if p == nil {
			break
		}
	}
	for _, o := range sameClass {
		if o == op || o.kind != "send" {
			continue
		}
		if o.u != op.u || o.pos < op.pos {
			return false
		}
	}
	return true
}

// loopTakesFirstValue reports whether the receiving loop of op is a top-level statement of a goroutine body and no
// statement before it can return, block on a channel or leave the goroutine: the goroutine then always reaches the
// loop and receives the first value sent (or sees the close).
func (m *pbfModel) loopTakesFirstValue(op *chanOp) bool {
	loop, _, _ := m.recvLoopOf(op)
	if loop == nil || op.u.goSite == nil {
		return false
	}
	par := parentsOf(m.p, op.u.fi)
	var top ast.Node = loop
	if ls, ok := par[loop].(*ast.LabeledStmt); ok {
		top = ls
	}
	blk, ok := par[top].(*ast.BlockStmt)
	if !ok {
		return false
	}
	switch par[blk].(type) {
	case *ast.FuncLit, *ast.FuncDecl:
	default:
		return false
	}
	for _, s := range blk.List {
		if s == top {
			return true
		}
		bad := false
		ast.Inspect(s, func(k ast.Node) bool {
			switch x := k.(type) {
			case *ast.FuncLit:
				return false
			case *ast.ReturnStmt, *ast.SelectStmt, *ast.SendStmt, *ast.GoStmt, *ast.BranchStmt:
				bad = true
			case *ast.UnaryExpr:
				if x.Op == token.ARROW {
					bad = true
				}
			case *ast.CallExpr:
				if builtinName(m.info, x) == "panic" {
					bad = true
				}
			}
			return !bad
		})
		if bad {
			return false
		}
	}
	return false
}
