package rules

import (
	"go/ast"
	"go/token"
)

// recvDrivenLoop recognises the explicit form of `for v := range ch`: a `for` statement without condition whose body
// starts with `v, ok := <-ch` (or `v, ok = <-ch`) directly followed by `if !ok { return }` / `if !ok { break }`. Like
// the range form it takes every value until the channel is closed and is left then. It returns the channel expression.
func (m *pbfModel) recvDrivenLoop(loop *ast.ForStmt) ast.Expr {
	if loop == nil || loop.Cond != nil || loop.Init != nil || loop.Body == nil || len(loop.Body.List) < 2 {
		return nil
	}
	as, ok := loop.Body.List[0].(*ast.AssignStmt)
	if !ok || len(as.Lhs) != 2 || len(as.Rhs) != 1 {
		return nil
	}
	ue, ok := ast.Unparen(as.Rhs[0]).(*ast.UnaryExpr)
	if !ok || ue.Op != token.ARROW {
		return nil
	}
	flag := objOf(m.info, as.Lhs[1])
	ifs, ok := loop.Body.List[1].(*ast.IfStmt)
	if !ok || flag == nil || ifs.Init != nil || ifs.Else != nil || len(ifs.Body.List) == 0 {
		return nil
	}
	not, ok := ast.Unparen(ifs.Cond).(*ast.UnaryExpr)
	if !ok || not.Op != token.NOT || objOf(m.info, not.X) != flag {
		return nil
	}
	switch last := ifs.Body.List[len(ifs.Body.List)-1].(type) {
	case *ast.ReturnStmt:
		return ue.X
	case *ast.BranchStmt:
		if last.Tok == token.BREAK && last.Label == nil {
			return ue.X
		}
	}
	return nil
}

// recvDrives reports whether the receive operation op is the one that drives a receive-driven loop.
func (m *pbfModel) recvDrives(op *chanOp) bool {
	if op == nil || op.kind != "recv" || op.sel != nil || op.u == nil {
		return false
	}
	par := parentsOf(m.p, op.u.fi)
	for p := par[op.node]; p != nil; p = par[p] {
		switch x := p.(type) {
		case *ast.ForStmt:
			ch := m.recvDrivenLoop(x)
			if ch == nil {
				return false
			}
			ue, _ := op.node.(*ast.UnaryExpr)
			return ue != nil && ast.Unparen(ch) == ast.Unparen(ue.X)
		case *ast.FuncLit, *ast.FuncDecl:
			return false
		}
	}
	return false
}
