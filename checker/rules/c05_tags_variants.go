package rules

import "osmcheck/core"

// Variants for C05.J10 (a6dd6d0: osm.Bounds names its osmjson keys). The first mutant is the shape before the repair.

var c05TagMutants = []core.Mutant{
	{Name: "old-shape-bounds-without-json-keys", File: "bounds.go",
		Find:       "\tMinLat float64 `xml:\"minlat,attr\" json:\"minlat\"`\n\tMaxLat float64 `xml:\"maxlat,attr\" json:\"maxlat\"`\n\tMinLon float64 `xml:\"minlon,attr\" json:\"minlon\"`\n\tMaxLon float64 `xml:\"maxlon,attr\" json:\"maxlon\"`\n",
		Replace:    "\tMinLat float64 `xml:\"minlat,attr\"`\n\tMaxLat float64 `xml:\"maxlat,attr\"`\n\tMinLon float64 `xml:\"minlon,attr\"`\n\tMaxLon float64 `xml:\"maxlon,attr\"`\n",
		ExpectRule: "J10", ExpectConstruct: "jsonkey@Bounds.MinLat"},
	{Name: "bounds-maxlon-key-camel-case", File: "bounds.go",
		Find:       "json:\"maxlon\"",
		Replace:    "json:\"maxLon\"",
		ExpectRule: "J10", ExpectConstruct: "jsonkey@Bounds.MaxLon"},
	{Name: "user-home-zoom-without-json-key", File: "user.go",
		Find:       "\t\tZoom int     `xml:\"zoom,attr\" json:\"zoom\"`\n",
		Replace:    "\t\tZoom int     `xml:\"zoom,attr\"`\n",
		ExpectRule: "J10", ExpectConstruct: "jsonkey@User.Home.Zoom"},
	{Name: "member-role-json-tag-with-options-only", File: "relation.go",
		Find:       "\tRole string `xml:\"role,attr\" json:\"role\"`\n",
		Replace:    "\tRole string `xml:\"role,attr\" json:\",omitempty\"`\n",
		ExpectRule: "J10", ExpectConstruct: "jsonkey@Member.Role"},
}

var c05TagBenign = []core.Mutant{
	{Name: "bounds-json-key-before-xml-key", File: "bounds.go",
		Find:    "\tMinLat float64 `xml:\"minlat,attr\" json:\"minlat\"`\n\tMaxLat float64 `xml:\"maxlat,attr\" json:\"maxlat\"`\n\tMinLon float64 `xml:\"minlon,attr\" json:\"minlon\"`\n\tMaxLon float64 `xml:\"maxlon,attr\" json:\"maxlon\"`\n",
		Replace: "\tMinLat float64 `json:\"minlat\" xml:\"minlat,attr\"`\n\tMaxLat float64 `json:\"maxlat\" xml:\"maxlat,attr\"`\n\tMinLon float64 `json:\"minlon\" xml:\"minlon,attr\"`\n\tMaxLon float64 `json:\"maxlon\" xml:\"maxlon,attr\"`\n"},
	{Name: "user-home-anonymous-struct-named", File: "user.go",
		Find:    "\tHome struct {\n\t\tLat  float64 `xml:\"lat,attr\" json:\"lat\"`\n\t\tLon  float64 `xml:\"lon,attr\" json:\"lon\"`\n\t\tZoom int     `xml:\"zoom,attr\" json:\"zoom\"`\n\t} `xml:\"home\" json:\"home\"`\n\tLanguages []string `xml:\"languages>lang\" json:\"languages\"`\n\tBlocks    struct {\n\t\tReceived struct {\n\t\t\tCount  int `xml:\"count,attr\" json:\"count\"`\n\t\t\tActive int `xml:\"active,attr\" json:\"active\"`\n\t\t} `xml:\"received\" json:\"received\"`\n\t} `xml:\"blocks\" json:\"blocks\"`\n\tMessages struct {\n\t\tReceived struct {\n\t\t\tCount  int `xml:\"count,attr\" json:\"count\"`\n\t\t\tUnread int `xml:\"unread,attr\" json:\"unread\"`\n\t\t} `xml:\"received\" json:\"received\"`\n\t\tSent struct {\n\t\t\tCount int `xml:\"count,attr\" json:\"count\"`\n\t\t} `xml:\"sent\" json:\"sent\"`\n\t} `xml:\"messages\" json:\"messages\"`\n\tCreatedAt time.Time `xml:\"account_created,attr\" json:\"created_at\"`\n}\n",
		Replace: "\tHome      userHome `xml:\"home\" json:\"home\"`\n\tLanguages []string `xml:\"languages>lang\" json:\"languages\"`\n\tBlocks    struct {\n\t\tReceived struct {\n\t\t\tCount  int `xml:\"count,attr\" json:\"count\"`\n\t\t\tActive int `xml:\"active,attr\" json:\"active\"`\n\t\t} `xml:\"received\" json:\"received\"`\n\t} `xml:\"blocks\" json:\"blocks\"`\n\tMessages struct {\n\t\tReceived struct {\n\t\t\tCount  int `xml:\"count,attr\" json:\"count\"`\n\t\t\tUnread int `xml:\"unread,attr\" json:\"unread\"`\n\t\t} `xml:\"received\" json:\"received\"`\n\t\tSent struct {\n\t\t\tCount int `xml:\"count,attr\" json:\"count\"`\n\t\t} `xml:\"sent\" json:\"sent\"`\n\t} `xml:\"messages\" json:\"messages\"`\n\tCreatedAt time.Time `xml:\"account_created,attr\" json:\"created_at\"`\n}\n\n// userHome is the home location of a user.\ntype userHome struct {\n\tLat  float64 `xml:\"lat,attr\" json:\"lat\"`\n\tLon  float64 `xml:\"lon,attr\" json:\"lon\"`\n\tZoom int     `xml:\"zoom,attr\" json:\"zoom\"`\n}\n"},
}
