package rules

import (
	"go/ast"
	"go/types"
)

// Call-site context. A small helper shared by several roles (`send(ch, v)`, `receive(ch)`) has parameters that are
// bound to different things at its different call sites; what a parameter denotes is then only defined relative to
// the call through which the helper was entered. The tracer knows that call (its stack of inlined calls) and makes it
// the current context around every callback of a rule; static collectors (chanOps) set it per call site. While a
// context is set, the definitions of a parameter are narrowed to the arguments of the calls in the context.

// withCalls makes calls the current context and returns the function that restores the previous one.
func (v *pbfPkgView) withCalls(calls []*ast.CallExpr) func() {
	old := v.ctxCalls
	v.ctxCalls = calls
	return func() { v.ctxCalls = old }
}

func (t *pbfTracer) edge(calls []*ast.CallExpr, st int, cond ast.Expr, val bool, fi *FuncInfo) (int, bool) {
	defer t.v.withCalls(calls)()
	return t.Edge(st, cond, val, fi)
}

func (t *pbfTracer) rangeExit(calls []*ast.CallExpr, st int, rs *ast.RangeStmt, fi *FuncInfo) (int, bool) {
	defer t.v.withCalls(calls)()
	return t.RangeExit(st, rs, fi)
}

// ctxDefs narrows the definitions of a variable to the current call-site context: when some of them are arguments of
// calls in the context, only those count (the parameter is what this call passed).
func (m *pbfModel) ctxDefs(defs []pbfOrigin) []pbfOrigin {
	calls := m.view.ctxCalls
	if len(calls) == 0 || len(defs) < 2 {
		return defs
	}
	var out []pbfOrigin
	for _, d := range defs {
		if d.kind != "arg" {
			continue
		}
		for _, c := range calls {
			if d.stmt == ast.Node(c) {
				out = append(out, d)
				break
			}
		}
	}
	if len(out) == 0 {
		return defs
	}
	return out
}

// base returns the unit a per-call-site copy was made from (the unit itself otherwise).
func (u *unit) base() *unit {
	if u != nil && u.orig != nil {
		return u.orig
	}
	return u
}

// pbfParamRooted reports whether the root of channel expression e is a parameter or the receiver of declaration fi.
func pbfParamRooted(info *types.Info, fi *FuncInfo, e ast.Expr) bool {
	o, ok := rootObj(info, e).(*types.Var)
	if !ok || fi == nil || fi.Decl == nil {
		return false
	}
	if c01ParamIndex(info, fi, o) >= 0 {
		return true
	}
	if fi.Decl.Recv != nil {
		for _, fld := range fi.Decl.Recv.List {
			for _, nm := range fld.Names {
				if info.Defs[nm] == types.Object(o) {
					return true
				}
			}
		}
	}
	return false
}

// ctxOps: a channel operation of unit u whose channel could not be tied to one class because it is a parameter that
// different callers bind differently is split into one operation per call site, each with the class seen from that
// call site and attributed to a copy of the unit that has the caller's roles (a call of such a helper IS a channel
// operation of the calling role). nil when the operation cannot be split that way.
func (m *pbfModel) ctxOps(op *chanOp) []*chanOp {
	u := op.u
	if u == nil || u.fi == nil || u.goSite != nil {
		return nil
	}
	if _, isDecl := u.node.(*ast.FuncDecl); !isDecl || !pbfParamRooted(m.info, u.fi, op.expr) {
		return nil
	}
	var out []*chanOp
	seen := map[string]bool{}
	for _, s := range m.sites[u.fi.Obj] {
		if s.isGo || s.u == nil {
			return nil
		}
		restore := m.view.withCalls([]*ast.CallExpr{s.call})
		cls := m.chanClass(u, op.expr)
		restore()
		if len(cls) > 0 && cls[0] == '?' {
			return nil
		}
		cu := m.unitFor(u, s.u)
		key := cls + "@" + cu.name + "/" + s.u.name
		if seen[key] {
			continue
		}
		seen[key] = true
		c := *op
		c.class, c.u, c.ctx = cls, cu, []*ast.CallExpr{s.call}
		out = append(out, &c)
	}
	return out
}

// unitFor returns the copy of helper unit u that stands for its calls from caller (same code, the caller's roles).
func (m *pbfModel) unitFor(u, caller *unit) *unit {
	if m.ctxUnits == nil {
		m.ctxUnits = map[[2]*unit]*unit{}
	}
	k := [2]*unit{u, caller.base()}
	if c := m.ctxUnits[k]; c != nil {
		return c
	}
	c := *u
	c.orig = u
	c.roles = caller.roles
	c.initPos = caller.initPos
	m.ctxUnits[k] = &c
	return &c
}

// calls lists the calls through which the innermost frame of the site was entered.
func (s *pbfSite) calls() []*ast.CallExpr {
	var out []*ast.CallExpr
	for _, fr := range s.frames {
		switch l := fr.link.(type) {
		case *ast.CallExpr:
			out = append(out, l)
		case *ast.DeferStmt:
			out = append(out, l.Call)
		}
	}
	return out
}
