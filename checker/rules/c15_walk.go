package rules

import (
	"go/ast"
	"go/token"
	"go/types"

	"golang.org/x/tools/go/cfg"
)

// ---------------------------------------------------------------- walking the CFG

type c15Walk struct {
	visited  map[ast.Node]bool
	nodes    []ast.Node // in visiting order
	blocks   map[*cfg.Block]bool
	returns  []*ast.ReturnStmt
	implicit bool // fell off the end of the function
	head     bool // came back to the loop head (continue / end of body)
	done     bool // left the loop through its exit (break)
	escape   ast.Node
	dead     ast.Node // a path ends in panic
	barrier  bool     // some path was stopped by the barrier

	assigned map[types.Object]ast.Expr // plain variables assigned on the way (latest value expression)
	headHits int                       // arrivals at the loop head before the loop's guards were evaluated
	exitErr  types.Object              // the error variable known to be non-nil on the early exit, if any
	after    *c15Walk                  // with opt.follow: the walk from the loop's exit to the returns, for paths that left early
}

type c15WalkOpt struct {
	env     *c15Env
	loop    *c15Loop // nil: whole-function walk
	oracle  *c15Oracle
	barrier func(ast.Node) bool // paths stop at (and do not execute) the first node for which barrier holds
	follow  bool                // continue after an early exit of the loop (break / guard variable) to the returns
}

// walk explores fn's CFG from node index startIdx of block start.
func (w *c15World) walk(start *cfg.Block, startIdx int, opt c15WalkOpt) *c15Walk {
	res := &c15Walk{visited: map[ast.Node]bool{}, blocks: map[*cfg.Block]bool{}, assigned: map[types.Object]ast.Expr{}}
	var breakPreds []*cfg.Block
	type item struct {
		b *cfg.Block
		i int
	}
	work := []item{{start, startIdx}}
	seen := map[*cfg.Block]bool{}
	for len(work) > 0 {
		it := work[len(work)-1]
		work = work[:len(work)-1]
		b := it.b
		if it.i == 0 {
			if seen[b] {
				continue
			}
			seen[b] = true
		}
		res.blocks[b] = true
		stopped := false
		var last ast.Node
		for i := it.i; i < len(b.Nodes); i++ {
			n := b.Nodes[i]
			if opt.barrier != nil && opt.barrier(n) {
				res.barrier = true
				stopped = true
				break
			}
			if !res.visited[n] {
				res.visited[n] = true
				res.nodes = append(res.nodes, n)
			}
			last = n
			if as, ok := n.(*ast.AssignStmt); ok && len(as.Lhs) == len(as.Rhs) && (as.Tok == token.ASSIGN || as.Tok == token.DEFINE) {
				for k, l := range as.Lhs {
					if ob := objOf(w.info, l); ob != nil {
						res.assigned[ob] = as.Rhs[k]
					}
				}
			}
			if ret, ok := n.(*ast.ReturnStmt); ok {
				res.returns = append(res.returns, ret)
				stopped = true
				break
			}
		}
		if stopped {
			continue
		}
		var next []*cfg.Block
		switch len(b.Succs) {
		case 0:
			if last != nil && c15IsPanic(w.info, last) {
				res.dead = last
			} else {
				res.implicit = true
			}
			continue
		case 2:
			v := c15U
			if cond := condOf(w.info, b); cond != nil && opt.oracle != nil {
				v = w.eval(opt.env, cond, opt.oracle, 0)
			}
			switch v {
			case c15T:
				next = b.Succs[:1]
			case c15F:
				next = b.Succs[1:]
			default:
				next = b.Succs
			}
		default:
			next = b.Succs
		}
		for _, s := range next {
			if l := opt.loop; l != nil {
				switch {
				case s == l.head:
					if len(l.guards) > 0 {
						res.headHits++ // decided below, once every assignment of the iteration is known
					} else {
						res.head = true
					}
					continue
				case s == l.done:
					res.done = true
					breakPreds = append(breakPreds, b)
					continue
				case !l.inBody(s):
					if len(s.Nodes) > 0 {
						res.escape = s.Nodes[0]
					} else {
						res.escape = l.stmt
					}
					continue
				}
			}
			work = append(work, item{s, 0})
		}
	}
	if l := opt.loop; l != nil {
		if res.headHits > 0 {
			w.guardedHead(res, opt)
		}
		if res.done && opt.follow {
			w.followExit(res, opt, breakPreds)
		}
	}
	return res
}

// guardedHead decides what happens at the end of an iteration of a loop whose condition has guards besides
// `i < len(X)`. A guard none of whose variables was assigned during the iteration still holds (it held at the top);
// otherwise it is evaluated with the assigned values (an error variable assigned from a call is summarised under the
// oracle's input). True: next iteration. False: the loop is left. Unknown: both.
func (w *c15World) guardedHead(res *c15Walk, opt c15WalkOpt) {
	l := opt.loop
	v := c15T
	for _, g := range l.guards {
		touched := false
		ast.Inspect(g, func(n ast.Node) bool {
			if id, ok := n.(*ast.Ident); ok {
				ob := objOf(w.info, id)
				if _, asg := res.assigned[ob]; asg && ob != nil {
					touched = true
				}
				if opt.oracle != nil && ob != nil && ob == opt.oracle.errObj {
					touched = true
				}
			}
			return !touched
		})
		if !touched {
			continue
		}
		gv := c15U
		if opt.oracle != nil {
			saved := opt.oracle.assigned
			opt.oracle.assigned = res.assigned
			gv = w.eval(opt.env, g, opt.oracle, 0)
			opt.oracle.assigned = saved
		}
		if gv != c15T {
			if e := w.guardErrVar(opt.env, g); e != nil {
				res.exitErr = e
			}
		}
		v = c15And(v, gv)
	}
	if v != c15F {
		res.head = true
	}
	if v != c15T {
		res.done = true
	}
}

// guardErrVar: guard g is `E == nil` for an error variable E (so that leaving through it means E != nil).
func (w *c15World) guardErrVar(env *c15Env, g ast.Expr) types.Object {
	l, op, r, ok := cmpNorm(g)
	if !ok || op != token.EQL {
		return nil
	}
	var other ast.Expr
	switch {
	case isNilIdent(r):
		other = l
	case isNilIdent(l):
		other = r
	default:
		return nil
	}
	ob := objOf(w.info, other)
	if ob == nil || !types.Identical(ob.Type(), types.Universe.Lookup("error").Type()) {
		return nil
	}
	return ob
}

// followExit walks on from the loop's exit for the paths that left the loop early. When the exit is known to happen
// with a non-nil error variable (guard `err == nil` turned false, or a break controlled by `err != nil`), that
// knowledge is carried along: "err = X; leave; return err" is treated like "return X".
func (w *c15World) followExit(res *c15Walk, opt c15WalkOpt, breakPreds []*cfg.Block) {
	l := opt.loop
	f := l.fn
	e := res.exitErr
	if e == nil {
		// break under `err != nil`
		for _, b := range breakPreds {
			for _, gf := range factsAt(w.info, f.g, f.dom, b) {
				lx, op, rx, ok := cmpNorm(gf.expr)
				if !ok || !((op == token.NEQ && gf.val) || (op == token.EQL && !gf.val)) {
					continue
				}
				var other ast.Expr
				if isNilIdent(rx) {
					other = lx
				} else if isNilIdent(lx) {
					other = rx
				}
				if ob := objOf(w.info, other); other != nil && ob != nil && types.Identical(ob.Type(), types.Universe.Lookup("error").Type()) {
					e = ob
				}
			}
		}
		res.exitErr = e
	}
	o := &c15Oracle{w: w}
	if opt.oracle != nil {
		cp := *opt.oracle
		o = &cp
	}
	if e != nil && o.errObj == nil {
		o.errObj, o.errVal = e, +1
	}
	res.after = w.walk(l.done, 0, c15WalkOpt{env: opt.env, oracle: o})
	res.after.exitErr = o.errObj
}

// retFails: return statement ret of f certainly returns a non-nil error: by its form, or because it returns the
// error variable the walk knows to be non-nil.
func (w *c15World) retFails(f *c15Fn, ret *ast.ReturnStmt, nonNil types.Object) bool {
	if w.retKind(f, ret) == c15RetFailure {
		return true
	}
	if nonNil == nil || !c15ReturnsError(f) {
		return false
	}
	if len(ret.Results) == 0 {
		return f.isParam(nonNil) && !f.isInput(nonNil)
	}
	last := ast.Unparen(ret.Results[len(ret.Results)-1])
	return objOf(w.info, last) == nonNil
}

func c15IsPanic(info *types.Info, n ast.Node) bool {
	es, ok := n.(*ast.ExprStmt)
	if !ok {
		return false
	}
	call, ok := es.X.(*ast.CallExpr)
	return ok && builtinName(info, call) == "panic"
}

// effects returns the effect nodes among the visited nodes.
func (w *c15World) effects(scope ast.Node, wk *c15Walk) []ast.Node {
	var out []ast.Node
	for _, n := range wk.nodes {
		if w.isEffect(scope, n) {
			out = append(out, n)
		}
	}
	return out
}

// ---------------------------------------------------------------- returns

const (
	c15RetSuccess = iota // no error result, or the error result is nil / may be nil
	c15RetFailure        // the error result is known to be non-nil
)

// retKind classifies a return statement of f by its error result.
func (w *c15World) retKind(f *c15Fn, ret *ast.ReturnStmt) int {
	sig := f.fi.Obj.Type().(*types.Signature)
	n := sig.Results().Len()
	if n == 0 || !types.Identical(sig.Results().At(n-1).Type(), types.Universe.Lookup("error").Type()) {
		return c15RetSuccess
	}
	var e ast.Expr
	switch {
	case len(ret.Results) == n:
		e = ast.Unparen(ret.Results[n-1])
	case len(ret.Results) == 0 && sig.Results().At(n-1).Name() != "":
		// bare return: the named error result decides
		for id, o := range w.info.Defs {
			if o == types.Object(sig.Results().At(n-1)) {
				e = id
			}
		}
	}
	if e == nil {
		return c15RetSuccess // a multi-value call
	}
	switch x := e.(type) {
	case *ast.UnaryExpr:
		if x.Op == token.AND {
			return c15RetFailure
		}
	case *ast.CompositeLit:
		return c15RetFailure
	case *ast.CallExpr:
		fn := callee(w.info, x)
		if isPkgFunc(fn, "errors", "New") || isPkgFunc(fn, "fmt", "Errorf") {
			return c15RetFailure
		}
	case *ast.Ident:
		o := objOf(w.info, x)
		if o == nil || isNilIdent(x) {
			return c15RetSuccess
		}
		facts := factsAtPos(w.info, f.g, f.dom, ret.Pos())
		if knownNonNil(facts, func(y ast.Expr) bool { return objOf(w.info, y) == o }) != nil {
			// the variable must not be reassigned between the test and the return
			return c15RetFailure
		}
	}
	return c15RetSuccess
}
