package rules

import (
	"fmt"
	"go/ast"
	"go/constant"
	"go/token"
	"go/types"

	"golang.org/x/tools/go/packages"

	"osmcheck/core"
)

// The C13 path evaluator: a symbolic executor for the subset of Go used by annotate.Change and the functions it
// calls. It executes the root function on symbolic inputs, inlining every static call to a function of the same
// package (so that extracting or inlining helpers does not change what the rules see), forking at every
// condition that is not decided by the path so far (so that if/switch/guard shapes do not matter), and
// summarising loops by one execution of the body for an arbitrary iteration. Anything outside the understood
// subset marks the path as unsupported; the rules then report Unknown.

type c13Exec struct {
	c13Terms
	prog  *core.Program
	fset  *token.FileSet
	home  *packages.Package
	decls map[*types.Func]*c13Decl
	paths []*c13Path
	loops []*c13Loop

	nextLoop, nextCell int
	steps, maxSteps    int
	aborted            string
	unsupAll           []string

	pureIface    func(fn *types.Func) bool // interface methods treated as pure functions of their arguments
	assumeNonNil func(t *c13Term) bool     // values assumed non-nil
	pureMemo     map[*types.Func]int
	globals      map[*types.Var]*c13Global
	heapSlots    map[types.Object]c13HeapSlot
	heapVars     map[c13HeapSlot]types.Object
	probing      int
}

type c13Decl struct {
	pk   *packages.Package
	decl *ast.FuncDecl
}

// c13Fr is the function whose code is being executed (root or inlined).
type c13Fr struct {
	pk     *packages.Package
	info   *types.Info
	fn     *types.Func
	depth  int
	parent *c13Fr
	res    *types.Tuple // result types of the function whose body runs in this frame
}

const (
	c13Next = iota
	c13Break
	c13Continue
	c13Return
)

type c13K func(st *c13State, ctl int, label string, vals []*c13Term)

func c13NewExec(p *core.Program, home *packages.Package) *c13Exec {
	x := &c13Exec{prog: p, fset: p.Fset, home: home, decls: map[*types.Func]*c13Decl{}, maxSteps: 2000000, pureMemo: map[*types.Func]int{}}
	x.objID = map[types.Object]int{}
	for _, pk := range p.All {
		for _, f := range pk.Syntax {
			for _, d := range f.Decls {
				if fd, ok := d.(*ast.FuncDecl); ok && fd.Body != nil {
					if obj, _ := pk.TypesInfo.Defs[fd.Name].(*types.Func); obj != nil {
						x.decls[obj] = &c13Decl{pk, fd}
					}
				}
			}
		}
	}
	return x
}

func (x *c13Exec) tick() bool {
	x.steps++
	if x.steps > x.maxSteps {
		if x.aborted == "" {
			x.aborted = fmt.Sprintf("evaluation budget of %d steps exceeded", x.maxSteps)
		}
		return false
	}
	if len(x.paths) > 20000 {
		if x.aborted == "" {
			x.aborted = "more than 20000 paths"
		}
		return false
	}
	return true
}

// unsupported ends the path: the construct at pos is outside the understood subset.
func (x *c13Exec) unsupported(st *c13State, pos token.Pos, format string, args ...interface{}) {
	msg := fmt.Sprintf("%s: %s", x.prog.Rel(pos), fmt.Sprintf(format, args...))
	st.unsup = append(st.unsup, msg)
	x.unsupAll = append(x.unsupAll, msg)
	x.paths = append(x.paths, &c13Path{st: st, kind: "unsupported", pos: pos})
}

// run executes fi on symbolic parameters.
func (x *c13Exec) run(fi *FuncInfo) (params map[types.Object]*c13Term) {
	st := &c13State{env: map[types.Object]*c13Term{}, pcIdx: map[string]bool{}, heap: map[int]*c13Cell{}}
	fr := &c13Fr{pk: fi.Pkg, info: fi.Pkg.TypesInfo, fn: fi.Obj, res: fi.Obj.Type().(*types.Signature).Results()}
	params = map[types.Object]*c13Term{}
	bind := func(fl *ast.FieldList) {
		if fl == nil {
			return
		}
		for _, f := range fl.List {
			for _, nm := range f.Names {
				if o := fr.info.Defs[nm]; o != nil {
					t := x.sym("param:"+nm.Name, o.Type())
					t.obj = o
					st.env[o] = t
					params[o] = t
				}
			}
		}
	}
	bind(fi.Decl.Recv)
	bind(fi.Decl.Type.Params)
	x.bindResults(st, fr, fi.Decl)
	x.block(st, fr, fi.Decl.Body.List, func(st *c13State, ctl int, label string, vals []*c13Term) {
		switch ctl {
		case c13Return:
			x.paths = append(x.paths, &c13Path{st: st, kind: "return", res: vals, pos: st.last})
		case c13Next:
			x.paths = append(x.paths, &c13Path{st: st, kind: "end", pos: fi.Decl.Body.Rbrace})
		default:
			x.unsupported(st, st.last, "break/continue outside a loop")
		}
	})
	return params
}

func (x *c13Exec) bindResults(st *c13State, fr *c13Fr, fd *ast.FuncDecl) {
	if fd.Type.Results == nil {
		return
	}
	for _, f := range fd.Type.Results.List {
		for _, nm := range f.Names {
			if o := fr.info.Defs[nm]; o != nil {
				st.env[o] = x.zero(o.Type())
			}
		}
	}
}

// ---- conditions -----------------------------------------------------------------------------------

// lookup decides an atom from the path condition (with the order axioms of integers) and the assumptions.
func (x *c13Exec) lookup(st *c13State, t *c13Term) (val, known bool) {
	if v, ok := st.pcIdx[t.key]; ok {
		return v, true
	}
	get := func(u *c13Term) (bool, bool) { v, ok := st.pcIdx[u.key]; return v, ok }
	switch t.op {
	case c13OpLt:
		a, b := t.args[0], t.args[1]
		ba, okBA := get(x.lt(b, a))
		e, okE := get(x.eq(a, b))
		switch {
		case okBA && ba, okE && e:
			return false, true
		case okBA && !ba && okE && !e:
			return true, true
		}
	case c13OpEq:
		a, b := t.args[0], t.args[1]
		if b.op == c13OpNil || a.op == c13OpNil {
			o := a
			if a.op == c13OpNil {
				o = b
			}
			if x.nonNil(st, o) {
				return false, true
			}
		}
		ab, okAB := get(x.lt(a, b))
		ba, okBA := get(x.lt(b, a))
		switch {
		case okAB && ab, okBA && ba:
			return false, true
		case okAB && !ab && okBA && !ba:
			return true, true
		}
	}
	return false, false
}

func (x *c13Exec) nonNil(st *c13State, t *c13Term) bool {
	switch t.op {
	case c13OpRef, c13OpAddr, c13OpAddrVar, c13OpLit, c13OpFuncLit, c13OpFuncRef, c13OpMake, c13OpTypedNil:
		return true
	case c13OpApp:
		return len(t.args) > 1
	case c13OpConst:
		return true
	}
	if v, ok := st.pcIdx[x.eq(t, c13NilTerm).key]; ok && !v {
		return true
	}
	return x.assumeNonNil != nil && x.assumeNonNil(t)
}

// branch continues with kT / kF according to the truth of atom (negated when neg), forking when undecided.
func (x *c13Exec) branch(st *c13State, atom *c13Term, neg bool, e ast.Expr, kT, kF func(*c13State)) {
	if b, ok := c13BoolOf(atom); ok {
		if b != neg {
			kT(st)
		} else {
			kF(st)
		}
		return
	}
	if v, known := x.lookup(st, atom); known {
		if v != neg {
			kT(st)
		} else {
			kF(st)
		}
		return
	}
	if !x.tick() {
		return
	}
	st2 := st.clone()
	st.addAtom(atom, true, e)
	st2.addAtom(atom, false, e)
	if !neg {
		kT(st)
		kF(st2)
	} else {
		kF(st)
		kT(st2)
	}
}

// compare turns `a op b` into a constant or an atom (with negation).
func (x *c13Exec) compare(st *c13State, op token.Token, a, b *c13Term) (atom *c13Term, neg bool) {
	ca, okA := c13ConstOf(a)
	cb, okB := c13ConstOf(b)
	if okA && okB && ca.Kind() != constant.Unknown && cb.Kind() != constant.Unknown {
		func() {
			defer func() {
				if recover() != nil {
					atom = nil
				}
			}()
			atom = c13Bool(constant.Compare(ca, op, cb))
		}()
		if atom != nil {
			return atom, false
		}
	}
	same := a.key == b.key
	switch op {
	case token.EQL, token.NEQ:
		res := (*c13Term)(nil)
		switch {
		case same:
			res = c13True
		case a.op == c13OpNil && x.nonNil(st, b), b.op == c13OpNil && x.nonNil(st, a):
			res = c13False
		}
		if res != nil {
			if op == token.NEQ {
				v, _ := c13BoolOf(res)
				return c13Bool(!v), false
			}
			return res, false
		}
		return x.eq(a, b), op == token.NEQ
	case token.LSS:
		if same {
			return c13False, false
		}
		return x.lt(a, b), false
	case token.GTR:
		if same {
			return c13False, false
		}
		return x.lt(b, a), false
	case token.LEQ:
		if same {
			return c13True, false
		}
		return x.lt(b, a), true
	case token.GEQ:
		if same {
			return c13True, false
		}
		return x.lt(a, b), true
	}
	return nil, false
}

// cond evaluates a boolean expression for control flow.
func (x *c13Exec) cond(st *c13State, fr *c13Fr, e ast.Expr, kT, kF func(*c13State)) {
	if !x.tick() {
		return
	}
	if tv, ok := fr.info.Types[e]; ok && tv.Value != nil && tv.Value.Kind() == constant.Bool {
		if constant.BoolVal(tv.Value) {
			kT(st)
		} else {
			kF(st)
		}
		return
	}
	switch v := e.(type) {
	case *ast.ParenExpr:
		x.cond(st, fr, v.X, kT, kF)
		return
	case *ast.UnaryExpr:
		if v.Op == token.NOT {
			x.cond(st, fr, v.X, kF, kT)
			return
		}
	case *ast.BinaryExpr:
		switch v.Op {
		case token.LAND:
			x.cond(st, fr, v.X, func(s *c13State) { x.cond(s, fr, v.Y, kT, kF) }, kF)
			return
		case token.LOR:
			x.cond(st, fr, v.X, kT, func(s *c13State) { x.cond(s, fr, v.Y, kT, kF) })
			return
		case token.EQL, token.NEQ, token.LSS, token.GTR, token.LEQ, token.GEQ:
			x.eval(st, fr, v.X, func(s *c13State, a *c13Term) {
				x.eval(s, fr, v.Y, func(s *c13State, b *c13Term) {
					atom, neg := x.compare(s, v.Op, a, b)
					if atom == nil {
						x.unsupported(s, v.Pos(), "comparison `%s`", src(x.fset, v))
						return
					}
					x.branch(s, atom, neg, e, kT, kF)
				})
			})
			return
		}
	}
	x.eval(st, fr, e, func(s *c13State, t *c13Term) { x.branch(s, t, false, e, kT, kF) })
}

// ---- expressions ------------------------------------------------------------------------------------

func c13IsBoolOp(e ast.Expr) bool {
	switch v := ast.Unparen(e).(type) {
	case *ast.UnaryExpr:
		return v.Op == token.NOT
	case *ast.BinaryExpr:
		switch v.Op {
		case token.LAND, token.LOR, token.EQL, token.NEQ, token.LSS, token.GTR, token.LEQ, token.GEQ:
			return true
		}
	}
	return false
}

// symFor is the symbol of a variable that is not bound on the path (package-level variable).
func (x *c13Exec) symFor(st *c13State, o types.Object) *c13Term {
	t := &c13Term{op: c13OpSym, name: "var:" + o.Name(), typ: o.Type(), obj: o, key: "var:" + x.oid(o)}
	return t
}

func (x *c13Exec) eval(st *c13State, fr *c13Fr, e ast.Expr, k func(*c13State, *c13Term)) {
	if !x.tick() {
		return
	}
	if tv, ok := fr.info.Types[e]; ok && tv.Value != nil {
		k(st, c13Const(tv.Value))
		return
	}
	if c13IsBoolOp(e) {
		x.cond(st, fr, e, func(s *c13State) { k(s, c13True) }, func(s *c13State) { k(s, c13False) })
		return
	}
	switch v := e.(type) {
	case *ast.ParenExpr:
		x.eval(st, fr, v.X, k)
	case *ast.Ident:
		switch o := objOf(fr.info, v).(type) {
		case *types.Nil:
			k(st, c13NilTerm)
		case *types.Var:
			if t, ok := st.env[o]; ok {
				k(st, t)
			} else if g := x.globalInit(o); g.init != nil {
				// a read-only package-level table: its initialiser is its value
				x.eval(st, &c13Fr{pk: g.pk, info: g.pk.TypesInfo, depth: fr.depth + 1, parent: fr}, g.init, k)
			} else {
				k(st, x.symFor(st, o))
			}
		case *types.Func:
			k(st, &c13Term{op: c13OpFuncRef, obj: o, key: "func " + x.oid(o)})
		default:
			x.unsupported(st, v.Pos(), "identifier `%s`", v.Name)
		}
	case *ast.SelectorExpr:
		x.evalSelector(st, fr, v, k)
	case *ast.StarExpr:
		x.eval(st, fr, v.X, func(s *c13State, a *c13Term) {
			if a.op == c13OpRef {
				if c := s.heap[a.id]; c != nil && !c.escaped {
					k(s, x.cellLit(c))
					return
				}
			}
			if a.op == c13OpAddrVar {
				if cur, ok := s.env[a.obj]; ok {
					k(s, cur)
					return
				}
			}
			k(s, x.deref(a))
		})
	case *ast.UnaryExpr:
		x.evalUnary(st, fr, v, k)
	case *ast.BinaryExpr:
		x.eval(st, fr, v.X, func(s *c13State, a *c13Term) {
			x.eval(s, fr, v.Y, func(s *c13State, b *c13Term) { k(s, x.arith(v.Op, a, b)) })
		})
	case *ast.CallExpr:
		x.evalCall(st, fr, v, func(s *c13State, vals []*c13Term) {
			if len(vals) != 1 {
				x.unsupported(s, v.Pos(), "call `%s` used as a single value yields %d values", src(x.fset, v), len(vals))
				return
			}
			k(s, vals[0])
		})
	case *ast.CompositeLit:
		x.evalLit(st, fr, v, k)
	case *ast.IndexExpr:
		x.eval(st, fr, v.X, func(s *c13State, a *c13Term) {
			x.eval(s, fr, v.Index, func(s *c13State, i *c13Term) { k(s, x.index(a, i)) })
		})
	case *ast.SliceExpr:
		x.eval(st, fr, v.X, func(s *c13State, base *c13Term) {
			opt := func(s *c13State, e ast.Expr, k2 func(*c13State, *c13Term)) {
				if e == nil {
					k2(s, c13None)
					return
				}
				x.eval(s, fr, e, k2)
			}
			opt(s, v.Low, func(s *c13State, lo *c13Term) {
				opt(s, v.High, func(s *c13State, hi *c13Term) {
					opt(s, v.Max, func(s *c13State, mx *c13Term) { k(s, x.sliceView(base, lo, hi, mx)) })
				})
			})
		})
	case *ast.FuncLit:
		k(st, &c13Term{op: c13OpFuncLit, node: v, key: fmt.Sprintf("funclit@%d", v.Pos())})
	case *ast.TypeAssertExpr:
		x.eval(st, fr, v.X, func(s *c13State, a *c13Term) {
			k(s, x.nary(c13OpOther, "assert", fr.info.TypeOf(v.Type), []*c13Term{a}))
		})
	default:
		x.unsupported(st, e.Pos(), "expression `%s`", src(x.fset, e))
	}
}

func (x *c13Exec) evalList(st *c13State, fr *c13Fr, es []ast.Expr, k func(*c13State, []*c13Term)) {
	var step func(s *c13State, i int, acc []*c13Term)
	step = func(s *c13State, i int, acc []*c13Term) {
		if i == len(es) {
			k(s, acc)
			return
		}
		x.eval(s, fr, es[i], func(s2 *c13State, t *c13Term) {
			step(s2, i+1, append(append([]*c13Term(nil), acc...), t))
		})
	}
	step(st, 0, nil)
}

func (x *c13Exec) arith(op token.Token, a, b *c13Term) *c13Term {
	ca, okA := c13ConstOf(a)
	cb, okB := c13ConstOf(b)
	if okA && okB {
		var out *c13Term
		func() {
			defer func() { _ = recover() }()
			if op == token.SHL || op == token.SHR {
				if n, ok := constant.Uint64Val(constant.ToInt(cb)); ok {
					out = c13Const(constant.Shift(ca, op, uint(n)))
				}
				return
			}
			out = c13Const(constant.BinaryOp(ca, op, cb))
		}()
		if out != nil && out.cv.Kind() != constant.Unknown {
			return out
		}
	}
	if (op == token.ADD || op == token.MUL || op == token.AND || op == token.OR || op == token.XOR) && b.key < a.key {
		a, b = b, a // commutative on numbers (string + is not, but strings are not compared by the rules)
	}
	return x.nary(c13OpBin, op.String(), nil, []*c13Term{a, b})
}

func (x *c13Exec) evalUnary(st *c13State, fr *c13Fr, v *ast.UnaryExpr, k func(*c13State, *c13Term)) {
	switch v.Op {
	case token.AND:
		inner := ast.Unparen(v.X)
		if cl, ok := inner.(*ast.CompositeLit); ok {
			x.evalLit(st, fr, cl, func(s *c13State, t *c13Term) {
				if t.op == c13OpLit && t.keys != nil {
					k(s, x.newCell(s, t))
					return
				}
				k(s, x.addr(t))
			})
			return
		}
		if id, ok := inner.(*ast.Ident); ok {
			if o, isVar := objOf(fr.info, id).(*types.Var); isVar && !o.IsField() {
				if _, bound := st.env[o]; bound {
					k(st, &c13Term{op: c13OpAddrVar, obj: o, key: "&var " + x.oid(o)})
					return
				}
			}
		}
		x.eval(st, fr, v.X, func(s *c13State, a *c13Term) { k(s, x.addr(a)) })
	case token.SUB, token.ADD, token.XOR:
		x.eval(st, fr, v.X, func(s *c13State, a *c13Term) {
			if c, ok := c13ConstOf(a); ok {
				k(s, c13Const(constant.UnaryOp(v.Op, c, 0)))
				return
			}
			k(s, x.nary(c13OpOther, "unary"+v.Op.String(), nil, []*c13Term{a}))
		})
	default:
		x.unsupported(st, v.Pos(), "operator %s", v.Op)
	}
}

// newCell allocates a fresh object holding the struct literal t and returns the pointer to it.
func (x *c13Exec) newCell(st *c13State, t *c13Term) *c13Term {
	x.nextCell++
	c := &c13Cell{typ: t.typ, fields: map[*types.Var]*c13Term{}}
	for i, f := range t.keys {
		c.fields[f] = t.args[i]
	}
	st.heap[x.nextCell] = c
	return x.ref(x.nextCell, t.typ)
}

// cellLit is the current content of an object as a struct literal term.
func (x *c13Exec) cellLit(c *c13Cell) *c13Term {
	var keys []*types.Var
	for f := range c.fields {
		keys = append(keys, f)
	}
	// deterministic order
	for i := 1; i < len(keys); i++ {
		for j := i; j > 0 && keys[j].Pos() < keys[j-1].Pos(); j-- {
			keys[j], keys[j-1] = keys[j-1], keys[j]
		}
	}
	args := make([]*c13Term, len(keys))
	for i, f := range keys {
		args[i] = c.fields[f]
	}
	if keys == nil {
		keys = []*types.Var{}
	}
	return x.lit(c.typ, keys, args)
}

// resolve replaces pointers to fresh objects whose content is known by &literal terms (content as of state st).
func (x *c13Exec) resolve(st *c13State, t *c13Term) *c13Term {
	return x.resolveD(st, t, 0)
}

func (x *c13Exec) resolveD(st *c13State, t *c13Term, d int) *c13Term {
	if t == nil || d > 12 {
		return t
	}
	if t.op == c13OpRef {
		c := st.heap[t.id]
		if c == nil || c.escaped {
			return t
		}
		return x.un(c13OpAddr, x.resolveD(st, x.cellLit(c), d+1))
	}
	if len(t.args) == 0 {
		return t
	}
	changed := false
	args := make([]*c13Term, len(t.args))
	for i, a := range t.args {
		args[i] = x.resolveD(st, a, d+1)
		if args[i] != a {
			changed = true
		}
	}
	if !changed {
		return t
	}
	switch t.op {
	case c13OpLit:
		return x.lit(t.typ, t.keys, args)
	case c13OpField:
		return x.field(args[0], t.obj.(*types.Var), t.ver)
	case c13OpAddr, c13OpDeref, c13OpLen, c13OpCap:
		return x.un(t.op, args[0])
	case c13OpIndex:
		return x.index(args[0], args[1])
	case c13OpCall:
		return x.call(t.obj.(*types.Func), args)
	case c13OpConv:
		return x.conv(t.typ, args[0])
	case c13OpEq:
		return x.eq(args[0], args[1])
	}
	return x.nary(t.op, t.name, t.typ, args)
}

// fieldOfTerm reads field f of base.
func (x *c13Exec) fieldOfTerm(st *c13State, base *c13Term, f *types.Var) *c13Term {
	switch base.op {
	case c13OpAddr:
		return x.fieldOfTerm(st, base.args[0], f)
	case c13OpAddrVar:
		if cur, ok := st.env[base.obj]; ok {
			return x.fieldOfTerm(st, cur, f)
		}
	case c13OpLit:
		if base.keys != nil {
			for i, kf := range base.keys {
				if kf == f {
					return base.args[i]
				}
			}
			return x.zero(f.Type())
		}
	case c13OpRef:
		c := st.heap[base.id]
		if c != nil && !c.escaped {
			if v, ok := c.fields[f]; ok {
				return v
			}
			return x.zero(f.Type())
		}
		ver := 0
		if c != nil {
			ver = c.ver
		}
		return x.field(base, f, ver)
	}
	// a field written earlier on this path through the same base reads back the written value
	for i := len(st.trace) - 1; i >= 0; i-- {
		ev := st.trace[i]
		if ev.kind == "store" && ev.lhs.op == c13OpField && ev.lhs.obj == f {
			if ev.lhs.args[0].key == base.key {
				return ev.val
			}
			return x.sym("read of "+f.Name()+" after a write through another pointer", f.Type())
		}
	}
	return x.field(base, f, 0)
}

func (x *c13Exec) evalSelector(st *c13State, fr *c13Fr, v *ast.SelectorExpr, k func(*c13State, *c13Term)) {
	if sel := fr.info.Selections[v]; sel != nil {
		switch sel.Kind() {
		case types.FieldVal:
			x.eval(st, fr, v.X, func(s *c13State, base *c13Term) {
				t := sel.Recv()
				for _, i := range sel.Index() {
					if p, ok := t.Underlying().(*types.Pointer); ok {
						t = p.Elem()
					}
					stt, ok := t.Underlying().(*types.Struct)
					if !ok {
						x.unsupported(s, v.Pos(), "selector `%s`", src(x.fset, v))
						return
					}
					f := stt.Field(i)
					base = x.fieldOfTerm(s, base, f)
					t = f.Type()
				}
				k(s, base)
			})
		default:
			x.eval(st, fr, v.X, func(s *c13State, base *c13Term) {
				k(s, x.nary(c13OpOther, "methodvalue "+v.Sel.Name, nil, []*c13Term{base}))
			})
		}
		return
	}
	// package-qualified identifier
	switch o := fr.info.Uses[v.Sel].(type) {
	case *types.Var:
		k(st, x.symFor(st, o))
	case *types.Func:
		k(st, &c13Term{op: c13OpFuncRef, obj: o, key: "func " + x.oid(o)})
	case *types.Nil:
		k(st, c13NilTerm)
	default:
		x.unsupported(st, v.Pos(), "selector `%s`", src(x.fset, v))
	}
}

func (x *c13Exec) evalLit(st *c13State, fr *c13Fr, cl *ast.CompositeLit, k func(*c13State, *c13Term)) {
	typ := fr.info.TypeOf(cl)
	if typ == nil {
		x.unsupported(st, cl.Pos(), "untyped composite literal")
		return
	}
	under := typ.Underlying()
	if p, ok := under.(*types.Pointer); ok { // elided &T in a slice of pointers
		under = p.Elem().Underlying()
	}
	switch u := under.(type) {
	case *types.Struct:
		var keys []*types.Var
		var vals []ast.Expr
		for i, el := range cl.Elts {
			if kv, ok := el.(*ast.KeyValueExpr); ok {
				f, _ := objOf(fr.info, kv.Key).(*types.Var)
				if f == nil {
					x.unsupported(st, el.Pos(), "literal key `%s`", src(x.fset, kv.Key))
					return
				}
				keys = append(keys, f)
				vals = append(vals, kv.Value)
			} else {
				if i >= u.NumFields() {
					x.unsupported(st, el.Pos(), "too many literal values")
					return
				}
				keys = append(keys, u.Field(i))
				vals = append(vals, el)
			}
		}
		if keys == nil {
			keys = []*types.Var{}
		}
		x.evalList(st, fr, vals, func(s *c13State, ts []*c13Term) {
			// drop explicit zero values: `Old: nil` is the same literal as no Old
			var ks []*types.Var
			var as []*c13Term
			for i, t := range ts {
				if t.key == x.zero(keys[i].Type()).key {
					continue
				}
				ks = append(ks, keys[i])
				as = append(as, t)
			}
			if ks == nil {
				ks = []*types.Var{}
			}
			lit := x.lit(typ, ks, as)
			if _, isPtr := typ.Underlying().(*types.Pointer); isPtr {
				k(s, x.newCell(s, x.lit(typ.Underlying().(*types.Pointer).Elem(), ks, as)))
				return
			}
			k(s, lit)
		})
	case *types.Slice, *types.Array:
		var vals []ast.Expr
		for _, el := range cl.Elts {
			if _, ok := el.(*ast.KeyValueExpr); ok {
				x.unsupported(st, el.Pos(), "keyed slice literal")
				return
			}
			vals = append(vals, el)
		}
		x.evalList(st, fr, vals, func(s *c13State, ts []*c13Term) { k(s, x.lit(typ, nil, ts)) })
	default:
		var vals []ast.Expr
		for _, el := range cl.Elts {
			if kv, ok := el.(*ast.KeyValueExpr); ok {
				vals = append(vals, kv.Key, kv.Value)
			} else {
				vals = append(vals, el)
			}
		}
		x.evalList(st, fr, vals, func(s *c13State, ts []*c13Term) { k(s, x.nary(c13OpOther, "maplit", typ, ts)) })
	}
}
