package rules

// c19_order.go — C19.M6: the binary search classifies a probed state by the order of its timestamp and the
// query time the way its result demands.
//
// What is inclusive is read off the code, not assumed: every success return reachable from the binary-search loop
// returns the upper bound hi (M2 "exhausted"), and the lower bound lo is never returned from there. So hi is the
// candidate answer ("first state at or after t": hi.Timestamp >= t must hold), lo is exclusive (a state that
// becomes lo can never be the answer: lo.Timestamp < t must hold, strictly). The loop touches timestamps only
// through comparisons, so there are three cases for a probed state s: s.Timestamp < t, == t, > t. For each of
// them the CFG is walked from the probe with every time comparison decided (After/Before/Equal/Compare in any
// spelling, negations, && / ||, inverted or swapped branches, switch forms, one-line predicate helpers) and the
// bound updates `lo = s` / `hi = s` that can be reached are collected:
//   s < t : s must become lo and must not become hi (a state written before t is not an answer);
//   s == t: s must become hi and must not become lo (it IS the first state at or after t; as lo it is lost);
//   s > t : s must become hi and must not become lo.
// A comparison of the two instants the walk cannot decide (another method, arithmetic on Unix times) makes the
// obligation undecided.

import (
	"fmt"
	"go/ast"
	"go/constant"
	"go/token"
	"go/types"

	"golang.org/x/tools/go/cfg"

	"osmcheck/core"
)

// c19TimeOps classifies the operands of time comparisons: 'S' (timestamp of the probed state), 'T' (query time).
type c19TimeOps struct {
	m     *c19Model
	fi    *FuncInfo
	tVar  types.Object
	sVars map[types.Object]bool
	tsFld *types.Var
}

func (o *c19TimeOps) class(e ast.Expr, subst map[types.Object]ast.Expr, depth int) byte {
	info := o.m.info
	e = ast.Unparen(e)
	if depth > 6 {
		return 0
	}
	switch x := e.(type) {
	case *ast.Ident:
		obj := objOf(info, x)
		if obj == nil {
			return 0
		}
		if a, ok := subst[obj]; ok {
			return o.class(a, nil, depth+1)
		}
		if obj == o.tVar {
			return 'T'
		}
		if n, def, _ := c19Writes(info, o.fi.Decl.Body, obj); n == 1 && def != nil {
			return o.class(def, nil, depth+1)
		}
	case *ast.SelectorExpr:
		if fieldOf(info, x) == o.tsFld {
			root := c19Target(info, ast.Unparen(x.X))
			if a, ok := subst[root]; ok && root != nil {
				root = c19Target(info, ast.Unparen(a))
			}
			if root != nil && o.sVars[root] {
				return 'S'
			}
		}
	case *ast.CallExpr:
		// the same instant in another location
		if fn := callee(info, x); fn != nil && c19IsTimeMethod(fn) {
			switch fn.Name() {
			case "UTC", "Local", "In":
				if sel, ok := ast.Unparen(x.Fun).(*ast.SelectorExpr); ok {
					return o.class(sel.X, subst, depth+1)
				}
			}
		}
	}
	return 0
}

func c19IsTimeMethod(fn *types.Func) bool {
	recv := fn.Type().(*types.Signature).Recv()
	return recv != nil && namedPath(recv.Type()) == "time.Time"
}

// sign returns sign(a-b) under ord = sign(S-T), ok=false when an operand is neither S nor T.
func (o *c19TimeOps) sign(a, b ast.Expr, subst map[types.Object]ast.Expr, ord int) (int, bool) {
	ca, cb := o.class(a, subst, 0), o.class(b, subst, 0)
	switch {
	case ca == 0 || cb == 0:
		return 0, false
	case ca == cb:
		return 0, true
	case ca == 'S':
		return ord, true
	}
	return -ord, true
}

func c19TriOf(b bool) tri {
	if b {
		return triT
	}
	return triF
}

// atom decides one atomic condition under the ordering; nilAtom decides the nil tests.
func (o *c19TimeOps) atom(ord int, nilAtom func(ast.Expr) tri) func(ast.Expr) tri {
	info := o.m.info
	var at func(e ast.Expr, subst map[types.Object]ast.Expr, depth int) tri
	at = func(e ast.Expr, subst map[types.Object]ast.Expr, depth int) tri {
		e = ast.Unparen(e)
		if call, ok := e.(*ast.CallExpr); ok {
			fn := callee(info, call)
			if fn != nil && c19IsTimeMethod(fn) && len(call.Args) == 1 {
				if sel, ok := ast.Unparen(call.Fun).(*ast.SelectorExpr); ok {
					if s, ok := o.sign(sel.X, call.Args[0], subst, ord); ok {
						switch fn.Name() {
						case "After":
							return c19TriOf(s > 0)
						case "Before":
							return c19TriOf(s < 0)
						case "Equal":
							return c19TriOf(s == 0)
						}
					}
				}
				return triU
			}
			// a one-line predicate of the package
			if fn != nil && depth < 2 {
				if g := o.m.funcs[fn]; g != nil {
					if body := singleReturnExpr(g); body != nil {
						s2 := map[types.Object]ast.Expr{}
						sig := fn.Type().(*types.Signature)
						for i := 0; i < sig.Params().Len() && i < len(call.Args); i++ {
							a := call.Args[i]
							if ao := objOf(info, a); ao != nil && subst[ao] != nil {
								a = subst[ao]
							}
							s2[sig.Params().At(i)] = a
						}
						return evalTri(body, func(x ast.Expr) tri { return at(x, s2, depth+1) })
					}
				}
			}
			return triU
		}
		if be, ok := e.(*ast.BinaryExpr); ok {
			// a.Compare(b) <op> k
			x, y, op := be.X, be.Y, be.Op
			if _, isConst := constInt(info, x); isConst {
				x, y = y, x
				op = map[token.Token]token.Token{token.LSS: token.GTR, token.GTR: token.LSS, token.LEQ: token.GEQ, token.GEQ: token.LEQ, token.EQL: token.EQL, token.NEQ: token.NEQ}[op]
			}
			if call, ok := ast.Unparen(x).(*ast.CallExpr); ok && len(call.Args) == 1 {
				if fn := callee(info, call); fn != nil && c19IsTimeMethod(fn) && fn.Name() == "Compare" {
					k, isConst := constInt(info, y)
					sel, isSel := ast.Unparen(call.Fun).(*ast.SelectorExpr)
					isCmp := op == token.LSS || op == token.GTR || op == token.LEQ || op == token.GEQ || op == token.EQL || op == token.NEQ
					if isConst && isSel && isCmp {
						if s, ok := o.sign(sel.X, call.Args[0], subst, ord); ok {
							return c19TriOf(constant.Compare(constant.MakeInt64(int64(s)), op, constant.MakeInt64(k)))
						}
					}
					return triU
				}
			}
		}
		if nilAtom != nil {
			return nilAtom(e)
		}
		return triU
	}
	return func(e ast.Expr) tri { return at(e, nil, 0) }
}

// mentionsTime: the condition reads the query time or a state timestamp.
func (o *c19TimeOps) mentionsTime(e ast.Expr) bool {
	return usesObj(o.m.info, e, o.tVar) || usesField(o.m.info, e, o.tsFld)
}

func c19M6(r *core.R) {
	m := c19BuildModel(r)
	if m == nil {
		return
	}
	info := m.info
	fs := r.P.Fset
	var tsFld *types.Var
	st := m.stateT.Underlying().(*types.Struct)
	for i := 0; i < st.NumFields(); i++ {
		if namedPath(st.Field(i).Type()) == "time.Time" {
			if tsFld != nil {
				r.Anchor("the single time.Time field of replication.State")
				return
			}
			tsFld = st.Field(i)
		}
	}
	if tsFld == nil {
		r.Anchor("the time.Time field of replication.State")
		return
	}
	nloops := 0
	for _, fi := range m.reachList {
		for _, l := range c19CollectLoops(fi) {
			outer, ok := l.stmt.(*ast.ForStmt)
			if !ok {
				continue
			}
			lo, hi, _ := m.bounds(fi, c19LoopStayFacts(outer))
			if lo == nil {
				continue
			}
			probeP, _ := m.probeOf(&c19Frame{fi: fi}, outer)
			if probeP == nil {
				continue
			}
			nloops++
			fname := fi.Name()
			cLo, cHi := "order@"+fname+" lower", "order@"+fname+" upper"
			par := parentsOf(r.P, fi)
			// the states this iteration probes (the middle and what the scans find), and their copies
			vars := map[types.Object]bool{}
			if v := m.resultVar(par, probeP.site); v != nil {
				vars[v] = true
			}
			var scans []*c19Scan
			var odd []string
			m.findScans(&c19Frame{fi: fi}, outer.Body, nil, 0, &scans, &odd)
			for _, s := range scans {
				if v := m.resultVar(par, s.site); v != nil {
					vars[v] = true
				}
			}
			vars = c19Copies(info, fi.Decl.Body, vars)
			var tVar types.Object
			nT := 0
			sig := fi.Obj.Type().(*types.Signature)
			for i := 0; i < sig.Params().Len(); i++ {
				if namedPath(sig.Params().At(i).Type()) == "time.Time" {
					tVar = sig.Params().At(i)
					nT++
				}
			}
			g := m.graph(fi)
			blk, idx := blockOf(g.g, probeP.site.Pos())
			if nT != 1 || len(vars) == 0 || blk == nil {
				r.Unknown(cLo, outer.Pos(), "%s has %d time.Time parameters / the probe of the middle is not assigned to a variable: the query time or the probed state is not identified", fname, nT)
				r.Unknown(cHi, outer.Pos(), "see %s", cLo)
				continue
			}
			// premise, read off the code: every success return reachable from the loop gives the upper bound, so hi is
			// the candidate answer and lo is exclusive
			if head, _ := m.loopBlocks(g.g, outer); head != nil {
				var other *ast.ReturnStmt
				for b := range reachableFrom([]*cfg.Block{head}, nil) {
					for _, n := range b.Nodes {
						if ret, ok := n.(*ast.ReturnStmt); ok && len(ret.Results) > 0 && !info.Types[ret.Results[0]].IsNil() && !m.returnsBound(fi, ret.Results[0], hi) {
							if other == nil || ret.Pos() < other.Pos() {
								other = ret
							}
						}
					}
				}
				if other != nil {
					r.Unknown(cLo, other.Pos(), "`%s` is reachable from the binary-search loop: not every result is the upper bound %s, so which bound is inclusive is not decided here (see M2 exhausted)", src(fs, other), hi.Name())
					r.Unknown(cHi, other.Pos(), "see %s", cLo)
					continue
				}
			}
			var res [3]c19Outcome
			for k, ord := range []int{-1, 0, +1} {
				m.classifyWalk(fi, blk, idx, vars, tVar, tsFld, lo, hi, ord, &res[k], 0)
			}
			names := []string{"before", "exactly at", "after"}
			rel := []string{"<", "==", ">"}
			// lower: only a state strictly before t may become the exclusive lower bound
			func() {
				for k := range res {
					if res[k].undecided != nil {
						r.Unknown(cLo, res[k].undecided.Pos(), "`%s` compares the probed state's %s with the query time %s in a way the walk does not decide (accepted: After / Before / Equal / Compare … 0 of time.Time on the two, negations, && / ||, one-line predicates)", src(fs, res[k].undecided), tsFld.Name(), tVar.Name())
						return
					}
				}
				for _, k := range []int{1, 2} {
					if n := res[k].lo; n != nil {
						why := fmt.Sprintf("a state written after %s is skipped", tVar.Name())
						if k == 1 {
							why = fmt.Sprintf("that state IS the first state at or after %s, but %s is never returned by the search (every return gives %s): the lookup answers with the next state after it", tVar.Name(), lo.Name(), hi.Name())
						}
						r.Bad(cLo, n.Pos(), "with the probed state written %s the query time (%s %s %s) the search reaches `%s`: the state becomes the exclusive lower bound; %s", names[k], tsFld.Name(), rel[k], tVar.Name(), src(fs, n), why)
						return
					}
				}
				if res[0].lo == nil {
					r.Bad(cLo, outer.Pos(), "with the probed state written before the query time no `%s = <probed state>` is reached: the lower bound never moves up", lo.Name())
					return
				}
				r.OK(cLo, res[0].lo.Pos(), "`%s` is reached with %s < %s and neither with == nor with > (CFG walk with every comparison of the two instants decided): only states written strictly before the query time become the exclusive lower bound", src(fs, res[0].lo), tsFld.Name(), tVar.Name())
			}()
			// upper: a state at or after t becomes the candidate answer, a state before t never
			func() {
				for k := range res {
					if res[k].undecided != nil {
						r.Unknown(cHi, res[k].undecided.Pos(), "see %s", cLo)
						return
					}
				}
				if n := res[0].hi; n != nil {
					r.Bad(cHi, n.Pos(), "with the probed state written before the query time (%s < %s) the search reaches `%s`: a state before %s becomes the candidate answer %s, which every return of the search gives back", tsFld.Name(), tVar.Name(), src(fs, n), tVar.Name(), hi.Name())
					return
				}
				for _, k := range []int{1, 2} {
					if res[k].hi == nil {
						r.Bad(cHi, outer.Pos(), "with the probed state written %s the query time (%s %s %s) no `%s = <probed state>` is reached: the state cannot become the answer", names[k], tsFld.Name(), rel[k], tVar.Name(), hi.Name())
						return
					}
				}
				r.OK(cHi, res[1].hi.Pos(), "`%s` is reached with %s == %s and with >, not with <: the upper bound, which is what the search returns, is always a state at or after the query time", src(fs, res[1].hi), tsFld.Name(), tVar.Name())
			}()
		}
	}
	c19M6Roles(r, m, tsFld)
	r.Stat("binary_search_loops_classified", nloops)
	if nloops == 0 {
		r.Anchor("binary-search loop (a `for` over lo.SeqNum < hi.SeqNum that obtains one probed state per iteration, by a fetch of its own or through a probe helper)")
	}
}

// aboutProbed: the condition compares the query time with something derived from a probed state (directly, or
// through a local defined from it).
func (o *c19TimeOps) aboutProbed(e ast.Expr) bool {
	info := o.m.info
	if !usesObj(info, e, o.tVar) {
		return false
	}
	for _, v := range c19VarsIn(info, e) {
		if o.sVars[v] {
			return true
		}
		if n, def, _ := c19Writes(info, o.fi.Decl.Body, v); n == 1 && def != nil {
			for _, w := range c19VarsIn(info, def) {
				if o.sVars[w] {
					return true
				}
			}
		}
	}
	return false
}

// c19TimestampField returns the single time.Time field of replication.State.
func (m *c19Model) timestampField() *types.Var {
	var f *types.Var
	st := m.stateT.Underlying().(*types.Struct)
	for i := 0; i < st.NumFields(); i++ {
		if namedPath(st.Field(i).Type()) == "time.Time" {
			if f != nil {
				return nil
			}
			f = st.Field(i)
		}
	}
	return f
}
