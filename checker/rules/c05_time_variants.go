package rules

import "osmcheck/core"

// Mutants and behaviour-preserving variants for C05.J8 (times in JSON keep their sub-second part).

const c05DateMarshalTail = "\treturn marshalJSON(d.Time)\n}\n"

var c05TimeMutants = []core.Mutant{
	{Name: "j8-date-formatted-rfc3339", File: "note.go", Find: c05DateMarshalTail, Replace: "\treturn marshalJSON(d.Format(time.RFC3339))\n}\n", ExpectRule: "J8", ExpectConstruct: "time@Date.MarshalJSON"},
	{Name: "j8-date-layout-through-named-constant", File: "note.go", Find: c05DateMarshalTail, Replace: "\tconst jsonDateLayout = time.RFC3339\n\ttext := d.Time.Format(jsonDateLayout)\n\treturn marshalJSON(text)\n}\n", ExpectRule: "J8", ExpectConstruct: "time@Date.MarshalJSON"},
	{Name: "j8-date-utc-seconds-literal-layout", File: "note.go", Find: c05DateMarshalTail, Replace: "\treturn marshalJSON(d.UTC().Format(\"2006-01-02T15:04:05Z\"))\n}\n", ExpectRule: "J8", ExpectConstruct: "time@Date.MarshalJSON"},
	{Name: "j8-date-truncated-to-seconds", File: "note.go", Find: c05DateMarshalTail, Replace: "\treturn marshalJSON(d.Truncate(time.Second))\n}\n", ExpectRule: "J8", ExpectConstruct: "time@Date.MarshalJSON"},
	{Name: "j8-date-rounded-in-helper", File: "note.go", Find: c05DateMarshalTail, Replace: "\treturn marshalJSON(jsonTime(d.Time))\n}\n\nfunc jsonTime(t time.Time) time.Time {\n\treturn t.UTC().Round(time.Millisecond)\n}\n", ExpectRule: "J8", ExpectConstruct: "time@Date.MarshalJSON"},
	{Name: "j8-reader-parses-other-layout", File: "note.go", Find: c05DateMarshalTail,
		Replace:    "\treturn marshalJSON(d.Format(time.RFC3339Nano))\n}\n\n// UnmarshalJSON reads the date back.\nfunc (d *Date) UnmarshalJSON(b []byte) error {\n\tvar s string\n\tif err := unmarshalJSON(b, &s); err != nil {\n\t\treturn err\n\t}\n\tt, err := time.Parse(dateLayout, s)\n\td.Time = t\n\treturn err\n}\n",
		ExpectRule: "J8", ExpectConstruct: "time@Date.MarshalJSON"},
	{Name: "j8-own-reader-same-layout-without-fraction", File: "note.go", Find: c05DateMarshalTail,
		Replace:    "\treturn marshalJSON(d.Format(time.RFC3339))\n}\n\n// UnmarshalJSON reads the date back.\nfunc (d *Date) UnmarshalJSON(b []byte) error {\n\tvar s string\n\tif err := unmarshalJSON(b, &s); err != nil {\n\t\treturn err\n\t}\n\tt, err := time.Parse(time.RFC3339, s)\n\td.Time = t\n\treturn err\n}\n",
		ExpectRule: "J8", ExpectConstruct: "time@Date.MarshalJSON"},
}

// c05TimeBenign: the codec still gets the value's own time.
var c05TimeBenign = []core.Mutant{
	{Name: "j8-time-through-local", File: "note.go", Find: c05DateMarshalTail, Replace: "\tt := d.Time\n\treturn marshalJSON(t)\n}\n"},
	{Name: "j8-time-through-helper-method", File: "note.go", Find: c05DateMarshalTail, Replace: "\treturn marshalJSON(d.instant())\n}\n\nfunc (d Date) instant() time.Time {\n\treturn d.Time\n}\n"},
	{Name: "j8-zero-branch-inverted-switch", File: "note.go", Find: "\tif d.IsZero() {\n\t\treturn []byte(`null`), nil\n\t}\n\treturn marshalJSON(d.Time)\n", Replace: "\tswitch zero := d.Time.IsZero(); {\n\tcase !zero:\n\t\treturn marshalJSON(d.Time)\n\tdefault:\n\t\treturn []byte(`null`), nil\n\t}\n"},
}
