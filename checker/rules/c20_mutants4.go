package rules

import "osmcheck/core"

// c20Mutants4: lossy renderings of numeric arguments (arg-fidelity@).
func c20Mutants4() []core.Mutant {
	return []core.Mutant{
		{Name: "user-id-rendered-through-float64", File: "osmapi/user.go",
			Find:    `fmt.Sprintf("%s/user/%d", ds.baseURL(), id)`,
			Replace: `fmt.Sprintf("%s/user/%.0f", ds.baseURL(), float64(id))`, ExpectRule: "H4", ExpectConstruct: "arg-fidelity@(*Datasource).User id via-float64"},
		{Name: "nodeversion-version-rendered-through-float32", File: "osmapi/node.go",
			Find:    `fmt.Sprintf("%s/node/%d/%d", ds.baseURL(), id, v)`,
			Replace: `fmt.Sprintf("%s/node/%d/%.0f", ds.baseURL(), id, float32(v))`, ExpectRule: "H4", ExpectConstruct: "arg-fidelity@(*Datasource).NodeVersion version"},
		{Name: "map-bbox-two-decimals", File: "osmapi/map.go",
			Find: `	url := fmt.Sprintf("%s/map?bbox=%f,%f,%f,%f&%s", ds.baseURL(),
		bounds.MinLon, bounds.MinLat,
		bounds.MaxLon, bounds.MaxLat,
		params)
`,
			Replace: `	url := fmt.Sprintf("%s/map?bbox=%.2f,%.2f,%.2f,%.2f&%s", ds.baseURL(),
		bounds.MinLon, bounds.MinLat,
		bounds.MaxLon, bounds.MaxLat,
		params)
`, ExpectRule: "H4", ExpectConstruct: "arg-fidelity@(*Datasource).Map bounds 2-decimals"},
		{Name: "notes-bbox-formatfloat-five-decimals-float32", File: "osmapi/note.go",
			Find: `	params = append(params, fmt.Sprintf("bbox=%f,%f,%f,%f",
		bounds.MinLon, bounds.MinLat,
		bounds.MaxLon, bounds.MaxLat))
`,
			Replace: `	edge := func(v float64) string { return fmt.Sprintf("%g", float32(v)) }
	params = append(params, "bbox="+edge(bounds.MinLon)+","+edge(bounds.MinLat)+","+edge(bounds.MaxLon)+","+edge(bounds.MaxLat))
`, ExpectRule: "H4", ExpectConstruct: "arg-fidelity@(*Datasource).Notes bounds float32"},
	}
}
