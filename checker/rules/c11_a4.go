package rules

// C11.A4 — child lists are version-sorted before VersionIndex is assigned; list index == VersionIndex; and
// C11.A5 refs@ — Refs() and SetChild address the same member list. Decided on interpreter paths.
//
// A "builder" is a function of package annotate that allocates a core.ChildList with make(core.ChildList, len(X)):
// it is found by that role, not by name, so renaming a conversion helper, merging the three conversions or
// inlining one into a Get method keeps the obligations (they are keyed on the osm source type of X).

import (
	"go/ast"
	"go/token"
	"go/types"
	"sort"
	"strconv"
	"strings"

	"golang.org/x/tools/go/packages"

	"osmcheck/core"
)

type c11Builder struct {
	fi   *FuncInfo
	mk   *ast.CallExpr
	src  ast.Expr     // X of len(X)
	srcT *types.Named // osm.Nodes / osm.Ways / osm.Relations
	pos  token.Pos
}

func c11LenArg(info *types.Info, e ast.Expr) ast.Expr {
	call, ok := ast.Unparen(e).(*ast.CallExpr)
	if !ok || builtinName(info, call) != "len" || len(call.Args) != 1 {
		return nil
	}
	return call.Args[0]
}

func c11FindBuilders(apk *packages.Package) []*c11Builder {
	var out []*c11Builder
	info := apk.TypesInfo
	for _, fi := range allFuncs(apk) {
		fi := fi
		inspectNoLit(fi.Decl.Body, func(n ast.Node) bool {
			call, ok := n.(*ast.CallExpr)
			if !ok || builtinName(info, call) != "make" || len(call.Args) < 2 || namedPath(info.TypeOf(call)) != c11CorePath+".ChildList" {
				return true
			}
			x := c11LenArg(info, call.Args[1])
			if x == nil {
				return true
			}
			nt, _ := info.TypeOf(x).(*types.Named)
			if nt == nil || nt.Obj().Pkg() == nil || nt.Obj().Pkg().Path() != core.ModulePath {
				return true
			}
			out = append(out, &c11Builder{fi: fi, mk: call, src: x, srcT: nt, pos: call.Pos()})
			return true
		})
	}
	// conversions by signature: func(osm.Nodes|Ways|Relations) core.ChildList, however the list is allocated
	// (directly, or by a generic helper that takes the length and a callback producing the i-th child)
	have := map[*types.Func]bool{}
	for _, b := range out {
		have[b.fi.Obj] = true
	}
	for _, fi := range allFuncs(apk) {
		sig := fi.Obj.Type().(*types.Signature)
		if have[fi.Obj] || sig.Recv() != nil || sig.Params().Len() != 1 || sig.Results().Len() != 1 || namedPath(sig.Results().At(0).Type()) != c11CorePath+".ChildList" {
			continue
		}
		nt, ok := sig.Params().At(0).Type().(*types.Named)
		if !ok || nt.Obj().Pkg() == nil || nt.Obj().Pkg().Path() != core.ModulePath {
			continue
		}
		if _, ok := nt.Underlying().(*types.Slice); !ok {
			continue
		}
		out = append(out, &c11Builder{fi: fi, srcT: nt, pos: fi.Decl.Pos()})
	}
	return out
}

func c11A4(r *core.R) {
	apk := r.P.Pkg("annotate")
	if apk == nil {
		r.Anchor("package annotate")
		return
	}
	builders := c11FindBuilders(apk)
	if len(builders) == 0 {
		r.Anchor("functions of package annotate building a core.ChildList from osm.Nodes/Ways/Relations (make(core.ChildList, len(X)))")
		return
	}
	isBuilder := map[*types.Func]bool{}
	for _, b := range builders {
		isBuilder[b.fi.Obj] = true
	}
	newIt := func() *c11Interp {
		it := c11NewInterp(apk)
		it.inline = func(fn *types.Func) bool { return !fn.Exported() && !isBuilder[fn] }
		return it
	}
	srcTypes := map[string]bool{}
	for _, b := range builders {
		srcTypes[b.srcT.Obj().Name()] = true
		c11A4Builder(r, newIt(), b)
	}
	c11A4Gets(r, apk, newIt, isBuilder)
	var names []string
	for n := range srcTypes {
		names = append(names, n)
	}
	sort.Strings(names)
	for _, n := range names {
		c11A4Order(r, n)
	}
}

func c11A4Builder(r *core.R, it *c11Interp, b *c11Builder) {
	fi := b.fi
	tn := b.srcT.Obj().Name()
	paths := c11AllPaths(it, fi, nil)
	c11Dump(r, fi.Name(), paths)
	const consequence = "VersionIndex i would not be the position of the i-th lowest version, so Compute's window child[k] (k from VersionIndex+1 up to the next parent's version) would skip or repeat child versions"
	cs, ci := "sorted@"+tn, "index@"+tn
	if notes := c11PathNotes(it, paths); len(notes) > 0 {
		r.Unknown(cs, fi.Decl.Pos(), "%s could not be followed on every path: %s", fi.Name(), strings.Join(notes, "; "))
		r.Unknown(ci, fi.Decl.Pos(), "%s could not be followed on every path", fi.Name())
		return
	}
	mkName := "" // the allocation site, when the builder allocates the list itself
	if b.mk != nil {
		mkName = "make@" + strconv.Itoa(int(b.mk.Pos()))
	}
	isList := func(v *c11V) bool {
		if v.k != "call" || !strings.HasPrefix(v.name, "make@") {
			return false
		}
		if mkName != "" {
			return v.name == mkName
		}
		return v.typ != nil && namedPath(v.typ) == c11CorePath+".ChildList"
	}
	// the list term, its source and the fill loop
	var L, X, key *c11V // key: the position symbol of the fill loop (range key, or the variable of a counting loop over the whole list)
	fill := ""
	for _, p := range paths {
		for _, ev := range p.st.ev {
			if ev.kind == "store" && ev.lhs.k == "index" && isList(ev.lhs.xs[0]) {
				L = ev.lhs.xs[0]
				if len(L.xs) >= 1 {
					if lk, ok := c11IsPosition(paths, p.st, ev.lhs.xs[1], L.xs[0]); ok {
						fill, key = lk, ev.lhs.xs[1]
					}
				}
			}
		}
	}
	if L != nil && len(L.xs) >= 1 && L.xs[0].k == "call" && L.xs[0].name == "len" {
		X = L.xs[0].xs[0]
	}
	// append-built list (`list = append(list, c)` once per iteration, from an empty list): the position of a
	// child in the list is the position of its iteration
	var acc *c11V // the symbol of the accumulated list at the head of an iteration
	if L == nil {
		for _, p := range paths {
			for _, ev := range p.st.ev {
				if ev.kind != "call" || ev.call.name != "append" || len(ev.call.xs) != 2 || ev.call.typ == nil || namedPath(ev.call.typ) != c11CorePath+".ChildList" {
					continue
				}
				lk, ok := c11IsLoopSym(ev.call.xs[0])
				if !ok {
					continue
				}
				if C := ev.call.xs[1]; C.k == "call" && len(C.xs) == 1 && C.xs[0].k == "index" {
					if lk2, ok := c11IsPosition(paths, p.st, C.xs[0].xs[1], &c11V{k: "call", name: "len", xs: []*c11V{C.xs[0].xs[0]}}); ok && lk2 == lk {
						acc, fill, key, X = ev.call.xs[0], lk, C.xs[0].xs[1], C.xs[0].xs[0]
						L = acc
					}
				}
			}
		}
	}
	if L == nil || X == nil || fill == "" {
		r.Bad(cs, b.pos, "no loop stores into the list %s allocates at its loop position: %s", fi.Name(), consequence)
		r.Bad(ci, b.pos, "no loop over the history assigns list[i]")
		return
	}
	elemIsWay := false
	if sl, ok := b.srcT.Underlying().(*types.Slice); ok && namedPath(sl.Elem()) == core.ModulePath+".Way" {
		elemIsWay = true
	}
	var sortBad, idxBad, revBad []string
	nIter, nRev := 0, 0
	nSkip := 0
	pos := b.pos
	for _, p := range paths {
		st := p.st
		// position of the fill loop among the events
		loopAt := -1
		for i, ev := range st.ev {
			if ev.kind == "loop" && ev.key == fill {
				loopAt = i
				pos = ev.node.Pos()
			}
		}
		if loopAt >= 0 {
			sorted := false
			for _, ev := range st.ev[:loopAt] {
				if ev.kind == "call" {
					if rv, _, ok := ev.call.isMethodCall(namedPath(b.srcT), "SortByIDVersion"); ok && rv.key() == X.key() {
						sorted = true
					}
				}
			}
			if !sorted {
				// a fast path that skips the sort after checking that the history already is strictly ascending
				if es := c11ElemStruct(b.srcT); es != nil && c11AscendingChecked(paths, st, X, loopAt, es) {
					sorted = true
					nSkip++
				}
			}
			if !sorted {
				sortBad = append(sortBad, "the loop that assigns VersionIndex is entered on a path where the history it was sized from has not been sorted with SortByIDVersion before (the sort is missing, runs after or inside the loop, or sorts another slice): a datasource may return the history in any order")
			}
		}
		if acc != nil && loopAt >= 0 {
			if pre := st.ev[loopAt].pre[acc.obj]; pre == nil || !(pre.k == "nil" || (pre.k == "call" && strings.HasPrefix(pre.name, "make@") && len(pre.xs) >= 1 && pre.xs[0].isConstInt(0))) {
				idxBad = append(idxBad, "the appended-to list is not empty before the loop: list index and iteration position would differ")
			}
		}
		if p.ctl == c11Return && len(p.res) >= 1 && p.res[0].k != "nil" {
			switch {
			case p.res[0].key() != L.key():
				if p.res[0].k == "call" && strings.HasPrefix(p.res[0].name, "make@") {
					idxBad = append(idxBad, "a different list than the one filled is returned")
				}
			case loopAt < 0:
				idxBad = append(idxBad, "the list is returned on a path that never ran the fill loop")
			default:
				for _, ev := range st.ev {
					if ev.kind == "break" && ev.key == fill {
						idxBad = append(idxBad, "the fill loop can be left early (break): later list slots would stay nil")
					}
				}
			}
		}
		if p.ctl != c11Back || p.loopKey != fill {
			continue
		}
		nIter++
		elem := &c11V{k: "index", xs: []*c11V{X, key}}
		var C *c11V
		nStore := 0
		for _, ev := range st.ev[loopAt+1:] {
			if acc == nil && ev.kind == "store" && ev.lhs.k == "index" && ev.lhs.xs[0].key() == L.key() {
				nStore++
				if ev.lhs.xs[1].key() != key.key() {
					idxBad = append(idxBad, "`"+src(r.P.Fset, ev.node)+"`: the child of position i must be stored at list index i")
				}
				C = ev.rhs
			}
			if acc != nil && ev.kind == "call" && ev.call.name == "append" && len(ev.call.xs) == 2 && ev.call.xs[0].key() == acc.key() {
				nStore++
				C = ev.call.xs[1]
			}
		}
		if acc != nil && C != nil {
			if end := st.env[acc.obj]; end == nil || end.k != "call" || end.name != "append" || len(end.xs) != 2 || end.xs[0].key() != acc.key() || end.xs[1].key() != C.key() {
				idxBad = append(idxBad, "an iteration does not end with the list extended by exactly its child")
			}
		}
		if nStore != 1 || C == nil {
			idxBad = append(idxBad, "an iteration over the history can end without storing its child into the list (or stores several): some versions would be skipped and list slots left nil")
			continue
		}
		okFrom := false
		if C.k == "call" && !C.recv && C.fn != nil && C.fn.Pkg() != nil && C.fn.Pkg().Path() == c11SharedPath && C.fn.Exported() && strings.HasPrefix(C.fn.Name(), "From") && len(C.xs) == 1 && C.xs[0].key() == elem.key() {
			okFrom = true
		}
		if !okFrom {
			idxBad = append(idxBad, "the child stored at list index i is "+c11Trunc(C.key())+", not shared.From…(<history>[i]) of the element at the same position")
		}
		nVI := 0
		gotRev := false
		for _, ev := range st.ev[loopAt+1:] {
			if ev.kind == "store" && ev.lhs.k == "field" && ev.lhs.xs[0].key() == C.key() {
				switch ev.lhs.obj.Name() {
				case "VersionIndex":
					nVI++
					atEnd := acc != nil && ev.rhs.k == "call" && ev.rhs.name == "len" && len(ev.rhs.xs) == 1 && ev.rhs.xs[0].key() == acc.key() // len(list) before the append
					if ev.rhs.key() != key.key() && !atEnd {
						idxBad = append(idxBad, "`"+src(r.P.Fset, ev.node)+"`: VersionIndex must be the loop position i (Compute indexes child[VersionIndex+1...])")
					}
				case "ReverseOfPrevious":
					// the flag is IsReverse(<history>[i], <history>[i-1]) for every index > 0 and false (set or left
					// untouched) for the first version, however the guard is spelled (if, &&, a flag variable)
					positive := c11IntPositive(st, key, ev.nas)
					if f, isConst := ev.rhs.constBool(); isConst {
						if f || positive != c11F {
							revBad = append(revBad, "`"+src(r.P.Fset, ev.node)+"` sets ReverseOfPrevious to the constant "+ev.rhs.key()+" on a path that has not decided i == 0: for every later version the flag must be IsReverse(<history>[i], <history>[i-1])")
						}
						continue
					}
					nRev++
					gotRev = true
					okArgs := false
					if args, ok := ev.rhs.isFuncCall(c11AnnPath, "IsReverse"); ok && len(args) == 2 {
						prev := &c11V{k: "index", xs: []*c11V{X, c11Bin(token.SUB, key, c11Int(1))}}
						okArgs = (args[0].key() == elem.key() && args[1].key() == prev.key()) || (args[1].key() == elem.key() && args[0].key() == prev.key())
					}
					if !okArgs {
						revBad = append(revBad, "`"+src(r.P.Fset, ev.node)+"`: ReverseOfPrevious must be IsReverse(<history>[i], <history>[i-1]), the comparison with the previous version in the sorted history")
					} else if positive != c11T {
						revBad = append(revBad, "`"+src(r.P.Fset, ev.node)+"` is reached on a path that has not decided i != 0: <history>[i-1] indexes before the first version")
					}
				}
			}
		}
		if elemIsWay && !gotRev && c11IntPositive(st, key, -1) == c11T {
			revBad = append(revBad, "an iteration with i > 0 can end without computing ReverseOfPrevious: updates of way members lose their Reverse flag")
		}
		if nVI != 1 {
			idxBad = append(idxBad, "an iteration can end without assigning the child's VersionIndex (or assigns it several times)")
		}
	}
	switch {
	case len(sortBad) > 0:
		r.Bad(cs, pos, "%s; %s", strings.Join(c11Uniq(sortBad), "; "), consequence)
	default:
		r.OK(cs, pos, "on every path, %s.SortByIDVersion() on the history the list was sized from precedes the loop that assigns VersionIndex — or (%d paths) a completed check that every adjacent pair is strictly ascending by (ID, Version) (in %s)", tn, nSkip, fi.Name())
	}
	switch {
	case nIter == 0:
		r.Bad(ci, pos, "no iteration of the fill loop completes")
	case len(idxBad) > 0:
		r.Bad(ci, pos, "%s; ChildList index and VersionIndex would disagree, which Compute relies on when it indexes child[k] from cur.VersionIndex+1", strings.Join(c11Uniq(idxBad), "; "))
	default:
		r.OK(ci, pos, "every iteration i of the fill loop stores c = shared.From…(<history>[i]) with c.VersionIndex = i at list[i] (no element skipped, no early exit); the filled list is what is returned (in %s)", fi.Name())
	}
	if !elemIsWay {
		return
	}
	cr := "reverse@" + tn
	passForm := false
	if nRev == 0 && acc == nil {
		// the flag may be computed in a later pass over the built list (c11_rev2.go)
		n2, bad2 := c11ReversePass(r, paths, L, X, fill)
		nRev += n2
		revBad = append(revBad, bad2...)
		passForm = n2 > 0
	}
	switch {
	case len(revBad) > 0:
		r.Bad(cr, pos, "%s", strings.Join(c11Uniq(revBad), "; "))
	case nRev == 0:
		r.Bad(cr, pos, "ReverseOfPrevious is never computed for way children: updates of way members lose their Reverse flag")
	case passForm:
		r.OK(cr, pos, "a pass over every position i >= 1 of the built list, run on every path that returns it, stores list[i].ReverseOfPrevious = IsReverse(<history>[i], <history>[i-1])")
	default:
		r.OK(cr, pos, "ReverseOfPrevious = IsReverse(<history>[i], <history>[i-1]) only on paths that decided i != 0")
	}
}

func c11Trunc(s string) string {
	s = strings.ReplaceAll(s, core.ModulePath, "osm")
	if len(s) > 160 {
		return s[:157] + "..."
	}
	return s
}

// c11IntPositive: what the path (its first upto assumptions) has decided about the integer position i > 0,
// whatever the spelling: i != 0, i > 0, 0 < i, !(i < 1), !(i == 0), i >= 1.
func c11IntPositive(st *c11St, i *c11V, upto int) c11Tri {
	if t := st.truthAt(c11Bin(token.NEQ, i, c11Int(0)), upto, nil); t != c11U {
		return t
	}
	if t := st.truthAt(c11Bin(token.LSS, c11Int(0), i), upto, nil); t != c11U {
		return t
	}
	return c11TriNot(st.truthAt(c11Bin(token.LSS, i, c11Int(1)), upto, nil))
}

// c11ElemStruct: the struct behind the elements of an osm history type (osm.Nodes -> osm.Node).
func c11ElemStruct(nt *types.Named) *types.Struct {
	sl, ok := nt.Underlying().(*types.Slice)
	if !ok {
		return nil
	}
	t := sl.Elem()
	if p, ok := t.(*types.Pointer); ok {
		t = p.Elem()
	}
	st, _ := t.Underlying().(*types.Struct)
	return st
}
