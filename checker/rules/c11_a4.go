package rules

// C11.A4 — child lists are version-sorted before VersionIndex is assigned; list index == VersionIndex; and
// C11.A5 refs@ — Refs() and SetChild address the same member list. Decided on interpreter paths.
//
// A "builder" is a function of package annotate that allocates a core.ChildList with make(core.ChildList, len(X)):
// it is found by that role, not by name, so renaming a conversion helper, merging the three conversions or
// inlining one into a Get method keeps the obligations (they are keyed on the osm source type of X).

import (
	"go/ast"
	"go/token"
	"go/types"
	"sort"
	"strconv"
	"strings"

	"golang.org/x/tools/go/packages"

	"osmcheck/core"
)

type c11Builder struct {
	fi   *FuncInfo
	mk   *ast.CallExpr
	src  ast.Expr     // X of len(X)
	srcT *types.Named // osm.Nodes / osm.Ways / osm.Relations
}

func c11LenArg(info *types.Info, e ast.Expr) ast.Expr {
	call, ok := ast.Unparen(e).(*ast.CallExpr)
	if !ok || builtinName(info, call) != "len" || len(call.Args) != 1 {
		return nil
	}
	return call.Args[0]
}

func c11FindBuilders(apk *packages.Package) []*c11Builder {
	var out []*c11Builder
	info := apk.TypesInfo
	for _, fi := range allFuncs(apk) {
		fi := fi
		inspectNoLit(fi.Decl.Body, func(n ast.Node) bool {
			call, ok := n.(*ast.CallExpr)
			if !ok || builtinName(info, call) != "make" || len(call.Args) < 2 || namedPath(info.TypeOf(call)) != c11CorePath+".ChildList" {
				return true
			}
			x := c11LenArg(info, call.Args[1])
			if x == nil {
				return true
			}
			nt, _ := info.TypeOf(x).(*types.Named)
			if nt == nil || nt.Obj().Pkg() == nil || nt.Obj().Pkg().Path() != core.ModulePath {
				return true
			}
			out = append(out, &c11Builder{fi: fi, mk: call, src: x, srcT: nt})
			return true
		})
	}
	return out
}

func c11A4(r *core.R) {
	apk := r.P.Pkg("annotate")
	if apk == nil {
		r.Anchor("package annotate")
		return
	}
	builders := c11FindBuilders(apk)
	if len(builders) == 0 {
		r.Anchor("functions of package annotate building a core.ChildList from osm.Nodes/Ways/Relations (make(core.ChildList, len(X)))")
		return
	}
	isBuilder := map[*types.Func]bool{}
	for _, b := range builders {
		isBuilder[b.fi.Obj] = true
	}
	newIt := func() *c11Interp {
		it := c11NewInterp(apk)
		it.inline = func(fn *types.Func) bool { return !fn.Exported() && !isBuilder[fn] }
		return it
	}
	srcTypes := map[string]bool{}
	for _, b := range builders {
		srcTypes[b.srcT.Obj().Name()] = true
		c11A4Builder(r, newIt(), b)
	}
	c11A4Gets(r, apk, newIt, isBuilder)
	var names []string
	for n := range srcTypes {
		names = append(names, n)
	}
	sort.Strings(names)
	for _, n := range names {
		c11A4Order(r, n)
	}
}

func c11A4Builder(r *core.R, it *c11Interp, b *c11Builder) {
	fi := b.fi
	tn := b.srcT.Obj().Name()
	paths := c11AllPaths(it, fi, nil)
	c11Dump(r, fi.Name(), paths)
	const consequence = "VersionIndex i would not be the position of the i-th lowest version, so Compute's window child[k] (k from VersionIndex+1 up to the next parent's version) would skip or repeat child versions"
	cs, ci := "sorted@"+tn, "index@"+tn
	if notes := c11PathNotes(it, paths); len(notes) > 0 {
		r.Unknown(cs, fi.Decl.Pos(), "%s could not be followed on every path: %s", fi.Name(), strings.Join(notes, "; "))
		r.Unknown(ci, fi.Decl.Pos(), "%s could not be followed on every path", fi.Name())
		return
	}
	mkName := "make@" + strconv.Itoa(int(b.mk.Pos()))
	// the list term, its source and the fill loop
	var L, X *c11V
	fill := ""
	for _, p := range paths {
		for _, ev := range p.st.ev {
			if ev.kind == "store" && ev.lhs.k == "index" && ev.lhs.xs[0].k == "call" && ev.lhs.xs[0].name == mkName {
				L = ev.lhs.xs[0]
				if lk, ok := c11IsIterKey(ev.lhs.xs[1]); ok {
					fill = lk
				}
			}
		}
	}
	if L != nil && len(L.xs) >= 1 && L.xs[0].k == "call" && L.xs[0].name == "len" {
		X = L.xs[0].xs[0]
	}
	if L == nil || X == nil || fill == "" {
		r.Bad(cs, b.mk.Pos(), "no loop stores into the list %s allocates at its loop position: %s", fi.Name(), consequence)
		r.Bad(ci, b.mk.Pos(), "no loop over the history assigns list[i]")
		return
	}
	elemIsWay := false
	if sl, ok := b.srcT.Underlying().(*types.Slice); ok && namedPath(sl.Elem()) == core.ModulePath+".Way" {
		elemIsWay = true
	}
	var sortBad, idxBad, revBad []string
	nIter, nRev := 0, 0
	pos := b.mk.Pos()
	for _, p := range paths {
		st := p.st
		// position of the fill loop among the events
		loopAt := -1
		for i, ev := range st.ev {
			if ev.kind == "loop" && ev.key == fill {
				loopAt = i
				pos = ev.node.Pos()
			}
		}
		if loopAt >= 0 {
			sorted := false
			for _, ev := range st.ev[:loopAt] {
				if ev.kind == "call" {
					if rv, _, ok := ev.call.isMethodCall(namedPath(b.srcT), "SortByIDVersion"); ok && rv.key() == X.key() {
						sorted = true
					}
				}
			}
			if !sorted {
				sortBad = append(sortBad, "the loop that assigns VersionIndex is entered on a path where the history it was sized from has not been sorted with SortByIDVersion before (the sort is missing, runs after or inside the loop, or sorts another slice): a datasource may return the history in any order")
			}
		}
		if p.ctl == c11Return && len(p.res) >= 1 && p.res[0].k != "nil" {
			switch {
			case p.res[0].key() != L.key():
				if p.res[0].k == "call" && strings.HasPrefix(p.res[0].name, "make@") {
					idxBad = append(idxBad, "a different list than the one filled is returned")
				}
			case loopAt < 0:
				idxBad = append(idxBad, "the list is returned on a path that never ran the fill loop")
			default:
				for _, ev := range st.ev {
					if ev.kind == "break" && ev.key == fill {
						idxBad = append(idxBad, "the fill loop can be left early (break): later list slots would stay nil")
					}
				}
			}
		}
		if p.ctl != c11Back || p.loopKey != fill {
			continue
		}
		nIter++
		key := c11Sym("iter@"+fill+":key", nil)
		elem := &c11V{k: "index", xs: []*c11V{X, key}}
		var C *c11V
		nStore := 0
		for _, ev := range st.ev[loopAt+1:] {
			if ev.kind == "store" && ev.lhs.k == "index" && ev.lhs.xs[0].key() == L.key() {
				nStore++
				if ev.lhs.xs[1].key() != key.key() {
					idxBad = append(idxBad, "`"+src(r.P.Fset, ev.node)+"`: the child of position i must be stored at list index i")
				}
				C = ev.rhs
			}
		}
		if nStore != 1 || C == nil {
			idxBad = append(idxBad, "an iteration over the history can end without storing its child into the list (or stores several): some versions would be skipped and list slots left nil")
			continue
		}
		okFrom := false
		if C.k == "call" && !C.recv && C.fn != nil && C.fn.Pkg() != nil && C.fn.Pkg().Path() == c11SharedPath && C.fn.Exported() && strings.HasPrefix(C.fn.Name(), "From") && len(C.xs) == 1 && C.xs[0].key() == elem.key() {
			okFrom = true
		}
		if !okFrom {
			idxBad = append(idxBad, "the child stored at list index i is "+c11Trunc(C.key())+", not shared.From…(<history>[i]) of the element at the same position")
		}
		nVI := 0
		for _, ev := range st.ev[loopAt+1:] {
			if ev.kind == "store" && ev.lhs.k == "field" && ev.lhs.xs[0].key() == C.key() {
				switch ev.lhs.obj.Name() {
				case "VersionIndex":
					nVI++
					if ev.rhs.key() != key.key() {
						idxBad = append(idxBad, "`"+src(r.P.Fset, ev.node)+"`: VersionIndex must be the loop position i (Compute indexes child[VersionIndex+1...])")
					}
				case "ReverseOfPrevious":
					nRev++
					okArgs := false
					if args, ok := ev.rhs.isFuncCall(c11AnnPath, "IsReverse"); ok && len(args) == 2 {
						prev := &c11V{k: "index", xs: []*c11V{X, c11Bin(token.SUB, key, c11Int(1))}}
						okArgs = (args[0].key() == elem.key() && args[1].key() == prev.key()) || (args[1].key() == elem.key() && args[0].key() == prev.key())
					}
					if !okArgs {
						revBad = append(revBad, "`"+src(r.P.Fset, ev.node)+"`: ReverseOfPrevious must be IsReverse(<history>[i], <history>[i-1]), the comparison with the previous version in the sorted history")
					} else if st.truthAt(c11Bin(token.NEQ, key, c11Int(0)), ev.nas, nil) != c11T && st.truthAt(c11Bin(token.LSS, c11Int(0), key), ev.nas, nil) != c11T &&
						st.truthAt(c11Bin(token.LSS, key, c11Int(1)), ev.nas, nil) != c11F { // the key of a range loop is an int: !(i < 1) is i != 0
						revBad = append(revBad, "`"+src(r.P.Fset, ev.node)+"` is reached on a path that has not decided i != 0: <history>[i-1] indexes before the first version")
					}
				}
			}
		}
		if nVI != 1 {
			idxBad = append(idxBad, "an iteration can end without assigning the child's VersionIndex (or assigns it several times)")
		}
	}
	switch {
	case len(sortBad) > 0:
		r.Bad(cs, pos, "%s; %s", strings.Join(c11Uniq(sortBad), "; "), consequence)
	default:
		r.OK(cs, pos, "on every path, %s.SortByIDVersion() on the history the list was sized from precedes the loop that assigns VersionIndex (in %s)", tn, fi.Name())
	}
	switch {
	case nIter == 0:
		r.Bad(ci, pos, "no iteration of the fill loop completes")
	case len(idxBad) > 0:
		r.Bad(ci, pos, "%s; ChildList index and VersionIndex would disagree, which Compute relies on when it indexes child[k] from cur.VersionIndex+1", strings.Join(c11Uniq(idxBad), "; "))
	default:
		r.OK(ci, pos, "every iteration i of the fill loop stores c = shared.From…(<history>[i]) with c.VersionIndex = i at list[i] (no element skipped, no early exit); the filled list is what is returned (in %s)", fi.Name())
	}
	if !elemIsWay {
		return
	}
	cr := "reverse@" + tn
	switch {
	case len(revBad) > 0:
		r.Bad(cr, pos, "%s", strings.Join(c11Uniq(revBad), "; "))
	case nRev == 0:
		r.Bad(cr, pos, "ReverseOfPrevious is never computed for way children: updates of way members lose their Reverse flag")
	default:
		r.OK(cr, pos, "ReverseOfPrevious = IsReverse(<history>[i], <history>[i-1]) only on paths that decided i != 0")
	}
}

func c11Trunc(s string) string {
	s = strings.ReplaceAll(s, core.ModulePath, "osm")
	if len(s) > 160 {
		return s[:157] + "..."
	}
	return s
}

// c11A4Gets: every ChildList a Datasourcer.Get of package annotate returns is nil, the result of a builder, or
// directly the user's AsChildren result.
func c11A4Gets(r *core.R, apk *packages.Package, newIt func() *c11Interp, isBuilder map[*types.Func]bool) {
	cpk := r.P.Pkg("annotate/internal/core")
	var iface *types.Interface
	if cpk != nil {
		if o := cpk.Types.Scope().Lookup("Datasourcer"); o != nil {
			iface, _ = o.Type().Underlying().(*types.Interface)
		}
	}
	if iface == nil {
		r.Anchor("core.Datasourcer")
		return
	}
	n := 0
	for _, fi := range allFuncs(apk) {
		sig := fi.Obj.Type().(*types.Signature)
		if sig.Recv() == nil || fi.Obj.Name() != "Get" || !types.Implements(sig.Recv().Type(), iface) {
			continue
		}
		n++
		c := "get@" + fi.Name()
		it := newIt()
		outs, _ := it.run(fi, nil)
		if notes := c11PathNotes(it, outs); len(notes) > 0 {
			r.Unknown(c, fi.Decl.Pos(), "%s could not be followed on every path: %s", fi.Name(), strings.Join(notes, "; "))
			continue
		}
		var via, user, own, bad []string
		for _, o := range outs {
			if o.ctl != c11Return || len(o.res) == 0 {
				continue
			}
			v := o.res[0]
			if v.k == "res" && v.id == 0 {
				v = v.xs[0]
			}
			switch {
			case v.k == "nil":
			case v.k == "call" && v.fn != nil && isBuilder[v.fn]:
				via = append(via, v.fn.Name())
			case v.k == "call" && v.fn != nil && v.recv && types.IsInterface(v.fn.Type().(*types.Signature).Recv().Type()):
				user = append(user, v.fn.Name())
			case v.k == "call" && strings.HasPrefix(v.name, "make@") && isBuilder[fi.Obj]:
				own = append(own, "a list it builds itself")
			default:
				bad = append(bad, "`"+src(r.P.Fset, o.ret)+"` ("+c11Trunc(v.key())+")")
			}
		}
		switch {
		case len(bad) > 0:
			r.Unknown(c, fi.Decl.Pos(), "%s returns a child list that is neither built by a checked list builder nor the user's AsChildren result: %s", fi.Name(), strings.Join(c11Uniq(bad), ", "))
		case len(via)+len(own) > 0:
			r.OK(c, fi.Decl.Pos(), "every returned list comes from %s", strings.Join(c11Uniq(append(via, own...)), ", "))
		default:
			r.OKTrivial(c, fi.Decl.Pos(), "returns the user datasource's %s unchanged (trusted: version-sorted, VersionIndex == position)", strings.Join(c11Uniq(user), ", "))
		}
	}
	if n == 0 {
		r.Anchor("Get methods of package annotate implementing core.Datasourcer")
	}
}

// c11SortAdapter resolves the adapter type handed to sort.Sort / sort.Stable by fi or an unexported helper it calls.
func c11SortAdapter(pk *packages.Package, fi *FuncInfo) *types.Named {
	var res *types.Named
	inspectDeep(pk, fi, 2, func(site deepSite, n ast.Node) bool {
		call, ok := n.(*ast.CallExpr)
		if !ok {
			return true
		}
		fn := callee(pk.TypesInfo, call)
		if (isPkgFunc(fn, "sort", "Sort") || isPkgFunc(fn, "sort", "Stable")) && len(call.Args) == 1 {
			t := pk.TypesInfo.TypeOf(call.Args[0])
			if p, ok := t.(*types.Pointer); ok {
				t = p.Elem()
			}
			if nt, ok := t.(*types.Named); ok {
				res = nt
			}
		}
		return true
	})
	return res
}

// c11A4Order: the comparator behind osm.<T>.SortByIDVersion orders by ascending ID, equal ids by strictly
// ascending Version. Finite-domain evaluation: for each of the 3x3 relations between (ID_i, ID_j) and
// (Version_i, Version_j) the comparator is executed with an oracle deciding its comparisons; the value it
// returns must be `ID_i < ID_j || (ID_i == ID_j && Version_i < Version_j)`.
func c11A4Order(r *core.R, tname string) {
	pk := r.P.Pkg("")
	info := pk.TypesInfo
	c := "order@" + tname + ".SortByIDVersion"
	sfi := findFunc(pk, tname+".SortByIDVersion")
	if sfi == nil {
		r.Anchor("osm." + tname + ".SortByIDVersion")
		return
	}
	ad := c11SortAdapter(pk, sfi)
	if ad == nil {
		r.Anchor("sort.Sort(adapter) in osm." + tname + ".SortByIDVersion")
		return
	}
	lf := findFunc(pk, ad.Obj().Name()+".Less")
	if lf == nil || lf.Decl.Body == nil {
		r.Anchor(ad.Obj().Name() + ".Less")
		return
	}
	recvO := c11RecvObj(info, lf.Decl)
	sig := lf.Obj.Type().(*types.Signature)
	if recvO == nil || sig.Params().Len() != 2 || sig.Params().At(0).Name() == "_" || sig.Params().At(1).Name() == "_" {
		r.Unknown(c, lf.Decl.Pos(), "Less without named receiver / two named parameters")
		return
	}
	bad, unk := c11LessTable(pk, lf, recvO, []string{"ID", "Version"})
	switch {
	case len(bad) > 0:
		r.Bad(c, lf.Decl.Pos(), "%s.Less: %s; it must be ID_i < ID_j || (ID_i == ID_j && Version_i < Version_j): versions of one element must be ordered by strictly ascending Version, otherwise VersionIndex does not count versions from lowest to highest", ad.Obj().Name(), strings.Join(bad, "; "))
	case len(unk) > 0:
		r.Unknown(c, lf.Decl.Pos(), "%s.Less: %s", ad.Obj().Name(), strings.Join(c11Uniq(unk), "; "))
	default:
		r.OK(c, lf.Decl.Pos(), "%s.Less evaluated on all 9 relations of (ID, Version): true exactly when ID_i < ID_j or ID_i == ID_j && Version_i < Version_j", ad.Obj().Name())
	}
}

// c11LessTable evaluates the comparator lf (method Less(i, j) of a sort adapter with receiver recvO) on every
// combination of relations (lt, eq, gt) between the i-side and the j-side of the given element fields and
// compares the value it returns with the strict lexicographic order over those fields. Comparisons of a
// field are recognised as terms: x.F < y.F, x.F == y.F (any spelling that normalises to them) and, for
// time.Time fields, x.F.Before(y.F), x.F.After(y.F), x.F.Equal(y.F). bad: the table differs; unk: the
// comparator tests something else / does not reduce to one decided path.
func c11LessTable(pk *packages.Package, lf *FuncInfo, recvO types.Object, fields []string) (bad, unk []string) {
	sig := lf.Obj.Type().(*types.Signature)
	recv, pi, pj := c11Param(recvO), c11Param(sig.Params().At(0)), c11Param(sig.Params().At(1))
	side := func(v *c11V) (string, string) {
		v = c11StripPtr(v)
		if v.k != "field" || v.xs[0].k != "index" || v.xs[0].xs[0].key() != recv.key() {
			return "", ""
		}
		switch v.xs[0].xs[1].key() {
		case pi.key():
			return "i", v.obj.Name()
		case pj.key():
			return "j", v.obj.Name()
		}
		return "", ""
	}
	flip := map[string]string{"lt": "gt", "gt": "lt", "eq": "eq"}
	var combos []map[string]string
	var gen func(n int, cur map[string]string)
	gen = func(n int, cur map[string]string) {
		if n == len(fields) {
			m := map[string]string{}
			for k, v := range cur {
				m[k] = v
			}
			combos = append(combos, m)
			return
		}
		for _, rl := range []string{"lt", "eq", "gt"} {
			cur[fields[n]] = rl
			gen(n+1, cur)
		}
	}
	gen(0, map[string]string{})
	for _, rel := range combos {
		rel := rel
		oracle := func(st *c11St, v *c11V) c11Tri {
			var a, b *c11V
			want := ""
			switch {
			case v.k == "bin" && v.op == token.LSS:
				a, b, want = v.xs[0], v.xs[1], "lt"
			case v.k == "bin" && v.op == token.EQL:
				a, b, want = v.xs[0], v.xs[1], "eq"
			case v.k == "call" && v.recv && v.fn != nil && len(v.xs) == 2 && namedPath(v.fn.Type().(*types.Signature).Recv().Type()) == "time.Time":
				a, b = v.xs[0], v.xs[1]
				want = map[string]string{"Before": "lt", "After": "gt", "Equal": "eq"}[v.fn.Name()]
			}
			if want == "" {
				return c11U
			}
			sa, fa := side(a)
			sb, fb := side(b)
			if sa == "" || sb == "" || fa != fb || sa == sb || rel[fa] == "" {
				return c11U
			}
			rl := rel[fa] // relation of the i side to the j side
			if sa == "j" {
				rl = flip[rl]
			}
			if rl == want {
				return c11T
			}
			return c11F
		}
		expect := false
		for _, f := range fields {
			if rel[f] == "lt" {
				expect = true
			}
			if rel[f] != "eq" {
				break
			}
		}
		var desc []string
		for _, f := range fields {
			desc = append(desc, f+"_i "+rel[f]+" "+f+"_j")
		}
		it := c11NewInterp(pk)
		it.oracle = oracle
		outs, _ := it.run(lf, nil)
		if len(c11PathNotes(it, outs)) > 0 || len(outs) != 1 || len(outs[0].res) != 1 {
			unk = append(unk, "for "+strings.Join(desc, ", ")+" the comparator does not reduce to one decided path (it tests something other than comparisons of these fields of the two elements)")
			continue
		}
		got := outs[0].st.truthAt(outs[0].res[0], -1, func(v *c11V) c11Tri { return oracle(outs[0].st, v) })
		switch {
		case got == c11U:
			unk = append(unk, "for "+strings.Join(desc, ", ")+" the returned value "+c11Trunc(outs[0].res[0].key())+" is not decided by the field relations")
		case (got == c11T) != expect:
			bad = append(bad, "for "+strings.Join(desc, ", ")+" Less(i, j) is "+map[bool]string{true: "true", false: "false"}[got == c11T])
		}
	}
	return bad, unk
}

// c11A5Refs: Refs() and SetChild of every Parent implementation address the same member list at the same positions.
func c11A5Refs(r *core.R) {
	apk := r.P.Pkg("annotate")
	impls := c11ParentImpls(r.P)
	if apk == nil || len(impls) == 0 {
		r.Anchor("types of package annotate implementing core.Parent")
		return
	}
	info := apk.TypesInfo
	self := c11Sym("receiver", nil)
	for _, nt := range impls {
		tn := nt.Obj().Name()
		rf, sf := findFunc(apk, tn+".Refs"), findFunc(apk, tn+".SetChild")
		if rf == nil || sf == nil || rf.Decl.Body == nil || sf.Decl.Body == nil {
			r.Anchor(tn + ".Refs / SetChild")
			continue
		}
		c := "refs@" + rf.Name()
		sRecv, rRecv := c11RecvObj(info, sf.Decl), c11RecvObj(info, rf.Decl)
		if sRecv == nil || rRecv == nil {
			r.Unknown(c, rf.Decl.Pos(), "unnamed receivers")
			continue
		}
		// the list SetChild writes into
		its := c11NewInterp(apk)
		var setList *c11V
		for _, p := range c11AllPaths(its, sf, map[types.Object]*c11V{sRecv: self}) {
			for _, ev := range p.st.ev {
				if ev.kind == "store" && ev.lhs.k == "field" && ev.lhs.xs[0].k == "index" && c11FieldOwnedBy(r.P, ev.lhs.obj.(*types.Var), "WayNode", "Member") != nil {
					setList = ev.lhs.xs[0].xs[0]
				}
			}
		}
		itr := c11NewInterp(apk)
		paths := c11AllPaths(itr, rf, map[types.Object]*c11V{rRecv: self})
		if notes := c11PathNotes(itr, paths); len(notes) > 0 || setList == nil {
			r.Unknown(c, rf.Decl.Pos(), "Refs / SetChild of %s could not be followed (%s); accepted: Refs fills ids[i] = <members>[i].FeatureID(), annotated[i] = <members>[i].Version != 0 and returns them; SetChild writes <members>[idx].F", tn, strings.Join(notes, "; "))
			continue
		}
		lenL := &c11V{k: "call", name: "len", xs: []*c11V{setList}}
		var ids, ann *c11V
		var bad []string
		for _, p := range paths {
			if p.ctl != c11Return {
				continue
			}
			if len(p.res) != 2 {
				bad = append(bad, "Refs does not return two values")
				continue
			}
			for n, v := range p.res {
				if !(v.k == "call" && strings.HasPrefix(v.name, "make@") && len(v.xs) >= 1 && v.xs[0].key() == lenL.key()) {
					bad = append(bad, "result "+strconv.Itoa(n)+" of Refs is not a slice made with len(<the list SetChild indexes>): positions reported to Compute and positions annotated would differ")
				}
			}
			ids, ann = p.res[0], p.res[1]
		}
		nIter := 0
		if ids != nil && ann != nil && len(bad) == 0 {
			for _, p := range paths {
				if p.ctl != c11Back {
					continue
				}
				key := c11Sym("iter@"+p.loopKey+":key", nil)
				elem := &c11V{k: "index", xs: []*c11V{setList, key}}
				okIDs, okAnn := false, false
				for _, ev := range p.st.ev {
					if ev.kind != "store" || ev.lhs.k != "index" || ev.lhs.xs[1].key() != key.key() {
						continue
					}
					switch ev.lhs.xs[0].key() {
					case ids.key():
						if v := ev.rhs; v.k == "call" && v.recv && v.fn != nil && v.fn.Name() == "FeatureID" && len(v.xs) == 1 && c11StripPtr(v.xs[0]).key() == elem.key() {
							okIDs = true
						}
					case ann.key():
						if v := ev.rhs; v.k == "not" && v.xs[0].k == "bin" && v.xs[0].op == token.EQL {
							a, b := v.xs[0].xs[0], v.xs[0].xs[1]
							if a.isConstInt(0) {
								a, b = b, a
							}
							if b.isConstInt(0) && a.k == "field" && a.obj.Name() == "Version" && a.xs[0].key() == elem.key() {
								okAnn = true
							}
						}
					}
				}
				if !okIDs && !okAnn {
					continue // another loop
				}
				nIter++
				if !okIDs {
					bad = append(bad, "an iteration does not store ids[i] = <members>[i].FeatureID(): the history fetched for position i would belong to another child than the one SetChild(i, …) annotates")
				}
				if !okAnn {
					bad = append(bad, "an iteration does not store annotated[i] = <members>[i].Version != 0: the ChildFilter could suppress the annotation of a child that has none yet")
				}
			}
			if nIter == 0 {
				bad = append(bad, "no loop fills ids[i] / annotated[i] from the element at position i of the list SetChild indexes")
			}
		}
		if len(bad) > 0 {
			r.Bad(c, rf.Decl.Pos(), "%s", strings.Join(c11Uniq(bad), "; "))
		} else {
			r.OK(c, rf.Decl.Pos(), "both results are made with len(L) and every iteration stores ids[i] = L[i].FeatureID(), annotated[i] = L[i].Version != 0 for L = %s, the list SetChild writes at L[idx]: same list, same positions", strings.ReplaceAll(setList.key(), "$receiver", "<receiver>"))
		}
	}
}
