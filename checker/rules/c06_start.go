package rules

import (
	"go/ast"

	"go/token"
	"go/types"
	"golang.org/x/tools/go/cfg"
	"sort"
	"strings"

	"osmcheck/core"
)

// C06.E15 — a failed start is sticky: the scan does not wait on a pipeline that was never started.
//
// When the spawner returns an error (the first block cannot be read, is truncated, needs an unsupported feature ...)
// no goroutine of the pipeline exists. A consumer-side call that then receives from the pipeline's queue blocks
// forever: the damaged stream ends in a hang instead of an error. The rule finds every place the spawner's error
// result is stored (fields of the Scanner, directly or through a helper that returns it) and every consumer-side call
// of a method of the decoder that receives from a channel; at each such call, the branch conditions on the way must
// establish, for EVERY field that can hold the spawner's error, that it is nil. Which field the public Err method
// reports is E8's business; this rule is about not calling into the pipeline.
func c06E15(r *core.R) {
	m := c01PBFModel(r)
	if m == nil {
		return
	}
	info := m.info
	fs := r.P.Fset
	// functions whose result is the spawner's error (the spawner itself, wrappers that return its result)
	starters := map[*types.Func]bool{m.start.Obj: true}
	for changed := true; changed; {
		changed = false
		for _, fi := range allFuncs(m.pk) {
			if starters[fi.Obj] {
				continue
			}
			ast.Inspect(fi.Decl.Body, func(n ast.Node) bool {
				ret, ok := n.(*ast.ReturnStmt)
				if !ok || len(ret.Results) == 0 {
					return true
				}
				if call, ok := ast.Unparen(ret.Results[len(ret.Results)-1]).(*ast.CallExpr); ok && starters[callee(info, call)] {
					starters[fi.Obj] = true
					changed = true
				}
				return true
			})
		}
	}
	// the fields the error is stored in
	holders := map[*types.Var]token.Pos{}
	for _, fi := range allFuncs(m.pk) {
		ast.Inspect(fi.Decl.Body, func(n ast.Node) bool {
			as, ok := n.(*ast.AssignStmt)
			if !ok || len(as.Rhs) != 1 {
				return true
			}
			call, ok := ast.Unparen(as.Rhs[0]).(*ast.CallExpr)
			if !ok || !starters[callee(info, call)] {
				return true
			}
			l := as.Lhs[len(as.Lhs)-1]
			if f := fieldOf(info, l); f != nil && isErrorType(f.Type()) {
				holders[f] = as.Pos()
			} else if o := objOf(info, l); o != nil {
				// a local: the fields it is copied into
				ast.Inspect(fi.Decl.Body, func(y ast.Node) bool {
					if a2, ok := y.(*ast.AssignStmt); ok && len(a2.Lhs) == len(a2.Rhs) {
						for i, rh := range a2.Rhs {
							if objOf(info, rh) == o {
								if f := fieldOf(info, a2.Lhs[i]); f != nil && isErrorType(f.Type()) {
									holders[f] = a2.Pos()
								}
							}
						}
					}
					return true
				})
			}
			return true
		})
	}
	if len(holders) == 0 {
		r.Anchor("field of the Scanner that holds the error returned by the start of the decoder")
		return
	}
	var hs []*types.Var
	for f := range holders {
		hs = append(hs, f)
	}
	sort.Slice(hs, func(i, j int) bool { return hs[i].Pos() < hs[j].Pos() })
	// decoder methods that receive from a channel
	receives := func(fi *FuncInfo) bool {
		hit := false
		for _, g := range c01Reachable(r.P, fi) {
			ast.Inspect(g.Decl.Body, func(n ast.Node) bool {
				switch x := n.(type) {
				case *ast.FuncLit:
					return false
				case *ast.UnaryExpr:
					if x.Op == token.ARROW {
						hit = true
					}
				case *ast.RangeStmt:
					if _, isChan := info.TypeOf(x.X).Underlying().(*types.Chan); isChan {
						hit = true
					}
				}
				return !hit
			})
		}
		return hit
	}
	n := 0
	for _, fi := range allFuncs(m.pk) {
		sig := fi.Obj.Type().(*types.Signature)
		if sig.Recv() == nil || namedPath(sig.Recv().Type()) != namedPath(m.scannerT) {
			continue
		}
		f0 := c01FnOf(r.P, fi)
		ast.Inspect(fi.Decl.Body, func(x ast.Node) bool {
			call, ok := x.(*ast.CallExpr)
			if !ok {
				return true
			}
			tf := c01Callee(m.pk, call)
			if tf == nil || starters[tf.Obj] {
				return true
			}
			rs := tf.Obj.Type().(*types.Signature).Recv()
			if rs == nil || namedPath(rs.Type()) != namedPath(m.decoderT) || !receives(tf) {
				return true
			}
			n++
			f := f0.innermost(call)
			facts := f.factsAtPos(call.Pos())
			var missing []string
			for _, h := range hs {
				known := false
				for _, ft := range facts {
					// a predicate of the package whose value is forced when h is non-nil (`s.stopped()` false => h nil)
					if pc, isCall := ast.Unparen(c01Expand(info, f.body, ft.expr)).(*ast.CallExpr); isCall {
						if g := c01Callee(m.pk, pc); g != nil {
							if forced := c06PredUnderNonNil(r, m, g, h, 0); forced != c01U && (forced == c01T) != ft.val {
								known = true
							}
						}
						continue
					}
					e, neq, ok := c01NilCmp(ft.expr)
					if !ok || fieldOf(info, c01Expand(info, f.body, e)) != h {
						continue
					}
					if ft.val != neq { // (h == nil) true  or  (h != nil) false
						known = true
					}
				}
				if !known {
					missing = append(missing, h.Name())
				}
			}
			c := "start error@" + fi.Name() + " " + src(fs, call)
			if len(missing) > 0 {
				r.Bad(c, call.Pos(), "`%s` receives from the pipeline, but nothing on the way establishes that %s (which can hold the error of a failed start of the decoder) is nil: when the first block is damaged no goroutine was started, nothing will ever be sent or closed, and the call blocks forever instead of the scan ending in that error", src(fs, call), strings.Join(missing, ", "))
			} else {
				r.OK(c, call.Pos(), "only reached when every field that can hold the error of a failed start is nil (%d field(s))", len(hs))
			}
			return true
		})
	}
	if n == 0 {
		r.Anchor("consumer-side call of a decoder method that receives from the pipeline")
	}
}

// c06PredUnderNonNil evaluates a boolean function of the package under the assumption that error field h is non-nil:
// c01T / c01F when every reachable return yields that value, c01U otherwise. (`stopped()` being false then tells that
// h is nil.)
func c06PredUnderNonNil(r *core.R, m *pbfModel, tf *FuncInfo, h *types.Var, depth int) c01Tri {
	info := m.info
	if depth > 2 || tf.Obj.Type().(*types.Signature).Results().Len() != 1 {
		return c01U
	}
	f := c01FnOf(r.P, tf)
	var atom func(a ast.Expr) c01Tri
	atom = func(a ast.Expr) c01Tri {
		if x, neq, ok := c01NilCmp(a); ok && fieldOf(info, c01Expand(info, f.body, x)) == h {
			return c01Bool(neq)
		}
		if call, ok := ast.Unparen(a).(*ast.CallExpr); ok {
			if g := c01Callee(m.pk, call); g != nil {
				return c06PredUnderNonNil(r, m, g, h, depth+1)
			}
		}
		return c01U
	}
	seen := map[*cfg.Block]bool{f.g.Blocks[0]: true}
	work := []*cfg.Block{f.g.Blocks[0]}
	res, n := c01U, 0
	for len(work) > 0 {
		b := work[len(work)-1]
		work = work[:len(work)-1]
		returned := false
		for _, nd := range b.Nodes {
			if as, ok := nd.(*ast.AssignStmt); ok {
				for _, l := range as.Lhs {
					if fieldOf(info, l) == h {
						return c01U // the function itself changes the field
					}
				}
			}
			ret, ok := nd.(*ast.ReturnStmt)
			if !ok {
				continue
			}
			returned = true
			if len(ret.Results) != 1 {
				return c01U
			}
			v := c01Eval(info, ret.Results[0], atom)
			if tv, okc := info.Types[ret.Results[0]]; okc && tv.Value != nil {
				v = c01Bool(tv.Value.String() == "true")
			}
			if v == c01U || (n > 0 && v != res) {
				return c01U
			}
			res = v
			n++
		}
		if returned {
			continue
		}
		v := c01U
		if len(b.Succs) == 2 {
			if cond := f.condOf(b); cond != nil {
				v = c01Eval(info, cond, atom)
			}
		}
		for si, nb := range b.Succs {
			if (si == 0 && v == c01F) || (si == 1 && v == c01T) {
				continue
			}
			if !seen[nb] {
				seen[nb] = true
				work = append(work, nb)
			}
		}
	}
	if n == 0 {
		return c01U
	}
	return res
}
