package rules

import "osmcheck/core"

// c20Benign2: part 2 of the behaviour-preserving variants of C20 (see c20_benign.go).
func c20Benign2() []core.Mutant {
	return []core.Mutant{
		{Name: "relations-ids-through-helper-taking-a-closure", File: "osmapi/relation.go",
			Find: `	data := make([]byte, 0, 11*len(ids))
	for i, id := range ids {
		if i != 0 {
			data = append(data, byte(','))
		}
		data = strconv.AppendInt(data, int64(id), 10)
	}
	url := ds.baseURL() + "/relations?relations=" + string(data)
	if len(params) > 0 {
		url += "&" + params
	}

	o := &osm.OSM{}
	if err := ds.getFromAPI(ctx, url, &o); err != nil {
		return nil, err
	}

	return o.Relations, nil
}
`,
			Replace: `	idList := joinInt64(len(ids), func(i int) int64 { return int64(ids[i]) })
	url := ds.baseURL() + "/relations?relations=" + idList
	if len(params) > 0 {
		url += "&" + params
	}

	o := &osm.OSM{}
	if err := ds.getFromAPI(ctx, url, &o); err != nil {
		return nil, err
	}

	return o.Relations, nil
}

// joinInt64 formats the n numbers at(0..n-1) in base 10, comma separated.
func joinInt64(n int, at func(i int) int64) string {
	out := make([]byte, 0, 11*n)
	for i := 0; i < n; i++ {
		if i > 0 {
			out = append(out, ',')
		}
		out = strconv.AppendInt(out, at(i), 10)
	}
	return string(out)
}
`},
		{Name: "nodes-closure-in-local-and-immediately-invoked-closure", File: "osmapi/node.go",
			Find: `	data := make([]byte, 0, 11*len(ids))
	for i, id := range ids {
		if i != 0 {
			data = append(data, byte(','))
		}
		data = strconv.AppendInt(data, int64(id), 10)
	}
`,
			Replace: `	idAt := func(i int) int64 { return int64(ids[i]) }
	data := func() []byte {
		buf := make([]byte, 0, 11*len(ids))
		for i := range ids {
			if i != 0 {
				buf = append(buf, ',')
			}
			buf = strconv.AppendInt(buf, idAt(i), 10)
		}
		return buf
	}()
`},
		{Name: "ways-local-closure-taking-a-closure-capturing-the-buffer", File: "osmapi/way.go",
			Find: `	data := make([]byte, 0, 11*len(ids))
	for i, id := range ids {
		if i != 0 {
			data = append(data, byte(','))
		}
		data = strconv.AppendInt(data, int64(id), 10)
	}
`,
			Replace: `	var data []byte
	each := func(n int, visit func(i int)) {
		for i := 0; i < n; i++ {
			visit(i)
		}
	}
	each(len(ids), func(i int) {
		if len(data) > 0 {
			data = append(data, ',')
		}
		data = strconv.AppendInt(data, int64(ids[i]), 10)
	})
`},
		{Name: "notessearch-query-through-strings-builder", File: "osmapi/note.go",
			Find: `	params = append(params, fmt.Sprintf("q=%s", url.QueryEscape(query)))
`,
			Replace: `	var sb strings.Builder
	sb.WriteString("q=")
	sb.WriteString(url.QueryEscape(query))
	params = append(params, sb.String())
`},
		{Name: "user-url-through-sprint", File: "osmapi/user.go",
			Find: `	url := fmt.Sprintf("%s/user/%d", ds.baseURL(), id)
`,
			Replace: `	url := fmt.Sprint(ds.baseURL(), "/user/", int64(id))
`},
		{Name: "nodeversion-grouped-parameters-struct", File: "osmapi/node.go",
			Find: `	url := fmt.Sprintf("%s/node/%d/%d", ds.baseURL(), id, v)

	o := &osm.OSM{}
	if err := ds.getFromAPI(ctx, url, &o); err != nil {
		return nil, err
	}

	if l := len(o.Nodes); l != 1 {
		return nil, fmt.Errorf("wrong number of nodes, expected 1, got %v", l)
	}

	return o.Nodes[0], nil
}
`,
			Replace: `	url := ds.versionURL(versionRef{kind: "node", id: int64(id), version: v})

	o := &osm.OSM{}
	if err := ds.getFromAPI(ctx, url, &o); err != nil {
		return nil, err
	}

	if l := len(o.Nodes); l != 1 {
		return nil, fmt.Errorf("wrong number of nodes, expected 1, got %v", l)
	}

	return o.Nodes[0], nil
}

type versionRef struct {
	kind    string
	id      int64
	version int
}

func (ds *Datasource) versionURL(r versionRef) string {
	return fmt.Sprintf("%s/%s/%d/%d", ds.baseURL(), r.kind, r.id, r.version)
}
`},
		{Name: "notfound-as-type-switch", File: "osmapi/datasource.go",
			Find:    "\tif err == nil {\n\t\treturn false\n\t}\n\n\t_, ok := err.(*NotFoundError)\n\treturn ok\n",
			Replace: "\tswitch err.(type) {\n\tcase *NotFoundError:\n\t\treturn true\n\tdefault:\n\t\treturn false\n\t}\n"},
		{Name: "status-table-map-of-constructors", File: "osmapi/datasource.go",
			Find: `	if resp.StatusCode == http.StatusNotFound {
		return &NotFoundError{URL: url}
	}

	if resp.StatusCode == http.StatusForbidden {
		return &ForbiddenError{URL: url}
	}

	if resp.StatusCode == http.StatusGone {
		return &GoneError{URL: url}
	}

	if resp.StatusCode == http.StatusRequestURITooLong {
		return &RequestURITooLongError{URL: url}
	}

	if resp.StatusCode != http.StatusOK {
		return &UnexpectedStatusCodeError{
			Code: resp.StatusCode,
			URL:  url,
		}
	}

	return xml.NewDecoder(resp.Body).Decode(item)
}
`,
			Replace: `	if resp.StatusCode == http.StatusOK {
		return xml.NewDecoder(resp.Body).Decode(item)
	}

	if newError, ok := statusErrors[resp.StatusCode]; ok {
		return newError(url)
	}

	return &UnexpectedStatusCodeError{Code: resp.StatusCode, URL: url}
}

var statusErrors = map[int]func(url string) error{
	http.StatusNotFound: func(url string) error { return &NotFoundError{URL: url} },
	http.StatusForbidden: func(url string) error { return &ForbiddenError{URL: url} },
	http.StatusGone: func(url string) error { return &GoneError{URL: url} },
	http.StatusRequestURITooLong: func(url string) error { return &RequestURITooLongError{URL: url} },
}
`},
		{Name: "status-table-map-consulted-before-ok-test", File: "osmapi/datasource.go",
			Find: `	if resp.StatusCode == http.StatusNotFound {
		return &NotFoundError{URL: url}
	}

	if resp.StatusCode == http.StatusForbidden {
		return &ForbiddenError{URL: url}
	}

	if resp.StatusCode == http.StatusGone {
		return &GoneError{URL: url}
	}

	if resp.StatusCode == http.StatusRequestURITooLong {
		return &RequestURITooLongError{URL: url}
	}

	if resp.StatusCode != http.StatusOK {
		return &UnexpectedStatusCodeError{
			Code: resp.StatusCode,
			URL:  url,
		}
	}

	return xml.NewDecoder(resp.Body).Decode(item)
}
`,
			Replace: `	if newError, ok := statusErrors[resp.StatusCode]; ok {
		return newError(url)
	}

	if resp.StatusCode != http.StatusOK {
		return &UnexpectedStatusCodeError{Code: resp.StatusCode, URL: url}
	}

	return xml.NewDecoder(resp.Body).Decode(item)
}

var statusErrors = map[int]func(url string) error{
	http.StatusNotFound: func(url string) error { return &NotFoundError{URL: url} },
	http.StatusForbidden: func(url string) error { return &ForbiddenError{URL: url} },
	http.StatusGone: func(url string) error { return &GoneError{URL: url} },
	http.StatusRequestURITooLong: func(url string) error { return &RequestURITooLongError{URL: url} },
}
`},
		{Name: "status-table-slice-of-code-constructor-pairs-scanned", File: "osmapi/datasource.go",
			Find: `	if resp.StatusCode == http.StatusNotFound {
		return &NotFoundError{URL: url}
	}

	if resp.StatusCode == http.StatusForbidden {
		return &ForbiddenError{URL: url}
	}

	if resp.StatusCode == http.StatusGone {
		return &GoneError{URL: url}
	}

	if resp.StatusCode == http.StatusRequestURITooLong {
		return &RequestURITooLongError{URL: url}
	}

	if resp.StatusCode != http.StatusOK {
		return &UnexpectedStatusCodeError{
			Code: resp.StatusCode,
			URL:  url,
		}
	}

	return xml.NewDecoder(resp.Body).Decode(item)
}
`,
			Replace: `	for _, e := range statusTable {
		if e.code == resp.StatusCode {
			return e.newError(url)
		}
	}

	if resp.StatusCode != http.StatusOK {
		return &UnexpectedStatusCodeError{Code: resp.StatusCode, URL: url}
	}

	return xml.NewDecoder(resp.Body).Decode(item)
}

var statusTable = []struct {
	code     int
	newError func(url string) error
}{
	{http.StatusNotFound, newNotFound},
	{http.StatusForbidden, func(u string) error { return &ForbiddenError{URL: u} }},
	{http.StatusGone, func(u string) error { return &GoneError{URL: u} }},
	{http.StatusRequestURITooLong, func(u string) error { return &RequestURITooLongError{URL: u} }},
}

func newNotFound(u string) error { return &NotFoundError{URL: u} }
`},
	}
}
