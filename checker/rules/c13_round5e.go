package rules

import (
	"strings"

	"osmcheck/core"
)

// Round 5, part 5: the action list and the invariants kept in a builder object with methods (closures -> methods,
// parallel locals -> struct, accumulator in a field).

func c13From(s, marker string) string {
	if i := strings.Index(s, marker); i >= 0 {
		return s[i:]
	}
	return ""
}

var c13BuilderObject = `	b := &diffBuilder{ctx: ctx, ds: ds, lenient: ignoreMissing, list: actions}
	b.creates(change.Create)
	if err := b.updates(change.Modify, osm.ActionModify); err != nil {
		return nil, err
	}
	if err := b.updates(change.Delete, osm.ActionDelete); err != nil {
		return nil, err
	}
	return &osm.Diff{Actions: b.list}, nil
}

type diffBuilder struct {
	ctx     context.Context
	ds      osm.HistoryDatasourcer
	lenient bool
	list    []osm.Action
}

func (b *diffBuilder) add(a osm.Action) {
	b.list = append(b.list, a)
}

func (b *diffBuilder) creates(o *osm.OSM) {
	if o == nil {
		return
	}
	for _, n := range o.Nodes {
		n.Visible = true
		b.add(osm.Action{Type: osm.ActionCreate, OSM: &osm.OSM{Nodes: osm.Nodes{n}}})
	}
	for _, w := range o.Ways {
		w.Visible = true
		b.add(osm.Action{Type: osm.ActionCreate, OSM: &osm.OSM{Ways: osm.Ways{w}}})
	}
	for _, r := range o.Relations {
		r.Visible = true
		b.add(osm.Action{Type: osm.ActionCreate, OSM: &osm.OSM{Relations: osm.Relations{r}}})
	}
}

func (b *diffBuilder) updates(o *osm.OSM, t osm.ActionType) error {
	if o == nil {
		return nil
	}
	visible := t != osm.ActionDelete
	for _, n := range o.Nodes {
		old, err := findPreviousNode(b.ctx, n, b.ds, b.lenient)
		if e := checkErr(b.ds, b.lenient, err, n.FeatureID()); e != nil {
			return e
		}
		if old == nil {
			n.Visible = true
			b.add(osm.Action{Type: osm.ActionCreate, OSM: &osm.OSM{Nodes: osm.Nodes{n}}})
			continue
		}
		n.Visible = visible
		b.add(osm.Action{Type: t, Old: &osm.OSM{Nodes: osm.Nodes{old}}, New: &osm.OSM{Nodes: osm.Nodes{n}}})
	}
	for _, w := range o.Ways {
		old, err := findPreviousWay(b.ctx, w, b.ds, b.lenient)
		if e := checkErr(b.ds, b.lenient, err, w.FeatureID()); e != nil {
			return e
		}
		if old == nil {
			w.Visible = true
			b.add(osm.Action{Type: osm.ActionCreate, OSM: &osm.OSM{Ways: osm.Ways{w}}})
			continue
		}
		w.Visible = visible
		b.add(osm.Action{Type: t, Old: &osm.OSM{Ways: osm.Ways{old}}, New: &osm.OSM{Ways: osm.Ways{w}}})
	}
	for _, r := range o.Relations {
		old, err := findPreviousRelation(b.ctx, r, b.ds, b.lenient)
		if e := checkErr(b.ds, b.lenient, err, r.FeatureID()); e != nil {
			return e
		}
		if old == nil {
			r.Visible = true
			b.add(osm.Action{Type: osm.ActionCreate, OSM: &osm.OSM{Relations: osm.Relations{r}}})
			continue
		}
		r.Visible = visible
		b.add(osm.Action{Type: t, Old: &osm.OSM{Relations: osm.Relations{old}}, New: &osm.OSM{Relations: osm.Relations{r}}})
	}
	return nil
}

` + c13From(c13SrcFromCreate, "func osmCount(")

var c13Benign5e = []core.Mutant{
	{Name: "builder-object-with-list-field", File: c13Chg, Find: c13SrcFromCreate, Replace: c13BuilderObject},
}

var c13Mutants5e = []core.Mutant{
	{Name: "builder-way-fallback-not-added", File: c13Chg, Find: c13SrcFromCreate,
		Replace:    c13Sub(c13BuilderObject, "\t\t\tw.Visible = true\n\t\t\tb.add(osm.Action{Type: osm.ActionCreate, OSM: &osm.OSM{Ways: osm.Ways{w}}})\n\t\t\tcontinue", "\t\t\tw.Visible = true\n\t\t\tcontinue"),
		ExpectRule: "S3", ExpectConstruct: "one-action@Modify/Way"},
	{Name: "builder-list-reset-between-sections", File: c13Chg, Find: c13SrcFromCreate,
		Replace:    c13Sub(c13BuilderObject, "\tvisible := t != osm.ActionDelete\n", "\tvisible := t != osm.ActionDelete\n\tif !visible {\n\t\tb.list = nil\n\t}\n"),
		ExpectRule: "S3", ExpectConstruct: "actions@Change"},
}
