package rules

import "osmcheck/core"

// c16_variants5.go — performance-motivated shapes of the collectors of osmgeojson (round 8): results forwarded from an
// appending helper, collectors carved from one pre-counted array, scratch buffers, cached aliases, guarded fast
// paths, lazily allocated lists. The evaluator models slice capacity and aliasing, so the correct spellings are
// silent and the ones that share storage, count wrongly or cache too early are reported through the geometry.

// c16WayFunc is osmgeojson.wayToLineString as it stands.
const c16WayFunc = "func (ctx *context) wayToLineString(w *osm.Way) (orb.LineString, bool) {\n\tls := make(orb.LineString, 0, len(w.Nodes))\n\ttainted := false\n" + c16WayLoop + "\n\treturn ls, tainted\n}\n"

// c16WayAppender: an appending helper; wayToLineString is BODY.
const c16WayAppender = "func (ctx *context) wayToLineString(w *osm.Way) (orb.LineString, bool) {\nBODY}\n\n// appendWayLocations appends the location of every way node that can be resolved to dst.\nfunc (ctx *context) appendWayLocations(dst orb.LineString, w *osm.Way) (orb.LineString, bool) {\n\ttainted := false\n\tfor i := range w.Nodes {\n\t\twn := &w.Nodes[i]\n\t\tif wn.Lon != 0 || wn.Lat != 0 {\n\t\t\tdst = append(dst, orb.Point{wn.Lon, wn.Lat})\n\t\t} else if n := ctx.getNode(wn.ID); n != nil {\n\t\t\tdst = append(dst, orb.Point{n.Lon, n.Lat})\n\t\t} else {\n\t\t\ttainted = true\n\t\t}\n\t}\n\n\treturn dst, tainted\n}\n"

// c16WayGeneral: wayToLineString with PRE before the general loop, NODEGET the lookup of a node object, and the
// two appends spelled ADD1 / ADD2.
const c16WayGeneral = "func (ctx *context) wayToLineString(w *osm.Way) (orb.LineString, bool) {\nPRE\ttainted := false\n\tfor _, wn := range w.Nodes {\n\t\tif wn.Lon != 0 || wn.Lat != 0 {\nADD1\t\t} else if n := NODEGET; n != nil {\nADD2\t\t} else {\n\t\t\ttainted = true\n\t\t}\n\t}\nPOST\n\treturn ls, tainted\n}\n"

const (
	c16WayMake = "\tls := make(orb.LineString, 0, len(w.Nodes))\n"
	c16WayAdd1 = "\t\t\tls = append(ls, orb.Point{wn.Lon, wn.Lat})\n"
	c16WayAdd2 = "\t\t\tls = append(ls, orb.Point{n.Lon, n.Lat})\n"
	c16WayLazy = "\t\t\tif ls == nil {\n\t\t\t\tls = make(orb.LineString, 0, len(w.Nodes))\n\t\t\t}\n"
)

func c16WayText(pre, nodeget, add1, add2, post string) string {
	return c16Subst(c16WayGeneral, "PRE", pre, "NODEGET", nodeget, "ADD1", add1, "ADD2", add2, "POST", post)
}

// c16CollectorsDecl is the declaration of the two collectors of buildPolygon as it stands.
const c16CollectorsDecl = "\tvar outer []mputil.Segment\n\tvar inner []mputil.Segment\n\n\ttainted := false\n"

// c16Carved: a counting pass, then both collectors carved from one array. STOP ends the counting early (an
// undercount), OUTER / INNER are the slice expressions.
const c16Carved = "\tnOuter, nInner := 0, 0\nLABEL\tfor i := range relation.Members {\n\t\tif m := &relation.Members[i]; m.Type == osm.TypeWay {\n\t\t\tswitch m.Role {\n\t\t\tcase \"outer\":\n\t\t\t\tnOuter++\n\t\t\tcase \"inner\":\n\t\t\t\tnInner++\nSTOP\t\t\t}\n\t\t}\n\t}\n\n\tsegments := make([]mputil.Segment, nOuter+nInner)\n\touter := OUTER\n\tinner := INNER\n\n\ttainted := false\n"

func c16CarvedText(stop, outer, inner string) string {
	label := ""
	if stop != "" {
		label = "count:\n"
	}
	return c16Subst(c16Carved, "LABEL", label, "STOP", stop, "OUTER", outer, "INNER", inner)
}

const c16FastAll = "\tlocated := len(w.Nodes) > 0\n\tfor i := range w.Nodes {\n\t\tif w.Nodes[i].Lon == 0 && w.Nodes[i].Lat == 0 {\n\t\t\tlocated = false\n\t\t\tbreak\n\t\t}\n\t}\n\n"
const c16FastFill = "\tif located {\n\t\tfast := make(orb.LineString, len(w.Nodes))\n\t\tfor i := range w.Nodes {\n\t\t\tfast[i] = orb.Point{w.Nodes[i].Lon, w.Nodes[i].Lat}\n\t\t}\n\n\t\treturn fast, false\n\t}\n\n"

var c16Mutants5 = []core.Mutant{
	// scratch aliased into the result instead of copied: every line shares one backing array
	{Name: "coordinates-scratch-aliased", File: c16ConvGo, Find: c16WayFunc,
		Replace:    "var lineScratch orb.LineString\n\n" + c16Subst(c16WayAppender, "BODY", "\tls, tainted := ctx.appendWayLocations(lineScratch[:0], w)\n\tlineScratch = ls\n\n\treturn ls, tainted\n"),
		ExpectRule: "P1", ExpectConstruct: "Convert["},
	// alias cached before the value is set: the node map is made lazily by getNode
	{Name: "coordinates-node-map-cached-before-made", File: c16ConvGo, Find: c16WayFunc,
		Replace:    c16WayText(c16WayMake+"\tnodes := ctx.nodeMap\n", "nodes[wn.ID]", c16WayAdd1, c16WayAdd2, ""),
		ExpectRule: "W1", ExpectConstruct: "coordinates[from node objects]"},
	// fast path taken where its precondition is false: the first node is annotated, the others need not be
	{Name: "coordinates-fast-path-judged-by-first-node", File: c16ConvGo, Find: c16WayFunc,
		Replace:    c16WayText("\tlocated := len(w.Nodes) > 0 && (w.Nodes[0].Lon != 0 || w.Nodes[0].Lat != 0)\n"+c16FastFill+c16WayMake, "ctx.getNode(wn.ID)", c16WayAdd1, c16WayAdd2, ""),
		ExpectRule: "W1", ExpectConstruct: "coordinates[mixed]"},
	// lazily allocated list: the path that allocates drops its point
	{Name: "coordinates-lazy-list-drops-first-point", File: c16ConvGo, Find: c16WayFunc,
		Replace:    c16WayText("\tvar ls orb.LineString\n", "ctx.getNode(wn.ID)", c16WayLazy+c16WayAdd1, "\t\t\tif ls == nil {\n\t\t\t\tls = make(orb.LineString, 0, len(w.Nodes))\n\t\t\t\tcontinue\n\t\t\t}\n"+c16WayAdd2, ""),
		ExpectRule: "W1", ExpectConstruct: "coordinates[from node objects]"},
	// counting pass and real pass disagree (the count stops at the first inner member) and the collectors are carved
	// with two-index slices: an outer member after an inner one overwrites the inner collector
	{Name: "polygon-collectors-undercounted-two-index", File: c16BuildGo, Find: c16CollectorsDecl,
		Replace:    c16CarvedText("\t\t\t\tbreak count\n", "segments[0:0]", "segments[nOuter:nOuter]"),
		ExpectRule: "P1", ExpectConstruct: "Convert["},
	// collectors carved from overlapping regions
	{Name: "polygon-collectors-overlap", File: c16BuildGo, Find: c16CollectorsDecl,
		Replace:    c16CarvedText("", "segments[0:0]", "segments[0:0:nInner]"),
		ExpectRule: "P1", ExpectConstruct: "Convert["},
}

var c16Benign5 = []core.Mutant{
	// results forwarded from an appending helper (`return helper(make(...), w)`), element pointer in the loop
	{Name: "coordinates-appending-helper", File: c16ConvGo, Find: c16WayFunc,
		Replace: c16Subst(c16WayAppender, "BODY", "\treturn ctx.appendWayLocations(make(orb.LineString, 0, len(w.Nodes)), w)\n")},
	// scratch then copy: the reused buffer leaves only by value
	{Name: "coordinates-scratch-copied", File: c16ConvGo, Find: c16WayFunc,
		Replace: "var lineScratch orb.LineString\n\n" + c16Subst(c16WayAppender, "BODY", "\tscratch, tainted := ctx.appendWayLocations(lineScratch[:0], w)\n\tlineScratch = scratch\n\n\tls := make(orb.LineString, len(scratch))\n\tcopy(ls, scratch)\n\n\treturn ls, tainted\n")},
	// alias taken of something that is already set: the lookup as a method value
	{Name: "coordinates-lookup-cached", File: c16ConvGo, Find: c16WayFunc,
		Replace: c16WayText(c16WayMake+"\tlookup := ctx.getNode\n", "lookup(wn.ID)", c16WayAdd1, c16WayAdd2, "")},
	// guarded fast path: every node checked first, the general loop is the fallback
	{Name: "coordinates-fast-path-all-located", File: c16ConvGo, Find: c16WayFunc,
		Replace: c16WayText(c16FastAll+c16FastFill+c16WayMake, "ctx.getNode(wn.ID)", c16WayAdd1, c16WayAdd2, "")},
	// lazily allocated list, allocated on every path that adds
	{Name: "coordinates-lazy-list", File: c16ConvGo, Find: c16WayFunc,
		Replace: c16WayText("\tvar ls orb.LineString\n", "ctx.getNode(wn.ID)", c16WayLazy+c16WayAdd1, c16WayLazy+c16WayAdd2, "\n\tif ls == nil {\n\t\tls = orb.LineString{}\n\t}\n")},
	// counting pass, collectors carved from one array with three-index slices
	{Name: "polygon-collectors-carved", File: c16BuildGo, Find: c16CollectorsDecl,
		Replace: c16CarvedText("", "segments[0:0:nOuter]", "segments[nOuter:nOuter:nOuter+nInner]")},
	// an undercount is harmless behind three-index slices: the collector that overflows is reallocated
	{Name: "polygon-collectors-undercounted-three-index", File: c16BuildGo, Find: c16CollectorsDecl,
		Replace: c16CarvedText("\t\t\t\tbreak count\n", "segments[0:0:nOuter]", "segments[nOuter:nOuter:nOuter+nInner]")},
}
