package rules

import (
	"go/ast"
	"go/types"
)

// Interface conversions of the C13 path evaluator.
//
// A nil pointer (slice, map, func, chan) of a concrete type that is converted to an interface type - returned in an
// `error` result, assigned to an `error` variable, passed for an `error` parameter - is NOT the nil interface: the
// interface holds (type, nil) and compares unequal to nil. The evaluator therefore turns the nil term into a
// distinct "typed nil" value at every such conversion; it is known to be non-nil as an interface value.

const c13OpTypedNil = "typednil" // the nil value of the concrete type typ held in an interface

func (x *c13Exec) typedNil(t types.Type) *c13Term {
	return &c13Term{op: c13OpTypedNil, typ: t, key: "typednil " + c13TypeKey(t)}
}

// toIface converts value v of static type src for a destination of type dst.
func (x *c13Exec) toIface(v *c13Term, src, dst types.Type) *c13Term {
	if v == nil || src == nil || dst == nil || v.op != c13OpNil {
		return v
	}
	if !types.IsInterface(dst) || types.IsInterface(src) {
		return v
	}
	if _, isTP := dst.(*types.TypeParam); isTP {
		return v
	}
	if b, ok := src.(*types.Basic); ok && b.Kind() == types.UntypedNil {
		return v
	}
	switch src.Underlying().(type) {
	case *types.Pointer, *types.Slice, *types.Map, *types.Chan, *types.Signature:
		return x.typedNil(src)
	}
	return v
}

// srcTypes gives the static types of the values produced by the expressions es (a single call may produce several).
func c13SrcTypes(info *types.Info, es []ast.Expr, n int) []types.Type {
	out := make([]types.Type, n)
	if len(es) == n {
		for i, e := range es {
			out[i] = info.TypeOf(e)
		}
		return out
	}
	if len(es) == 1 {
		if tup, ok := info.TypeOf(es[0]).(*types.Tuple); ok && tup.Len() == n {
			for i := 0; i < n; i++ {
				out[i] = tup.At(i).Type()
			}
		}
	}
	return out
}

// convertAll applies toIface element-wise; dst(i) gives the destination type of value i (nil = unknown).
func (x *c13Exec) convertAll(vals []*c13Term, src []types.Type, dst func(i int) types.Type) []*c13Term {
	out := vals
	for i, v := range vals {
		if i >= len(src) {
			break
		}
		if nv := x.toIface(v, src[i], dst(i)); nv != v {
			if &out[0] == &vals[0] {
				out = append([]*c13Term(nil), vals...)
			}
			out[i] = nv
		}
	}
	return out
}

// c13LhsType is the type of the variable or location an assignment writes.
func c13LhsType(info *types.Info, e ast.Expr) types.Type {
	if id, ok := ast.Unparen(e).(*ast.Ident); ok {
		if id.Name == "_" {
			return nil
		}
		if o := objOf(info, id); o != nil {
			return o.Type()
		}
	}
	return info.TypeOf(e)
}
