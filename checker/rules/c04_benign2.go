package rules

import "osmcheck/core"

// Third-round shapes for the XML writers: a closure for the repeated attribute snippet, a deferred end token with a
// named result, a counted loop over a local table, a method turned into a plain function. c04Benign2 must be silent;
// c04Mutants2 seed a defect into the same refactored shapes.

const c04ChangeAttrs = "\tif c.Version != \"\" {\n\t\tstart.Attr = append(start.Attr, xml.Attr{Name: xml.Name{Local: \"version\"}, Value: c.Version})\n\t}\n\n\tif c.Generator != \"\" {\n\t\tstart.Attr = append(start.Attr, xml.Attr{Name: xml.Name{Local: \"generator\"}, Value: c.Generator})\n\t}\n\n\tif c.Copyright != \"\" {\n\t\tstart.Attr = append(start.Attr, xml.Attr{Name: xml.Name{Local: \"copyright\"}, Value: c.Copyright})\n\t}\n\n\tif c.Attribution != \"\" {\n\t\tstart.Attr = append(start.Attr, xml.Attr{Name: xml.Name{Local: \"attribution\"}, Value: c.Attribution})\n\t}\n\n\tif c.License != \"\" {\n\t\tstart.Attr = append(start.Attr, xml.Attr{Name: xml.Name{Local: \"license\"}, Value: c.License})\n\t}\n"

func c04ChangeAttrsClosure(guard string) string {
	return "\taddAttr := func(key, value string) {\n\t\tif " + guard + " {\n\t\t\tstart.Attr = append(start.Attr, xml.Attr{Name: xml.Name{Local: key}, Value: value})\n\t\t}\n\t}\n\taddAttr(\"version\", c.Version)\n\taddAttr(\"generator\", c.Generator)\n\taddAttr(\"copyright\", c.Copyright)\n\taddAttr(\"attribution\", c.Attribution)\n\taddAttr(\"license\", c.License)\n"
}

func c04ChangeAttrsCounted(limit string) string {
	return "\ttable := [][2]string{{\"version\", c.Version}, {\"generator\", c.Generator}, {\"copyright\", c.Copyright}, {\"attribution\", c.Attribution}, {\"license\", c.License}}\n\tfor i := 0; i < " + limit + "; i++ {\n\t\tif table[i][1] != \"\" {\n\t\t\tstart.Attr = append(start.Attr, xml.Attr{Name: xml.Name{Local: table[i][0]}, Value: table[i][1]})\n\t\t}\n\t}\n"
}

const c04ActionMarshal = "func (a Action) MarshalXML(e *xml.Encoder, start xml.StartElement) error {\n\tstart.Attr = append(start.Attr, xml.Attr{Name: xml.Name{Local: \"type\"}, Value: string(a.Type)})\n\tif err := e.EncodeToken(start); err != nil {\n\t\treturn err\n\t}\n\n\tif a.OSM != nil {\n\t\tif err := a.OSM.marshalInnerElementsXML(e); err != nil {\n\t\t\treturn err\n\t\t}\n\t}\n\n\tif a.Old != nil {\n\t\tif err := marshalInnerChange(e, \"old\", a.Old); err != nil {\n\t\t\treturn err\n\t\t}\n\t}\n\n\tif a.New != nil {\n\t\tif err := marshalInnerChange(e, \"new\", a.New); err != nil {\n\t\t\treturn err\n\t\t}\n\t}\n\n\treturn e.EncodeToken(start.End())\n}\n"

func c04ActionMarshalDeferred(endToken string) string {
	return "func (a Action) MarshalXML(e *xml.Encoder, start xml.StartElement) (err error) {\n\tstart.Attr = append(start.Attr, xml.Attr{Name: xml.Name{Local: \"type\"}, Value: string(a.Type)})\n\tif err := e.EncodeToken(start); err != nil {\n\t\treturn err\n\t}\n\tdefer func() {\n\t\tif err == nil {\n\t\t\terr = e.EncodeToken(" + endToken + ")\n\t\t}\n\t}()\n\n\tif a.OSM != nil {\n\t\tif err := a.OSM.marshalInnerElementsXML(e); err != nil {\n\t\t\treturn err\n\t\t}\n\t}\n\n\tif a.Old != nil {\n\t\tif err := marshalInnerChange(e, \"old\", a.Old); err != nil {\n\t\t\treturn err\n\t\t}\n\t}\n\n\tif a.New != nil {\n\t\tif err := marshalInnerChange(e, \"new\", a.New); err != nil {\n\t\t\treturn err\n\t\t}\n\t}\n\n\treturn nil\n}\n"
}

const c04WrapperFunc = "func marshalInnerChange(e *xml.Encoder, name string, o *OSM) error {\n\tif o == nil {\n\t\treturn nil\n\t}\n\n\tt := xml.StartElement{Name: xml.Name{Local: name}}\n\tif err := e.EncodeToken(t); err != nil {\n\t\treturn err\n\t}\n\n\tif err := o.marshalInnerXML(e); err != nil {\n\t\treturn err\n\t}\n\n\treturn e.EncodeToken(t.End())\n}\n"

// the wrapper as a variable holding a function literal (function <-> function value)
func c04WrapperLiteral(guard string) string {
	return "var marshalInnerChange = func(e *xml.Encoder, name string, o *OSM) error {\n\tif " + guard + " {\n\t\treturn nil\n\t}\n\n\tt := xml.StartElement{Name: xml.Name{Local: name}}\n\tif err := e.EncodeToken(t); err != nil {\n\t\treturn err\n\t}\n\n\tif err := o.marshalInnerXML(e); err != nil {\n\t\treturn err\n\t}\n\n\treturn e.EncodeToken(t.End())\n}\n"
}

var c04Benign2 = []core.Mutant{
	{Name: "attrs-through-closure", File: "change.go", Find: c04ChangeAttrs, Replace: c04ChangeAttrsClosure("value != \"\"")},
	{Name: "attrs-counted-loop-over-table", File: "change.go", Find: c04ChangeAttrs, Replace: c04ChangeAttrsCounted("len(table)")},
	{Name: "end-token-deferred-named-result", File: "diff.go", Find: c04ActionMarshal, Replace: c04ActionMarshalDeferred("start.End()")},
	{Name: "wrapper-as-function-value", File: "change.go", Find: c04WrapperFunc, Replace: c04WrapperLiteral("o == nil")},
}

var c04Mutants2 = []core.Mutant{
	{Name: "closure-attr-guard-skips-license", File: "change.go", Find: c04ChangeAttrs, Replace: c04ChangeAttrsClosure("value != \"\" && key != \"license\""), ExpectRule: "X2", ExpectConstruct: "Change.License"},
	{Name: "counted-loop-stops-one-short", File: "change.go", Find: c04ChangeAttrs, Replace: c04ChangeAttrsCounted("len(table)-1"), ExpectRule: "X2", ExpectConstruct: "Change.License"},
	{Name: "deferred-end-token-of-other-name", File: "diff.go", Find: c04ActionMarshal, Replace: c04ActionMarshalDeferred("xml.EndElement{Name: xml.Name{Local: \"actions\"}}"), ExpectRule: "X1", ExpectConstruct: "start@Action.MarshalXML"},
	{Name: "function-value-wrapper-skips-without-elements", File: "change.go", Find: c04WrapperFunc, Replace: c04WrapperLiteral("len(o.Elements()) == 0"), ExpectRule: "X6", ExpectConstruct: "written@Change.Create"},
}
