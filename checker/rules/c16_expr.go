package rules

// c16_expr.go — expressions of the C16 abstract evaluator.

import (
	"go/ast"
	"go/constant"
	"go/token"
	"go/types"
)

func c16FromConst(v constant.Value, t types.Type) c16Val {
	switch v.Kind() {
	case constant.Bool:
		return constant.BoolVal(v)
	case constant.String:
		return constant.StringVal(v)
	case constant.Int:
		if t != nil {
			if b, ok := t.Underlying().(*types.Basic); ok && b.Info()&types.IsFloat != 0 {
				f, _ := constant.Float64Val(v)
				return c16Flt{v: f}
			}
		}
		if i, ok := constant.Int64Val(v); ok {
			return i
		}
		if u, ok := constant.Uint64Val(v); ok {
			return int64(u)
		}
	case constant.Float:
		f, _ := constant.Float64Val(v)
		return c16Flt{v: f}
	}
	return &c16Opq{typ: t, why: "constant " + v.String()}
}

// eval evaluates an expression to a single value.
func (m *c16M) eval(f *c16Frame, e ast.Expr) c16Val {
	if tv, ok := f.info.Types[e]; ok {
		if tv.Value != nil {
			return c16FromConst(tv.Value, tv.Type)
		}
		if tv.IsNil() {
			return c16Nil{}
		}
	}
	switch x := e.(type) {
	case *ast.ParenExpr:
		return m.eval(f, x.X)
	case *ast.Ident:
		return m.evalIdent(f, x)
	case *ast.FuncLit:
		return &c16Closure{lit: x, env: f, info: f.info}
	case *ast.CompositeLit:
		return m.evalComposite(f, x, f.info.TypeOf(x))
	case *ast.SelectorExpr:
		return m.evalSelector(f, x)
	case *ast.IndexExpr:
		return m.evalIndex(f, x)
	case *ast.SliceExpr:
		return m.evalSliceExpr(f, x)
	case *ast.StarExpr:
		return m.deref(m.eval(f, x.X), x)
	case *ast.UnaryExpr:
		return m.evalUnary(f, x)
	case *ast.BinaryExpr:
		return m.evalBinary(f, x)
	case *ast.CallExpr:
		v := m.evalCall(f, x)
		if t, ok := v.(c16Tuple); ok {
			if len(t) == 1 {
				return t[0]
			}
			m.abort("multi-value call in single-value context at %s", m.pos(x))
		}
		return v
	case *ast.TypeAssertExpr:
		return m.eval(f, x.X) // the dynamic type is not checked: a failing assertion is outside the scenarios
	}
	m.abort("unsupported expression %T at %s", e, m.pos(e))
	return nil
}

func (m *c16M) evalIdent(f *c16Frame, id *ast.Ident) c16Val {
	obj := f.info.Uses[id]
	if obj == nil {
		obj = f.info.Defs[id]
	}
	switch o := obj.(type) {
	case *types.Var:
		if c := f.lookup(o); c != nil {
			return c.v
		}
		if c := m.global(o); c != nil {
			return c.v
		}
		m.abort("variable %s has no storage at %s", id.Name, m.pos(id))
	case *types.Func:
		return &c16FnVal{fn: o}
	case *types.Nil:
		return c16Nil{}
	}
	m.abort("unsupported identifier %s at %s", id.Name, m.pos(id))
	return nil
}

// global returns the storage of a package-level variable, evaluating its initialiser on first use.
func (m *c16M) global(o *types.Var) *c16Cell {
	if c, ok := m.globals[o]; ok {
		return c
	}
	if o.Pkg() == nil || o.Parent() != o.Pkg().Scope() {
		return nil
	}
	c := &c16Cell{v: &c16Opq{typ: o.Type(), why: "global " + o.Name()}}
	m.globals[o] = c
	pk := m.p.ByPath[o.Pkg().Path()]
	if pk == nil || pk.TypesInfo == nil {
		return c
	}
	for _, init := range pk.TypesInfo.InitOrder {
		if len(init.Lhs) == 1 && init.Lhs[0] == o {
			func() {
				defer func() {
					if e := recover(); e != nil {
						if _, ok := e.(c16Abort); !ok {
							panic(e)
						}
					}
				}()
				c.v = c16Copy(m.eval(&c16Frame{vars: map[types.Object]*c16Cell{}, info: pk.TypesInfo}, init.Rhs))
			}()
			return c
		}
	}
	if len(pk.Syntax) > 0 { // declared without initialiser
		c.v = c16Zero(o.Type())
	}
	return c
}

func (m *c16M) deref(v c16Val, at ast.Node) c16Val {
	switch p := v.(type) {
	case *c16Ptr:
		return p.load()
	case c16Nil:
		m.gopanic("nil pointer dereference at %s", m.pos(at))
	case *c16Opq:
		t := p.typ
		if pt, ok := t.Underlying().(*types.Pointer); ok {
			t = pt.Elem()
		}
		return &c16Opq{typ: t, why: "*" + p.why}
	}
	m.abort("dereference of %T at %s", v, m.pos(at))
	return nil
}

// fieldPath walks an (embedded) field selection from a value.
func (m *c16M) fieldPath(v c16Val, recvT types.Type, index []int, at ast.Node) c16Val {
	t := recvT
	for _, i := range index {
		if pt, ok := t.Underlying().(*types.Pointer); ok {
			v = m.deref(v, at)
			t = pt.Elem()
		}
		st, ok := t.Underlying().(*types.Struct)
		if !ok {
			m.abort("field selection on %s at %s", t, m.pos(at))
		}
		fld := st.Field(i)
		switch s := v.(type) {
		case *c16Struct:
			v = s.f[fld.Name()]
		case *c16Opq:
			v = &c16Opq{typ: fld.Type(), why: s.why + "." + fld.Name()}
		default:
			m.abort("field %s of %T at %s", fld.Name(), v, m.pos(at))
		}
		t = fld.Type()
	}
	return v
}

func (m *c16M) evalSelector(f *c16Frame, x *ast.SelectorExpr) c16Val {
	if sel := f.info.Selections[x]; sel != nil {
		switch sel.Kind() {
		case types.FieldVal:
			return m.fieldPath(m.eval(f, x.X), sel.Recv(), sel.Index(), x)
		case types.MethodVal:
			fn := sel.Obj().(*types.Func)
			return &c16Bound{fn: fn, recv: m.receiver(f, x, sel, fn.Type().(*types.Signature))}
		}
	}
	// package-qualified identifier
	switch o := f.info.Uses[x.Sel].(type) {
	case *types.Var:
		if c := m.global(o); c != nil {
			return c.v
		}
	case *types.Func:
		return &c16FnVal{fn: o}
	}
	m.abort("unsupported selector at %s", m.pos(x))
	return nil
}

func (m *c16M) toInt(v c16Val, at ast.Node) (int, bool) {
	switch i := v.(type) {
	case int64:
		return int(i), true
	case *c16Opq:
		return 0, false
	}
	m.abort("integer expected, got %T at %s", v, m.pos(at))
	return 0, false
}

func (m *c16M) evalIndex(f *c16Frame, x *ast.IndexExpr) c16Val {
	base := m.eval(f, x.X)
	elemT := f.info.TypeOf(x)
	if p, ok := base.(*c16Ptr); ok { // pointer to array
		base = p.load()
	}
	switch b := base.(type) {
	case *c16Map, c16Nil:
		key := m.eval(f, x.Index)
		if mp, ok := b.(*c16Map); ok {
			k, ok := c16Key(key)
			if !ok {
				return &c16Opq{typ: elemT, why: "map[opaque key]"}
			}
			if v, ok := mp.m[k]; ok {
				return v
			}
		}
		return c16Zero(elemT)
	case *c16Opq:
		m.eval(f, x.Index)
		return &c16Opq{typ: elemT, why: b.why + "[i]"}
	}
	i, ok := m.toInt(m.eval(f, x.Index), x)
	if !ok {
		return &c16Opq{typ: elemT, why: "x[opaque index]"}
	}
	switch b := base.(type) {
	case c16Slice:
		if i < 0 || i >= b.n {
			m.gopanic("index %d out of range [0,%d) at %s", i, b.n, m.pos(x))
		}
		return b.at(i)
	case *c16Arr:
		if i < 0 || i >= len(b.e) {
			m.gopanic("index %d out of range at %s", i, m.pos(x))
		}
		return b.e[i]
	case string:
		if i < 0 || i >= len(b) {
			m.gopanic("index %d out of range at %s", i, m.pos(x))
		}
		return int64(b[i])
	}
	m.abort("index of %T at %s", base, m.pos(x))
	return nil
}

func (m *c16M) evalSliceExpr(f *c16Frame, x *ast.SliceExpr) c16Val {
	base := m.eval(f, x.X)
	bound := func(e ast.Expr, def int) int {
		if e == nil {
			return def
		}
		i, ok := m.toInt(m.eval(f, e), x)
		if !ok {
			m.abort("opaque slice bound at %s", m.pos(x))
		}
		return i
	}
	switch b := base.(type) {
	case c16Slice:
		lo, hi := bound(x.Low, 0), bound(x.High, b.n)
		mx := bound(x.Max, b.cap)
		if lo < 0 || hi < lo || hi > b.cap || mx < hi || mx > b.cap {
			m.gopanic("slice bounds out of range [%d:%d] with capacity %d at %s", lo, hi, b.cap, m.pos(x))
		}
		if b.arr == nil {
			return b
		}
		return c16Slice{typ: b.typ, arr: b.arr, off: b.off + lo, n: hi - lo, cap: mx - lo}
	case string:
		lo, hi := bound(x.Low, 0), bound(x.High, len(b))
		if lo < 0 || hi < lo || hi > len(b) {
			m.gopanic("string slice out of range at %s", m.pos(x))
		}
		return b[lo:hi]
	case *c16Opq:
		return &c16Opq{typ: f.info.TypeOf(x), why: b.why + "[:]"}
	}
	m.abort("slice of %T at %s", base, m.pos(x))
	return nil
}

func (m *c16M) evalUnary(f *c16Frame, x *ast.UnaryExpr) c16Val {
	if x.Op == token.AND {
		if cl, ok := ast.Unparen(x.X).(*ast.CompositeLit); ok {
			t := f.info.TypeOf(cl)
			return m.newPtr(t, &c16Cell{v: m.evalComposite(f, cl, t)})
		}
		ref := m.lvalue(f, x.X)
		return &c16Ptr{elem: f.info.TypeOf(x.X), load: ref.get, store: ref.set, id: ref.ident(m)}
	}
	v := m.eval(f, x.X)
	if o, ok := v.(*c16Opq); ok {
		return &c16Opq{typ: f.info.TypeOf(x), why: x.Op.String() + o.why, deps: o.deps, cmp: o.cmp, neg: o.neg != (x.Op == token.NOT)}
	}
	if x.Op == token.SUB {
		if sv, isSym := v.(*c16Sym); isSym || (func() bool { fl, ok := v.(c16Flt); return ok && fl.tok != "" })() {
			if !isSym {
				sv, _ = c16ToSym(v)
			}
			neg := &c16Sym{deps: sv.deps}
			if sv.poly != nil {
				neg.poly = c16PolyMul(sv.poly, c16Poly{"": -1})
			}
			return neg
		}
	}
	switch x.Op {
	case token.NOT:
		if b, ok := v.(bool); ok {
			return !b
		}
	case token.SUB:
		switch n := v.(type) {
		case int64:
			return -n
		case c16Flt:
			if n.tok == "" {
				return c16Flt{v: -n.v}
			}
			return &c16Opq{typ: f.info.TypeOf(x), why: "-" + n.tok}
		}
	case token.ADD:
		return v
	case token.XOR:
		if n, ok := v.(int64); ok {
			return ^n
		}
	}
	m.abort("unsupported unary %s on %T at %s", x.Op, v, m.pos(x))
	return nil
}
