package rules

import (
	"fmt"
	"go/ast"
	"go/token"
	"go/types"
	"strconv"
	"strings"

	"osmcheck/core"
)

// c03EV is one (state, value) result of evaluating an expression; evaluation can fork (inlined calls, && / ||).
type c03EV struct {
	st *c03State
	v  *c03V
}

type c03ELV struct {
	st *c03State
	vs []*c03V
}

type c03CV struct {
	st *c03State
	b  bool
}

// spend takes one unit of the path budget; false = exhausted.
func (x *c03Interp) spend() bool {
	x.budget--
	if x.budget < 0 {
		if x.Aborted == "" {
			x.Aborted = "more paths than the exploration budget"
		}
		return false
	}
	return true
}

// fieldPath resolves the field variables a selector walks through (embedded fields included).
func c03SelFields(sel *types.Selection) []*types.Var {
	var out []*types.Var
	t := sel.Recv()
	idx := sel.Index()
	if sel.Kind() != types.FieldVal {
		idx = idx[:len(idx)-1]
	}
	for _, i := range idx {
		st, ok := c03Deref(t).Underlying().(*types.Struct)
		if !ok || i >= st.NumFields() {
			return nil
		}
		f := st.Field(i)
		out = append(out, f)
		t = f.Type()
	}
	return out
}

func (x *c03Interp) evalList(fr *c03Frame, st *c03State, es []ast.Expr) []c03ELV {
	outs := []c03ELV{{st, nil}}
	for _, e := range es {
		var next []c03ELV
		for _, o := range outs {
			for _, ev := range x.eval(fr, o.st, e) {
				vs := append(append([]*c03V{}, o.vs...), ev.v)
				next = append(next, c03ELV{ev.st, vs})
			}
		}
		outs = next
	}
	return outs
}

func c03One(st *c03State, v *c03V) []c03EV { return []c03EV{{st, v}} }

// eval evaluates an expression.
func (x *c03Interp) eval(fr *c03Frame, st *c03State, e ast.Expr) []c03EV {
	e = ast.Unparen(e)
	info := fr.info()
	if tv, ok := info.Types[e]; ok && tv.Value != nil {
		return c03One(st, c03ConstValue(tv))
	}
	t := info.TypeOf(e)
	switch e := e.(type) {
	case *ast.Ident:
		switch o := objOf(info, e).(type) {
		case *types.Nil:
			return c03One(st, &c03V{K: c03KNil, T: t})
		case *types.Func:
			return c03One(st, &c03V{K: c03KFunc, Fn: o, T: t})
		case *types.Var:
			if v := st.vars[o]; v != nil {
				return c03One(st, v)
			}
			if o.Pkg() != nil && o.Parent() == o.Pkg().Scope() {
				if init, gfi := x.globalInit(o); init != nil && fr.depth < c03MaxDepth {
					var out []c03EV
					for _, ev := range x.eval(&c03Frame{fi: gfi, parent: fr, depth: fr.depth + 1, label: "initialiser of " + o.Name()}, st, init) {
						c := *ev.v
						c.Shared = o
						out = append(out, c03EV{ev.st, &c})
					}
					return out
				}
				return c03One(st, x.Param(o))
			}
			return c03One(st, x.unk(t))
		}
		return c03One(st, x.unk(t))
	case *ast.SelectorExpr:
		sel := info.Selections[e]
		if sel == nil {
			switch o := info.Uses[e.Sel].(type) {
			case *types.Var:
				return c03One(st, x.Param(o))
			case *types.Func:
				return c03One(st, &c03V{K: c03KFunc, Fn: o, T: t})
			}
			return c03One(st, x.unk(t))
		}
		if sel.Kind() == types.MethodVal {
			// a method value: the method bound to its receiver
			if m, ok := sel.Obj().(*types.Func); ok {
				var out []c03EV
				for _, ev := range x.eval(fr, st, e.X) {
					rv := ev.v
					for _, f := range c03SelFields(sel) {
						rv = x.field(ev.st, rv, f, e, fr)
					}
					out = append(out, c03EV{ev.st, &c03V{K: c03KFunc, Fn: m, From: []*c03V{rv}, T: t}})
				}
				return out
			}
		}
		if sel.Kind() != types.FieldVal {
			return c03One(st, x.unk(t))
		}
		fs := c03SelFields(sel)
		var out []c03EV
		for _, ev := range x.eval(fr, st, e.X) {
			v := ev.v
			for _, f := range fs {
				v = x.field(ev.st, v, f, e, fr)
			}
			out = append(out, c03EV{ev.st, v})
		}
		return out
	case *ast.StarExpr:
		var out []c03EV
		for _, ev := range x.eval(fr, st, e.X) {
			out = append(out, c03EV{ev.st, x.deref(ev.st, ev.v, t, e, fr)})
		}
		return out
	case *ast.UnaryExpr:
		switch e.Op {
		case token.AND:
			if lit, ok := ast.Unparen(e.X).(*ast.CompositeLit); ok {
				var out []c03EV
				for _, ev := range x.evalLit(fr, st, lit) {
					out = append(out, c03EV{ev.st, x.alloc(ev.st, ev.v, t, e)})
				}
				return out
			}
			if id, ok := ast.Unparen(e.X).(*ast.Ident); ok {
				if o, ok := objOf(info, id).(*types.Var); ok {
					return c03One(st, &c03V{K: c03KAddr, Var: o, T: t})
				}
			}
			if t == nil {
				if xt := info.TypeOf(e.X); xt != nil {
					t = types.NewPointer(xt) // synthesised &recv of a pointer-receiver call
				}
			}
			if out, ok := x.addrOf(fr, st, e.X, t); ok {
				return out
			}
			if ix, ok := ast.Unparen(e.X).(*ast.IndexExpr); ok {
				// &x[i]: a pointer to (a copy of) the element - reads through it see the element; a write through it is
				// not carried back into the slice
				var out []c03EV
				for _, ev := range x.eval(fr, st, ix) {
					p := x.alloc(ev.st, ev.v, t, e)
					p.From = []*c03V{ev.v}
					out = append(out, c03EV{ev.st, p})
				}
				return out
			}
			var out []c03EV
			for _, ev := range x.eval(fr, st, c03AddrBase(e.X)) {
				out = append(out, c03EV{ev.st, &c03V{K: c03KUnk, T: t, Key: x.fresh("a"), From: []*c03V{ev.v}, Z: triF}})
			}
			return out
		case token.NOT:
			return x.condAsValue(fr, st, e, t)
		}
		var out []c03EV
		for _, ev := range x.eval(fr, st, e.X) {
			u := x.unk(t)
			u.From = []*c03V{ev.v}
			out = append(out, c03EV{ev.st, u})
		}
		return out
	case *ast.BinaryExpr:
		switch e.Op {
		case token.LAND, token.LOR, token.EQL, token.NEQ, token.LSS, token.GTR, token.LEQ, token.GEQ:
			return x.condAsValue(fr, st, e, t)
		}
		var out []c03EV
		for _, o := range x.evalList(fr, st, []ast.Expr{e.X, e.Y}) {
			a, b := o.vs[0], o.vs[1]
			switch {
			case e.Op == token.ADD && a.K == c03KStr && b.K == c03KStr:
				out = append(out, c03EV{o.st, &c03V{K: c03KStr, Str: a.Str + b.Str, T: t}})
				continue
			case a.K == c03KInt && b.K == c03KInt:
				if n, ok := c03IntOp(e.Op, a.Int, b.Int); ok {
					out = append(out, c03EV{o.st, &c03V{K: c03KInt, Int: n, T: t}})
					continue
				}
			}
			u := x.unk(t)
			u.From = o.vs
			if c, ok := c03CountOp(e.Op, a, b); ok {
				u.HasCnt, u.Cnt = true, c
			}
			out = append(out, c03EV{o.st, u})
		}
		return out
	case *ast.CallExpr:
		return x.evalCall(fr, st, e)
	case *ast.CompositeLit:
		if _, isPtr := t.Underlying().(*types.Pointer); isPtr { // elided &T in a []*T literal
			var out []c03EV
			for _, ev := range x.evalLit(fr, st, e) {
				out = append(out, c03EV{ev.st, x.alloc(ev.st, ev.v, t, e)})
			}
			return out
		}
		return x.evalLit(fr, st, e)
	case *ast.TypeAssertExpr:
		if e.Type == nil {
			return c03One(st, x.unk(t))
		}
		var out []c03EV
		for _, ev := range x.eval(fr, st, e.X) {
			switch ev.st.typeMatch(ev.v, t) {
			case triT:
				out = append(out, c03EV{ev.st, ev.v})
			case triF:
				ev.st.event(c03Event{Kind: "badassert", Node: e, Frame: fr, Val: ev.v, T: t, Why: "the assertion fails on this path"})
				out = append(out, c03EV{ev.st, x.unk(t)})
			default:
				// an assertion the path already checked with the comma-ok form yields the value bound there
				if key := c03AssertKey(ev.v, t); ev.v.Key != "" && ev.st.known[key+"?"] == triF {
					if _, checked := ev.st.known[key+"?"]; checked {
						out = append(out, c03EV{ev.st, x.initVal(&c03Root{Kind: "assert", Node: e, Of: ev.v, T: t}, nil, t, key)})
						continue
					}
				}
				ev.st.event(c03Event{Kind: "assert", Node: e, Frame: fr, Val: ev.v, T: t})
				out = append(out, c03EV{ev.st, c03Retype(ev.v, t)})
			}
		}
		return out
	case *ast.IndexExpr:
		var out []c03EV
		for _, o := range x.evalList(fr, st, []ast.Expr{e.X, e.Index}) {
			b, i := o.vs[0], o.vs[1]
			if forks := x.mapLookupForks(o.st, b, i, t); forks != nil {
				for _, f := range forks {
					out = append(out, c03EV{f.st, f.v})
				}
				continue
			}
			if hit, known := c03MapLookup(b, i); known {
				if hit == nil {
					hit = c03ZeroValue(t)
				}
				out = append(out, c03EV{o.st, hit})
				continue
			}
			if b.K == c03KList && b.Base == nil && i.K == c03KInt && int(i.Int) < len(b.Elems) && i.Int >= 0 {
				out = append(out, c03EV{o.st, b.Elems[i.Int]})
				continue
			}
			// an element of a slice / array the path did not build: the generic element, as in a range over it
			if et := c03RangeElemType(b.T); et != nil && b.Key != "" {
				if _, isMap := b.T.Underlying().(*types.Map); !isMap {
					out = append(out, c03EV{o.st, x.initVal(&c03Root{Kind: "elem", Node: e, Of: b, T: t}, nil, t, "elem("+b.Key+")")})
					continue
				}
			}
			out = append(out, c03EV{o.st, &c03V{K: c03KUnk, T: t, Key: x.fresh("i"), From: []*c03V{b, i}, Z: triU}})
		}
		return out
	case *ast.SliceExpr:
		var out []c03EV
		bounds := []ast.Expr{}
		for _, b := range []ast.Expr{e.Low, e.High} {
			if b != nil {
				bounds = append(bounds, b)
			}
		}
		for _, ev := range x.eval(fr, st, e.X) {
			for _, bo := range x.evalList(fr, ev.st, bounds) {
				v := ev.v
				if e.High != nil {
					v = c03MadeFull(v) // x[a:b] of a presized list that has been filled completely
				}
				if v.K == c03KAddr || v.K == c03KPtr { // slicing through a pointer to an array
					if pv := bo.st.Pointee(v); pv != nil {
						v = pv
					}
				}
				lo, hi, known := int64(0), int64(-1), true
				i := 0
				if e.Low != nil {
					if bo.vs[i].K == c03KInt {
						lo = bo.vs[i].Int
					} else {
						known = false
					}
					i++
				}
				if e.High != nil {
					if bo.vs[i].K == c03KInt {
						hi = bo.vs[i].Int
					} else {
						known = false
					}
				}
				switch {
				case known && lo == 0 && hi < 0 && e.Max == nil:
					// x[:] is x (an array becomes the slice of all its elements)
					out = append(out, c03EV{bo.st, c03Retype(v, t)})
				case known && v.K == c03KList && v.Base == nil && !c03HasSpread(v):
					n := int64(len(v.Elems))
					if hi < 0 {
						hi = n
					}
					if lo <= hi && hi <= n {
						l := *v
						l.T, l.Elems = t, append([]*c03V{}, v.Elems[lo:hi]...)
						if len(v.Keys) == len(v.Elems) {
							l.Keys = append([]*c03V{}, v.Keys[lo:hi]...)
						}
						out = append(out, c03EV{bo.st, &l})
						break
					}
					fallthrough
				default:
					if known && hi < 0 && v.K == c03KList && v.Base != nil {
						if nl := c03MadeSliceFrom(v, lo); nl != nil {
							nl.T = t
							out = append(out, c03EV{bo.st, nl})
							break
						}
					}
					out = append(out, c03EV{bo.st, &c03V{K: c03KUnk, T: t, Key: x.fresh("s"), From: []*c03V{v}, Z: triU}})
				}
			}
		}
		return out
	case *ast.FuncLit:
		return c03One(st, &c03V{K: c03KFunc, Lit: e, Env: fr, T: t})
	}
	return c03One(st, x.unk(t))
}

// c03AddrBase returns the innermost expression whose evaluation has the effects of taking &e (the base of the chain).
func c03AddrBase(e ast.Expr) ast.Expr {
	for {
		switch y := ast.Unparen(e).(type) {
		case *ast.SelectorExpr:
			e = y.X
		case *ast.IndexExpr:
			e = y.X
		default:
			return ast.Unparen(e)
		}
	}
}

func (x *c03Interp) condAsValue(fr *c03Frame, st *c03State, e ast.Expr, t types.Type) []c03EV {
	var out []c03EV
	for _, cv := range x.evalCond(fr, st, e) {
		out = append(out, c03EV{cv.st, &c03V{K: c03KBool, Bool: cv.b, T: t}})
	}
	return out
}

func (x *c03Interp) deref(st *c03State, v *c03V, t types.Type, at ast.Node, fr *c03Frame) *c03V {
	switch v.K {
	case c03KPtr:
		return st.heap[v.Obj]
	case c03KRef:
		return x.refTarget(st, v, at, fr)
	case c03KAddr:
		if c := st.vars[v.Var]; c != nil {
			return c
		}
	case c03KInit:
		if m := st.mem[v.Key]; m != nil {
			return m
		}
		if st.Zero(v) == triT {
			st.event(c03Event{Kind: "nilderef", Node: at, Frame: fr, Val: v, Why: "dereference of " + v.PathString() + ", which is nil on this path"})
		}
		return c03Retype(v, t)
	case c03KNil:
		st.event(c03Event{Kind: "nilderef", Node: at, Frame: fr, Why: "dereference of a nil pointer"})
	}
	u := x.unk(t)
	u.From = []*c03V{v}
	return u
}

func (x *c03Interp) alloc(st *c03State, content *c03V, ptrT types.Type, site ast.Node) *c03V {
	x.nid++
	st.heap[x.nid] = content
	return &c03V{K: c03KPtr, Obj: x.nid, T: ptrT, Site: site, Born: len(st.Trace)}
}

// evalLit evaluates a composite literal to a struct value or a list.
func (x *c03Interp) evalLit(fr *c03Frame, st *c03State, lit *ast.CompositeLit) []c03EV {
	info := fr.info()
	t := info.TypeOf(lit)
	if p, ok := t.Underlying().(*types.Pointer); ok {
		t = p.Elem()
	}
	var vals []ast.Expr
	for _, el := range lit.Elts {
		if kv, ok := el.(*ast.KeyValueExpr); ok {
			vals = append(vals, kv.Value)
		} else {
			vals = append(vals, el)
		}
	}
	var out []c03EV
	for _, o := range x.evalList(fr, st, vals) {
		switch u := t.Underlying().(type) {
		case *types.Struct:
			sv := &c03V{K: c03KStruct, T: t, Fields: map[*types.Var]*c03V{}, Site: lit, Born: len(o.st.Trace)}
			for i, el := range lit.Elts {
				var f *types.Var
				if kv, ok := el.(*ast.KeyValueExpr); ok {
					if id, ok := kv.Key.(*ast.Ident); ok {
						f, _ = info.Uses[id].(*types.Var)
						if f == nil {
							for j := 0; j < u.NumFields(); j++ {
								if u.Field(j).Name() == id.Name {
									f = u.Field(j)
								}
							}
						}
					}
				} else if i < u.NumFields() {
					f = u.Field(i)
				}
				if f != nil {
					sv.Fields[f] = o.vs[i]
				}
			}
			out = append(out, c03EV{o.st, sv})
		case *types.Slice, *types.Array:
			l := &c03V{K: c03KList, T: t, Elems: o.vs, NonNil: true, Site: lit, Born: len(o.st.Trace)}
			// a keyed literal ([...]T{k: v, ...}) is a table: remember the (constant) indexes
			keyed, next := false, int64(0)
			var keys []*c03V
			for _, el := range lit.Elts {
				if kv, ok := el.(*ast.KeyValueExpr); ok {
					keyed = true
					if tv, ok := info.Types[kv.Key]; ok && tv.Value != nil {
						if k := c03ConstValue(tv); k.K == c03KInt {
							next = k.Int
						}
					}
				}
				keys = append(keys, &c03V{K: c03KInt, Int: next, T: types.Typ[types.Int]})
				next++
			}
			if keyed {
				l.Keys = keys
			}
			out = append(out, c03EV{o.st, l})
		case *types.Map:
			m := &c03V{K: c03KList, T: t, Elems: o.vs, NonNil: true, Site: lit}
			for _, el := range lit.Elts {
				var k *c03V
				if kv, ok := el.(*ast.KeyValueExpr); ok {
					if tv, ok := info.Types[kv.Key]; ok && tv.Value != nil {
						k = c03ConstValue(tv)
					}
				}
				if k == nil {
					k = x.unk(nil)
				}
				m.Keys = append(m.Keys, k)
			}
			out = append(out, c03EV{o.st, m})
		default:
			out = append(out, c03EV{o.st, x.unk(t)})
		}
	}
	return out
}

// typeMatch is c03TypeMatch with the path's knowledge: an interface value that is nil on this path has no dynamic type.
func (st *c03State) typeMatch(v *c03V, t types.Type) tri {
	if v != nil && v.K != c03KNil && c03IsIface(v.T) && st.Zero(v) == triT {
		return triF
	}
	return c03TypeMatch(v, t)
}

// c03AssertKey is the identity of "v asserted to t".
func c03AssertKey(v *c03V, t types.Type) string { return "as(" + v.Key + ":" + c03ShortT(t) + ")" }

// c03TypeMatch: does the dynamic type of v satisfy an assertion to t?
func c03TypeMatch(v *c03V, t types.Type) tri {
	if v == nil || t == nil {
		return triU
	}
	if v.K == c03KNil {
		return triF
	}
	if v.T == nil || c03IsIface(v.T) {
		return triU
	}
	if it, ok := t.Underlying().(*types.Interface); ok {
		if types.Implements(v.T, it) {
			return triT
		}
		return triF
	}
	if types.Identical(v.T, t) {
		return triT
	}
	return triF
}

// ---- conditions --------------------------------------------------------------------------------

func (x *c03Interp) fork(fr *c03Frame, st *c03State, cond ast.Expr, refine func(st *c03State, val bool)) []c03CV {
	if !x.spend() {
		return []c03CV{{st, false}}
	}
	a, b := st.clone(), st
	if refine != nil {
		refine(a, true)
		refine(b, false)
	}
	a.event(c03Event{Kind: "fork", Node: cond, Frame: fr, Cond: cond, Taken: true})
	b.event(c03Event{Kind: "fork", Node: cond, Frame: fr, Cond: cond, Taken: false})
	return []c03CV{{a, true}, {b, false}}
}

// zeroKey returns the refinement key of "v is zero".
func c03ZeroKey(v *c03V) string {
	if v == nil {
		return ""
	}
	if v.LenOf != nil {
		return c03ZeroKey(v.LenOf)
	}
	if v.K == c03KInit || v.K == c03KUnk {
		return v.Key
	}
	if v.K == c03KList && len(v.Elems) == 0 && v.Base != nil {
		return c03ZeroKey(v.Base)
	}
	return ""
}

func c03IsZeroLit(v *c03V) bool {
	switch v.K {
	case c03KNil:
		return true
	case c03KStr:
		return v.Str == ""
	case c03KInt:
		return v.Int == 0
	}
	return false
}

// compareEq evaluates a == b: result and, when unknown, the key whose zero-ness equals the result.
func (x *c03Interp) compareEq(st *c03State, a, b *c03V) (tri, string) {
	if c03IsZeroLit(b) && !c03IsZeroLit(a) {
		return st.Zero(a), c03ZeroKey(a)
	}
	if c03IsZeroLit(a) && !c03IsZeroLit(b) {
		return st.Zero(b), c03ZeroKey(b)
	}
	for _, pr := range [][2]*c03V{{a, b}, {b, a}} {
		if k, c := pr[0], pr[1]; k.IsInit("key") && len(k.Path) == 0 && c.K == c03KInt && c.Int < 0 {
			return triF, "" // a range index is never negative
		}
	}
	// an unknown string compared with a constant: consult / record what the path found out about it
	if (a.K == c03KInit || a.K == c03KUnk) && a.Key != "" && b.K == c03KStr {
		if s, ok := st.strs[a.Key]; ok {
			return c03Tri(s == b.Str), ""
		}
		key := c03StrKey(a.Key, b.Str)
		if r, ok := st.known[key]; ok {
			return r, ""
		}
		return triU, key
	}
	if (b.K == c03KInit || b.K == c03KUnk) && b.Key != "" && a.K == c03KStr {
		return x.compareEq(st, b, a)
	}
	switch {
	case a.K == c03KNil && b.K == c03KNil:
		return triT, ""
	case a.K == c03KStr && b.K == c03KStr:
		return c03Tri(a.Str == b.Str), ""
	case (a.K == c03KStr && b.K == c03KOther) || (a.K == c03KOther && b.K == c03KStr):
		return triF, ""
	case a.K == c03KBool && b.K == c03KBool:
		return c03Tri(a.Bool == b.Bool), ""
	case a.K == c03KInt && b.K == c03KInt:
		return c03Tri(a.Int == b.Int), ""
	case a.Ident() != "" && b.Ident() != "":
		return c03Tri(a.Ident() == b.Ident()), ""
	case a.K == c03KBool && b.K != c03KBool:
		z := st.Zero(b) // b == true  <=> b not zero
		if a.Bool {
			return triNot(z), ""
		}
		return z, c03ZeroKey(b)
	case b.K == c03KBool && a.K != c03KBool:
		return x.compareEq(st, b, a)
	case a.Key != "" && a.Key == b.Key:
		return triT, ""
	}
	return triU, ""
}

func c03Tri(b bool) tri {
	if b {
		return triT
	}
	return triF
}

// evalCond evaluates a boolean expression, forking where it is unknown.
func (x *c03Interp) evalCond(fr *c03Frame, st *c03State, e ast.Expr) []c03CV {
	e = ast.Unparen(e)
	info := fr.info()
	if tv, ok := info.Types[e]; ok && tv.Value != nil {
		if v := c03ConstValue(tv); v.K == c03KBool {
			return []c03CV{{st, v.Bool}}
		}
	}
	switch e := e.(type) {
	case *ast.UnaryExpr:
		if e.Op == token.NOT {
			var out []c03CV
			for _, cv := range x.evalCond(fr, st, e.X) {
				out = append(out, c03CV{cv.st, !cv.b})
			}
			return out
		}
	case *ast.BinaryExpr:
		switch e.Op {
		case token.LAND, token.LOR:
			var out []c03CV
			for _, cv := range x.evalCond(fr, st, e.X) {
				if cv.b == (e.Op == token.LOR) {
					out = append(out, cv)
					continue
				}
				out = append(out, x.evalCond(fr, cv.st, e.Y)...)
			}
			return out
		case token.EQL, token.NEQ:
			var out []c03CV
			for _, o := range x.evalList(fr, st, []ast.Expr{e.X, e.Y}) {
				r, key := x.compareEq(o.st, o.vs[0], o.vs[1])
				neg := e.Op == token.NEQ
				switch r {
				case triT, triF:
					out = append(out, c03CV{o.st, (r == triT) != neg})
				default:
					out = append(out, x.fork(fr, o.st, e, func(s *c03State, val bool) {
						s.refine(key, c03Tri(val != neg))
					})...)
				}
			}
			return out
		case token.LSS, token.GTR, token.LEQ, token.GEQ:
			var out []c03CV
			for _, o := range x.evalList(fr, st, []ast.Expr{e.X, e.Y}) {
				a, b, op := o.vs[0], o.vs[1], e.Op
				if a.K == c03KInt && b.K != c03KInt { // c op x  ->  x op' c
					a, b = b, a
					op = map[token.Token]token.Token{token.LSS: token.GTR, token.GTR: token.LSS, token.LEQ: token.GEQ, token.GEQ: token.LEQ}[op]
				}
				// the index a range statement binds is never negative
				if a.IsInit("key") && len(a.Path) == 0 && b.K == c03KInt && b.Int <= 0 {
					if bt, ok := a.T.Underlying().(*types.Basic); ok && bt.Info()&types.IsInteger != 0 {
						switch {
						case op == token.GEQ && b.Int <= 0, op == token.GTR && b.Int < 0:
							out = append(out, c03CV{o.st, true})
							continue
						case op == token.LSS && b.Int <= 0, op == token.LEQ && b.Int < 0:
							out = append(out, c03CV{o.st, false})
							continue
						}
					}
				}
				if a.K == c03KInt && b.K == c03KInt {
					r := map[token.Token]bool{token.LSS: a.Int < b.Int, token.GTR: a.Int > b.Int, token.LEQ: a.Int <= b.Int, token.GEQ: a.Int >= b.Int}[op]
					out = append(out, c03CV{o.st, r})
					continue
				}
				// a length compared with a constant: len > 0, len >= 1 mean "not empty"; len <= 0, len < 1 mean "empty"
				if a.LenOf != nil && b.K == c03KInt {
					isEmptyTest, isNonEmptyTest := false, false
					switch {
					case (op == token.GTR && b.Int == 0) || (op == token.GEQ && b.Int == 1):
						isNonEmptyTest = true
					case (op == token.LEQ && b.Int == 0) || (op == token.LSS && b.Int == 1):
						isEmptyTest = true
					}
					if isEmptyTest || isNonEmptyTest {
						z, key := o.st.Zero(a), c03ZeroKey(a)
						if z != triU {
							out = append(out, c03CV{o.st, (z == triT) == isEmptyTest})
						} else {
							out = append(out, x.fork(fr, o.st, e, func(s *c03State, val bool) {
								if key != "" {
									s.known[key] = c03Tri(val == isEmptyTest)
								}
							})...)
						}
						continue
					}
				}
				out = append(out, x.fork(fr, o.st, e, nil)...)
			}
			return out
		}
	}
	var out []c03CV
	for _, ev := range x.eval(fr, st, e) {
		if ev.v.K == c03KBool {
			out = append(out, c03CV{ev.st, ev.v.Bool})
			continue
		}
		switch z := ev.st.Zero(ev.v); z {
		case triT, triF:
			out = append(out, c03CV{ev.st, z == triF})
		default:
			key := c03ZeroKey(ev.v)
			out = append(out, x.fork(fr, ev.st, e, func(s *c03State, val bool) {
				if key != "" {
					s.known[key] = c03Tri(!val)
				}
			})...)
		}
	}
	return out
}

// ---- calls -------------------------------------------------------------------------------------

func (x *c03Interp) inlinable(fn *types.Func) *FuncInfo {
	if fn == nil || fn.Pkg() == nil || !strings.HasPrefix(fn.Pkg().Path(), core.ModulePath) {
		return nil
	}
	if x.Inline != nil {
		if !x.Inline(fn) {
			return nil
		}
	} else if fn.Exported() {
		return nil
	}
	fi := c03FuncInfoOf(x.P, fn)
	if fi == nil || fi.Decl.Body == nil {
		return nil
	}
	return fi
}

// evalCall evaluates a call: conversions, builtins, modelled functions, inlined repository functions, opaque calls.
func (x *c03Interp) evalCall(fr *c03Frame, st *c03State, call *ast.CallExpr) []c03EV {
	info := fr.info()
	t := info.TypeOf(call)
	// conversion
	if tv, ok := info.Types[call.Fun]; ok && tv.IsType() && len(call.Args) == 1 {
		var out []c03EV
		for _, ev := range x.eval(fr, st, call.Args[0]) {
			if c03IsIface(tv.Type) {
				out = append(out, ev)
			} else {
				out = append(out, c03EV{ev.st, c03Retype(ev.v, tv.Type)})
			}
		}
		return out
	}
	if b := builtinName(info, call); b != "" {
		return x.evalBuiltin(fr, st, call, b, t)
	}
	var out []c03EV
	for _, c := range x.calleeParts(fr, st, call) {
		switch {
		case c.fv != nil && c.fv.K == c03KFunc && c.fv.Lit != nil:
			if evs := x.callLit(fr, c.st, call, c.fv, c.args, t); evs != nil {
				out = append(out, evs...)
				continue
			}
			out = append(out, x.apply(fr, c.st, call, nil, nil, c.args, t)...)
		case c.fv != nil && c.fv.K == c03KFunc && c.fv.Fn != nil:
			var recv *c03V
			if len(c.fv.From) > 0 {
				recv = c.fv.From[0]
			}
			out = append(out, x.apply(fr, c.st, call, c.fv.Fn, recv, c.args, t)...)
		default:
			out = append(out, x.apply(fr, c.st, call, c.fn, c.recv, c.args, t)...)
		}
	}
	return out
}

// calleeParts evaluates the callee (static function, or function value), the receiver and the arguments of a call.
func (x *c03Interp) calleeParts(fr *c03Frame, st *c03State, call *ast.CallExpr) []c03Callee {
	info := fr.info()
	fn := callee(info, call)
	// receiver
	var recvE ast.Expr
	var recvFields []*types.Var
	addrTaken := false // a pointer-receiver method called on an addressable value: the receiver is its address
	if sel, ok := ast.Unparen(call.Fun).(*ast.SelectorExpr); ok {
		if s := info.Selections[sel]; s != nil && s.Kind() == types.MethodVal {
			recvE = sel.X
			recvFields = c03SelFields(s)
			if fn != nil {
				if rv := fn.Type().(*types.Signature).Recv(); rv != nil && c03IsPointer(rv.Type()) && !c03IsPointer(info.TypeOf(sel.X)) && len(recvFields) == 0 {
					if _, isIface := info.TypeOf(sel.X).Underlying().(*types.Interface); !isIface {
						addrTaken = true
					}
				}
			}
		}
	}
	if addrTaken {
		if id, ok := ast.Unparen(recvE).(*ast.Ident); ok {
			if _, isVar := objOf(info, id).(*types.Var); !isVar {
				addrTaken = false
			}
		} else {
			recvE = &ast.UnaryExpr{Op: token.AND, X: recvE} // evaluated by the & rule: an interior pointer derived from the base object
		}
	}
	methodExpr := false
	if sel, ok := ast.Unparen(call.Fun).(*ast.SelectorExpr); ok && fn != nil {
		if s := info.Selections[sel]; s != nil && s.Kind() == types.MethodExpr {
			methodExpr = true // T.m(recv, args...): the first argument is the receiver
		}
	}
	exprs := call.Args
	funcValue := false
	if recvE != nil {
		exprs = append([]ast.Expr{recvE}, call.Args...)
	} else if fn == nil {
		// call of a function value: the function expression is evaluated first
		exprs = append([]ast.Expr{call.Fun}, call.Args...)
		funcValue = true
	}
	var out []c03Callee
	for _, o := range x.evalList(fr, st, exprs) {
		var recv *c03V
		args := o.vs
		if funcValue {
			out = append(out, c03Callee{st: o.st, fv: o.vs[0], args: o.vs[1:]})
			continue
		}
		if recvE != nil {
			recv = o.vs[0]
			if id, ok := ast.Unparen(recvE).(*ast.Ident); ok && addrTaken {
				if ov, isVar := objOf(info, id).(*types.Var); isVar {
					recv = &c03V{K: c03KAddr, Var: ov, T: types.NewPointer(ov.Type())}
				}
			}
			for _, f := range recvFields {
				recv = x.field(o.st, recv, f, call, fr)
			}
			args = o.vs[1:]
		}
		if methodExpr && recv == nil && len(args) > 0 {
			recv, args = args[0], args[1:]
		}
		out = append(out, c03Callee{st: o.st, fn: fn, recv: recv, args: args})
	}
	return out
}

func c03ResultValue(rs []*c03V, t types.Type) *c03V {
	switch len(rs) {
	case 0:
		return &c03V{K: c03KTuple}
	case 1:
		return rs[0]
	}
	return &c03V{K: c03KTuple, Elems: rs, T: t}
}

// apply performs a call with evaluated receiver and arguments.
func (x *c03Interp) apply(fr *c03Frame, st *c03State, call *ast.CallExpr, fn *types.Func, recv *c03V, args []*c03V, t types.Type) []c03EV {
	deref := func() []*c03V {
		d := make([]*c03V, len(args))
		for i, a := range args {
			d[i] = st.Pointee(a)
		}
		return d
	}
	if x.Model != nil {
		d := deref()
		if rs, ok := x.Model(x, st, fr, call, fn, recv, args); ok {
			st.event(c03Event{Kind: "call", Node: call, Frame: fr, Call: call, Fn: fn, Recv: recv, Args: args, Deref: d, Results: rs})
			return c03One(st, c03ResultValue(rs, t))
		}
	}
	if rs, ok := x.stdModel(st, fn, recv, args, t); ok {
		return c03One(st, c03ResultValue(rs, t))
	}
	// a call through an interface of the repository on a value whose concrete type the path knows is the call of
	// that type's method (strategy objects, osm.Object values built on the path)
	if fn != nil && recv != nil && c03IsRepoInterfaceMethod(fn) {
		if m := c03ConcreteMethod(recv, fn); m != nil {
			fn = m
		} else {
			st.event(c03Event{Kind: "dynamic", Node: call, Frame: fr, Call: call, Fn: fn, Why: "call of " + funcName(fn) + " through an interface of the repository on a value whose concrete type is not known on this path"})
		}
	}
	if fn == nil {
		st.event(c03Event{Kind: "dynamic", Node: call, Frame: fr, Call: call, Why: "call of a function value that is not a function literal / method value known on this path"})
	}
	if fi := x.inlinable(fn); fi != nil && fn.Type().(*types.Signature).TypeParams().Len() > 0 {
		st.event(c03Event{Kind: "unsupported", Node: call, Frame: fr, Call: call, Why: "call of the generic function " + funcName(fn) + ": type arguments are not substituted by the analysis"})
	} else if fi != nil && fr.depth < c03MaxDepth {
		// a helper may be active more than once on a path (a wrapper writing nested wrappers through a callback);
		// genuine recursion is cut after a few activations
		active := 0
		for f := fr; f != nil; f = f.parent {
			if f.fi.Obj == fn && f.lit == nil && f.label == "" {
				active++
			}
		}
		if active < 3 {
			if active > 0 {
				restore := c03SaveScope(st, fi.Decl)
				evs := x.inline(fr, st, call, fi, recv, args, t)
				for _, ev := range evs {
					restore(ev.st)
				}
				return evs
			}
			return x.inline(fr, st, call, fi, recv, args, t)
		}
	}
	// opaque
	var rs []*c03V
	if fn != nil {
		sig := fn.Type().(*types.Signature)
		for i := 0; i < sig.Results().Len(); i++ {
			rt := sig.Results().At(i).Type()
			if namedPath(rt) == "error" && x.ErrNil != nil && x.ErrNil(fn) {
				rs = append(rs, &c03V{K: c03KNil, T: rt})
				continue
			}
			u := x.unk(rt)
			u.Call, u.Fn = call, fn
			if recv != nil {
				u.From = append(u.From, recv)
			}
			u.From = append(u.From, args...)
			rs = append(rs, u)
		}
	} else if t != nil {
		if tt, ok := t.(*types.Tuple); ok {
			for i := 0; i < tt.Len(); i++ {
				rs = append(rs, x.unk(tt.At(i).Type()))
			}
		} else {
			rs = append(rs, x.unk(t))
		}
	}
	st.event(c03Event{Kind: "call", Node: call, Frame: fr, Call: call, Fn: fn, Recv: recv, Args: args, Deref: deref(), Results: rs})
	// a local whose address was handed out is unknown afterwards, unless it holds a pointer (the pointee is filled)
	for _, a := range args {
		if a.K == c03KRef {
			if cur := x.refTarget(st, a, call, fr); cur == nil || (cur.K != c03KPtr && cur.K != c03KAddr && cur.K != c03KRef) {
				u := x.unk(c03DerefT(a.T))
				u.Call, u.Fn, u.From = call, fn, append([]*c03V{a}, args...)
				x.refStore(st, a, nil, u, call, fr)
			}
		}
		if a.K == c03KAddr {
			cur := st.vars[a.Var]
			if cur != nil && (cur.K == c03KPtr || cur.K == c03KAddr) {
				continue
			}
			u := x.unk(a.Var.Type())
			u.Call, u.Fn, u.From = call, fn, append([]*c03V{a}, args...)
			st.vars[a.Var] = u
		}
	}
	return c03One(st, c03ResultValue(rs, t))
}

// stdModel models a few standard-library functions whose result the rules depend on.
func (x *c03Interp) stdModel(st *c03State, fn *types.Func, recv *c03V, args []*c03V, t types.Type) ([]*c03V, bool) {
	if s, ok := c03FoldString(fn, args); ok {
		return []*c03V{{K: c03KStr, Str: s, T: t}}, true
	}
	switch {
	case isPkgFunc(fn, "strings", "ToLower"), isPkgFunc(fn, "strings", "ToUpper"):
		if len(args) == 1 {
			switch args[0].K {
			case c03KStr:
				s := strings.ToLower(args[0].Str)
				if fn.Name() == "ToUpper" {
					s = strings.ToUpper(args[0].Str)
				}
				return []*c03V{{K: c03KStr, Str: s, T: t}}, true
			case c03KOther:
				return []*c03V{args[0]}, true
			}
		}
	case isPkgFunc(fn, "strings", "EqualFold"):
		if len(args) == 2 {
			a, b := args[0], args[1]
			switch {
			case a.K == c03KStr && b.K == c03KStr:
				return []*c03V{{K: c03KBool, Bool: strings.EqualFold(a.Str, b.Str), T: t}}, true
			case (a.K == c03KOther && b.K == c03KStr) || (a.K == c03KStr && b.K == c03KOther):
				return []*c03V{{K: c03KBool, Bool: false, T: t}}, true
			}
		}
	case isPkgFunc(fn, "fmt", "Errorf"), isPkgFunc(fn, "errors", "New"):
		u := x.unk(t)
		u.Z, u.Fn, u.From = triF, fn, args
		return []*c03V{u}, true
	}
	return nil, false
}

func (x *c03Interp) evalBuiltin(fr *c03Frame, st *c03State, call *ast.CallExpr, name string, t types.Type) []c03EV {
	info := fr.info()
	switch name {
	case "new":
		if len(call.Args) == 1 {
			return c03One(st, x.alloc(st, c03ZeroValue(info.TypeOf(call.Args[0])), t, call))
		}
	case "make":
		var out []c03EV
		for _, o := range x.evalList(fr, st, call.Args[1:]) {
			l := &c03V{K: c03KList, T: t, NonNil: true, Site: call, Born: len(o.st.Trace)}
			// make([]T, n) with n not known to be 0 already holds n (zero) elements
			if _, isSlice := t.Underlying().(*types.Slice); isSlice && len(o.vs) > 0 && o.st.Zero(o.vs[0]) != triT {
				l.Base = &c03V{K: c03KUnk, T: t, Key: x.fresh("made"), Z: o.st.Zero(o.vs[0]), From: []*c03V{o.vs[0]}}
			}
			out = append(out, c03EV{o.st, l})
		}
		return out
	case "panic":
		for _, o := range x.evalList(fr, st, call.Args) {
			o.st.event(c03Event{Kind: "panic", Node: call, Frame: fr, Args: o.vs})
			x.pending = append(x.pending, c03Out{st: o.st, ctl: c03Panic, pos: call.Pos()})
		}
		return nil // no continuation; execStmt turns an empty result of an ExprStmt panic into a panic outcome
	}
	var out []c03EV
	for _, o := range x.evalList(fr, st, call.Args) {
		switch name {
		case "len", "cap":
			a := c03MadeFull(o.vs[0])
			if a.K == c03KList && a.Base == nil && name == "len" {
				spread := false
				for _, e := range a.Elems {
					if e.K == c03KSpread {
						spread = true
					}
				}
				if !spread {
					out = append(out, c03EV{o.st, &c03V{K: c03KInt, Int: int64(len(a.Elems)), T: t}})
					continue
				}
			}
			if a.K == c03KStr {
				out = append(out, c03EV{o.st, &c03V{K: c03KInt, Int: int64(len(a.Str)), T: t}})
				continue
			}
			u := x.unk(t)
			if name == "len" {
				u.LenOf = a
				if a.K == c03KInit {
					u.HasCnt, u.Cnt = true, 1 // a loop over a symbolic list runs once
				}
			}
			out = append(out, c03EV{o.st, u})
		case "append":
			base := o.vs[0]
			l := &c03V{K: c03KList, T: t, Site: call}
			switch {
			case base.K == c03KList:
				l.Base, l.NonNil = base.Base, base.NonNil
				l.Elems = append(l.Elems, base.Elems...)
			case base.K == c03KNil:
			default:
				l.Base = base
			}
			rest := o.vs[1:]
			if call.Ellipsis.IsValid() && len(rest) == 1 {
				if rest[0].K == c03KList && rest[0].Base == nil {
					l.Elems = append(l.Elems, rest[0].Elems...)
				} else {
					l.Elems = append(l.Elems, &c03V{K: c03KSpread, From: []*c03V{rest[0]}})
				}
			} else {
				l.Elems = append(l.Elems, rest...)
			}
			out = append(out, c03EV{o.st, l})
		default:
			if name == "delete" || name == "clear" || name == "copy" {
				o.st.event(c03Event{Kind: "builtin", Node: call, Frame: fr, Call: call, Args: o.vs, Why: name})
			}
			u := x.unk(t)
			u.From = o.vs
			out = append(out, c03EV{o.st, u})
		}
	}
	return out
}

// inline enters a repository function.
func (x *c03Interp) inline(fr *c03Frame, st *c03State, call *ast.CallExpr, fi *FuncInfo, recv *c03V, args []*c03V, t types.Type) []c03EV {
	sig := fi.Obj.Type().(*types.Signature)
	nf := &c03Frame{fi: fi, parent: fr, call: call, depth: fr.depth + 1}
	st.event(c03Event{Kind: "enter", Node: call, Frame: fr, Call: call, Fn: fi.Obj, Recv: recv, Args: args})
	if rv := sig.Recv(); rv != nil && recv != nil {
		st.vars[rv] = recv
	}
	np := sig.Params().Len()
	for i := 0; i < np; i++ {
		p := sig.Params().At(i)
		switch {
		case sig.Variadic() && i == np-1 && !call.Ellipsis.IsValid():
			var rest []*c03V
			if i < len(args) {
				rest = args[i:]
			}
			st.vars[p] = &c03V{K: c03KList, T: p.Type(), Elems: rest, NonNil: len(rest) > 0}
		case i < len(args):
			st.vars[p] = args[i]
		default:
			st.vars[p] = x.unk(p.Type())
		}
	}
	for i := 0; i < sig.Results().Len(); i++ {
		if r := sig.Results().At(i); r.Name() != "" {
			st.vars[r] = c03ZeroValue(r.Type())
		}
	}
	var out []c03EV
	for _, o := range x.runDefers(nf, x.execBlock(nf, st, fi.Decl.Body.List), c03NamedResults(sig)) {
		switch o.ctl {
		case c03Return, c03Next:
			rs := o.ret
			if len(rs) == 0 && sig.Results().Len() > 0 && o.ctl == c03Return {
				for i := 0; i < sig.Results().Len(); i++ {
					rs = append(rs, o.st.vars[sig.Results().At(i)])
				}
			}
			out = append(out, c03EV{o.st, c03ResultValue(rs, t)})
		default:
			// panic / stuck / again inside a callee: the path ends there
			x.pending = append(x.pending, o)
		}
	}
	return out
}

// c03MapLookup looks key up in a map value built from a literal whose keys are all constants: the element, nil for
// "not present"; known=false when the map or the key is not known well enough.
func c03MapLookup(m, key *c03V) (hit *c03V, known bool) {
	if m == nil || m.K != c03KList || m.Base != nil || len(m.Keys) != len(m.Elems) || len(m.Keys) == 0 && !m.NonNil {
		return nil, false
	}
	if _, isMap := m.T.Underlying().(*types.Map); !isMap && len(m.Keys) == 0 {
		return nil, false // a plain list: positional indexing is handled by the caller
	}
	if key.K != c03KStr && key.K != c03KOther && key.K != c03KInt {
		return nil, false
	}
	for i, k := range m.Keys {
		if k.K != c03KStr && k.K != c03KInt {
			return nil, false
		}
		if (k.K == c03KStr && key.K == c03KStr && k.Str == key.Str) || (k.K == c03KInt && key.K == c03KInt && k.Int == key.Int) {
			return m.Elems[i], true
		}
	}
	return nil, true
}

// c03IsRepoInterfaceMethod: fn is a method of an interface type declared in the repository.
func c03IsRepoInterfaceMethod(fn *types.Func) bool {
	if fn == nil || fn.Pkg() == nil || !strings.HasPrefix(fn.Pkg().Path(), core.ModulePath) {
		return false
	}
	rv := fn.Type().(*types.Signature).Recv()
	return rv != nil && c03IsIface(rv.Type())
}

// c03ConcreteMethod resolves an interface method on the concrete type the receiver value is known to have.
func c03ConcreteMethod(recv *c03V, fn *types.Func) *types.Func {
	if recv == nil || recv.T == nil || c03IsIface(recv.T) || recv.K == c03KNil {
		return nil
	}
	obj, _, _ := types.LookupFieldOrMethod(recv.T, true, fn.Pkg(), fn.Name())
	m, _ := obj.(*types.Func)
	return m
}

// c03IntOp evaluates an integer operator on known values (int64 arithmetic, as the id packing of the library uses).
func c03IntOp(op token.Token, a, b int64) (int64, bool) {
	switch op {
	case token.ADD:
		return a + b, true
	case token.SUB:
		return a - b, true
	case token.MUL:
		return a * b, true
	case token.AND:
		return a & b, true
	case token.OR:
		return a | b, true
	case token.XOR:
		return a ^ b, true
	case token.AND_NOT:
		return a &^ b, true
	case token.SHL:
		if b >= 0 && b < 64 {
			return a << uint(b), true
		}
	case token.SHR:
		if b >= 0 && b < 64 {
			return a >> uint(b), true
		}
	case token.QUO:
		if b != 0 {
			return a / b, true
		}
	case token.REM:
		if b != 0 {
			return a % b, true
		}
	}
	return 0, false
}

// c03MaxDepth bounds the stack of entered functions and literals.
const c03MaxDepth = 20

type c03LookupFork struct {
	st    *c03State
	v     *c03V
	found bool
}

// mapLookupForks: a table with constant string keys is consulted with a string the path does not know: one path per
// entry (on which the string is that key) and one on which it is none of them. nil when the case does not apply.
func (x *c03Interp) mapLookupForks(st *c03State, m, key *c03V, t types.Type) []c03LookupFork {
	if m == nil || key == nil || m.K != c03KList || m.Base != nil || len(m.Keys) == 0 || len(m.Keys) != len(m.Elems) {
		return nil
	}
	if (key.K != c03KInit && key.K != c03KUnk) || key.Key == "" {
		return nil
	}
	if _, known := st.strs[key.Key]; known {
		return nil
	}
	for _, k := range m.Keys {
		if k.K != c03KStr {
			return nil
		}
	}
	var out []c03LookupFork
	for i, k := range m.Keys {
		if st.known[c03StrKey(key.Key, k.Str)] == triF {
			if _, ruled := st.known[c03StrKey(key.Key, k.Str)]; ruled {
				continue
			}
		}
		if !x.spend() {
			break
		}
		s := st.clone()
		s.refine(c03StrKey(key.Key, k.Str), triT)
		out = append(out, c03LookupFork{s, m.Elems[i], true})
	}
	for _, k := range m.Keys {
		st.refine(c03StrKey(key.Key, k.Str), triF)
	}
	return append(out, c03LookupFork{st, c03ZeroValue(t), false})
}

// c03FoldString evaluates the string-building functions of the standard library on known values: fmt.Sprintf with
// %s %v %d %q verbs, fmt.Sprint, strconv.Quote / Itoa, strings.Join of known parts are compile-time-like constants
// of the path (names built from constants).
func c03FoldString(fn *types.Func, args []*c03V) (string, bool) {
	known := func(v *c03V) (interface{}, bool) {
		switch v.K {
		case c03KStr:
			return v.Str, true
		case c03KInt:
			return v.Int, true
		case c03KBool:
			return v.Bool, true
		}
		return nil, false
	}
	var vals []interface{}
	flat := args
	if len(args) > 0 {
		if last := args[len(args)-1]; last != nil && last.K == c03KList && last.Base == nil && (isPkgFunc(fn, "fmt", "Sprintf") || isPkgFunc(fn, "fmt", "Sprint")) {
			flat = append(append([]*c03V{}, args[:len(args)-1]...), last.Elems...)
		}
	}
	for _, a := range flat {
		k, ok := known(a)
		if !ok {
			return "", false
		}
		vals = append(vals, k)
	}
	switch {
	case isPkgFunc(fn, "fmt", "Sprintf") && len(vals) >= 1:
		f, ok := vals[0].(string)
		if !ok {
			return "", false
		}
		for i := 0; i+1 < len(f); i++ {
			if f[i] == '%' && !strings.ContainsRune("svdq%", rune(f[i+1])) {
				return "", false
			}
		}
		return fmt.Sprintf(f, vals[1:]...), true
	case isPkgFunc(fn, "fmt", "Sprint"):
		return fmt.Sprint(vals...), true
	case isPkgFunc(fn, "strconv", "Quote") && len(vals) == 1:
		if s, ok := vals[0].(string); ok {
			return strconv.Quote(s), true
		}
	case isPkgFunc(fn, "strconv", "Itoa") && len(vals) == 1:
		if n, ok := vals[0].(int64); ok {
			return strconv.FormatInt(n, 10), true
		}
	}
	return "", false
}

// c03BytesConst: v is a constant string, or a byte slice assembled on the path from constants only (single bytes,
// spread string constants): the text it holds.
func c03BytesConst(v *c03V) (string, bool) {
	if v == nil {
		return "", false
	}
	switch v.K {
	case c03KStr:
		return v.Str, true
	case c03KList:
		if v.Base != nil {
			return "", false
		}
		var sb strings.Builder
		for _, e := range v.Elems {
			switch {
			case e.K == c03KInt && e.Int >= 0 && e.Int < 256:
				sb.WriteByte(byte(e.Int))
			case e.K == c03KStr:
				sb.WriteString(e.Str)
			case e.K == c03KSpread && len(e.From) == 1:
				s, ok := c03BytesConst(e.From[0])
				if !ok {
					return "", false
				}
				sb.WriteString(s)
			default:
				return "", false
			}
		}
		return sb.String(), true
	}
	return "", false
}
