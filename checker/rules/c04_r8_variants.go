package rules

import "osmcheck/core"

// Round-8 performance shapes of the XML writers: nil guards left to the helper that has them, presized attribute
// lists. Mutant: presized with a length instead of a capacity (five empty attributes are written first).

var c04R8Mutants = []core.Mutant{
	{Name: "change-header-attrs-presized-with-length", File: "change.go",
		Find:       "\tstart.Attr = []xml.Attr{}\n",
		Replace:    "\tstart.Attr = make([]xml.Attr, 5)\n",
		ExpectRule: "X2", ExpectConstruct: ""},
}

var c04R8Benign = []core.Mutant{
	{Name: "action-old-new-nil-guards-left-to-the-helper", File: "diff.go",
		Find:    "\tif a.Old != nil {\n\t\tif err := marshalInnerChange(e, \"old\", a.Old); err != nil {\n\t\t\treturn err\n\t\t}\n\t}\n\n\tif a.New != nil {\n\t\tif err := marshalInnerChange(e, \"new\", a.New); err != nil {\n\t\t\treturn err\n\t\t}\n\t}\n",
		Replace: "\tif err := marshalInnerChange(e, \"old\", a.Old); err != nil {\n\t\treturn err\n\t}\n\n\tif err := marshalInnerChange(e, \"new\", a.New); err != nil {\n\t\treturn err\n\t}\n"},
	{Name: "change-header-attrs-presized", File: "change.go",
		Find:    "\tstart.Attr = []xml.Attr{}\n",
		Replace: "\tstart.Attr = make([]xml.Attr, 0, 5) // at most the five below\n"},
}
