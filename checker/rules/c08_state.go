package rules

import (
	"fmt"
	"go/ast"
	"go/token"
	"go/types"

	"golang.org/x/tools/go/cfg"

	"osmcheck/core"
)

// C08.O1 / C08.O2 — one typestate analysis per element variable, interprocedural by inlining.
//
// States of the element an element variable points at:
//   clean   (C) a fresh allocation, or completely reset by a whole-struct assignment
//   dirty   (D) decoded into (written through) since it was clean
//   stale   (S) dirty, and carried over the back edge of the element loop: it still holds a rejected element
//   escaped (E) appended to the block's object slice: it belongs to the consumer
// Events: write through x / decode into x (C,D→D; S→O2 violation; E→O1 violation), `*x = T{...}` (→C, the literal is
// validated; E→O1 violation), `x = &T{...}` (→C), append to the object slice (→E), back edge of the innermost loop
// around the append (D→S). A call that passes x to a function of the package is executed on the callee's CFG with
// the caller's state (a helper that resets, decodes or appends behaves like the inlined statements).

const (
	c08C = 1 << iota
	c08D
	c08S
	c08E
)

type c08Flow struct {
	r     *core.R
	m     *pbfModel
	info  *types.Info
	q     *types.Var
	memo  map[string]int
	memoR map[string]int // states of the element a call returns (its first result), per run
	stack map[string]bool
	o1    string // first ownership violation
	o1pos token.Pos
	o2    string // first reset violation
	o2pos token.Pos
	nblk  int
	alias map[string]map[types.Object]bool // per (function body, slot): the locals that alias the slot
	ment  map[string]bool                  // per (function, field slot): the function reaches a mention of the field
}

func (fl *c08Flow) viol1(pos token.Pos, format string, args ...interface{}) {
	if fl.o1 == "" {
		fl.o1, fl.o1pos = fmt.Sprintf(format, args...), pos
	}
}

func (fl *c08Flow) viol2(pos token.Pos, format string, args ...interface{}) {
	if fl.o2 == "" {
		fl.o2, fl.o2pos = fmt.Sprintf(format, args...), pos
	}
}

// write applies a write-through / decode event to a set of states.
func (fl *c08Flow) write(st int, pos token.Pos, what string, x types.Object) int {
	out := 0
	if st&(c08C|c08D) != 0 {
		out |= c08D
	}
	if st&c08S != 0 {
		fl.viol2(pos, "%s writes into `%s` while it still holds the fields of an element the filter rejected in an earlier iteration (no whole-struct reset on that path): fields the new element does not carry (metadata, tags, members, node locations) are inherited from the rejected one", what, x.Name())
		out |= c08D
	}
	if st&c08E != 0 {
		fl.viol1(pos, "%s writes through `%s` after it was appended to the block's object slice", what, x.Name())
		out |= c08E
	}
	return out
}

// run executes the body of fi for element variable x from the entry states and returns the states at its normal exits.
// top: fi is the function whose element loop is being analysed (back edges of that loop turn dirty into stale).
func (fl *c08Flow) run(fi *FuncInfo, x types.Object, entry int, top bool, depth int) int {
	key := fmt.Sprintf("%p/%p/%d/%v", fi.Obj, x, entry, top)
	if v, ok := fl.memo[key]; ok {
		return v
	}
	if fl.stack[key] || depth > 5 {
		return entry | c08D // recursion: assume it may write
	}
	fl.stack[key] = true
	defer delete(fl.stack, key)
	f := c01FnOf(fl.r.P, fi)
	// the element loop: innermost natural loop around an escape event of x
	var loop *c01Loop
	if top {
		loops := c01Loops(f)
		for _, b := range f.g.Blocks {
			if !b.Live {
				continue
			}
			for _, n := range b.Nodes {
				if fl.escapes(f, n, x, 0) {
					if l := c01InnermostLoop(loops, b); l != nil && (loop == nil || len(l.blocks) < len(loop.blocks)) {
						loop = l
					}
				}
			}
		}
	}
	in := map[*cfg.Block]int{f.g.Blocks[0]: entry}
	work := []*cfg.Block{f.g.Blocks[0]}
	exit, exitErr, exitRet := 0, 0, 0
	pend := map[*cfg.Block]types.Object{}
	hasErr := false
	if res := fi.Obj.Type().(*types.Signature).Results(); res.Len() > 0 && isErrorType(res.At(res.Len()-1).Type()) {
		hasErr = true
	}
	for len(work) > 0 {
		b := work[len(work)-1]
		work = work[:len(work)-1]
		fl.nblk++
		st := in[b]
		var lastStmt ast.Node
		cur := pend[b] // the error variable the upper half of st belongs to
		for _, n := range b.Nodes {
			if _, isExpr := n.(ast.Expr); !isExpr {
				st = c08Collapse(st)
				lastStmt = n
				cur = nil
			}
			st = fl.step(f, n, x, st, depth)
			if st>>4 != 0 && cur == nil {
				if cur = c08ErrVarOf(fl.info, n); cur == nil {
					st = c08Collapse(st)
				}
			}
			if ret, isRet := n.(*ast.ReturnStmt); isRet && len(ret.Results) > 0 {
				// the element handed back to the caller: the parameter itself, or a fresh allocation
				switch r0 := ast.Unparen(ret.Results[0]); {
				case fl.is(f, r0, x):
					exitRet |= st
				case c08IsFreshAlloc(fl.info, r0, x), isNilIdent(r0):
					// a fresh allocation, or no element at all (the next decode allocates one)
					exitRet |= c08C
				}
			}
		}
		if len(b.Succs) == 0 {
			if c01IsNormalExit(f, b) {
				st = c08Collapse(st)
				// an exit that certainly returns an error is kept apart: the caller's `if err != nil` sees only it
				certErr := false
				if ret, isRet := lastStmt.(*ast.ReturnStmt); isRet && hasErr && len(ret.Results) > 0 {
					certErr = c01IsErrNonNilExpr(fl.info, ret.Results[len(ret.Results)-1], f.factsAtPos(ret.Pos()))
				}
				if certErr {
					exitErr |= st
				} else {
					exit |= st
				}
			}
			continue
		}
		cond := f.condOf(b)
		for si, nb := range b.Succs {
			ns := st
			if ns>>4 != 0 {
				ns = c08ErrEdge(fl.info, ns, cond, cur, si)
				if ns>>4 != 0 {
					if old, seen := pend[nb]; seen && old != cur {
						ns = c08Collapse(ns)
					} else {
						pend[nb] = cur
					}
				}
			}
			if loop != nil && nb == loop.head && loop.blocks[b] && ns&c08D != 0 {
				ns = (ns &^ c08D) | c08S
			}
			if in[nb]|ns != in[nb] || !fl.visited(in, nb) {
				in[nb] |= ns
				work = append(work, nb)
			}
		}
	}
	exit |= exitErr << 4
	fl.memo[key] = exit
	if fl.memoR == nil {
		fl.memoR = map[string]int{}
	}
	fl.memoR[key] = exitRet
	return exit
}

func (fl *c08Flow) visited(in map[*cfg.Block]int, b *cfg.Block) bool {
	_, ok := in[b]
	return ok
}

// escapes: node n hands x to the consumer: `q = append(q, .., x, ..)` or a call passing x to a function of the
// package that (on some path) does.
func (fl *c08Flow) escapes(f *c01Fn, n ast.Node, x types.Object, depth int) bool {
	info := fl.info
	hit := false
	ast.Inspect(n, func(y ast.Node) bool {
		if _, ok := y.(*ast.FuncLit); ok {
			return false
		}
		call, ok := y.(*ast.CallExpr)
		if !ok || hit {
			return !hit
		}
		if builtinName(info, call) == "append" && len(call.Args) >= 2 && fl.isQ(f, call.Args[0]) {
			for _, a := range call.Args[1:] {
				if fl.is(f, a, x) {
					hit = true
				}
			}
		}
		if tf := c01Callee(f.pk, call); tf != nil && depth < 3 {
			// a field slot is live in every callee that mentions the field
			if fl.mentions(tf, x) {
				g := c01FnOf(fl.r.P, tf)
				for _, b := range g.g.Blocks {
					for _, m := range b.Nodes {
						if b.Live && !hit && fl.escapes(g, m, x, depth+1) {
							hit = true
						}
					}
				}
			}
			for i, a := range call.Args {
				if fl.is(f, a, x) {
					if po := c01Param(info, tf, i); po != nil {
						g := c01FnOf(fl.r.P, tf)
						for _, b := range g.g.Blocks {
							for _, m := range b.Nodes {
								if b.Live && fl.escapes(g, m, po, depth+1) {
									hit = true
								}
							}
						}
					}
				}
			}
		}
		return !hit
	})
	return hit
}

// isQ: expression e denotes the block's object slice (the field the decode entry point returns).
func (fl *c08Flow) isQ(f *c01Fn, e ast.Expr) bool {
	return fieldOf(fl.info, c01Chain(fl.info, f.body, e)) == fl.q || c01FieldOfChain(fl.info, c01Chain(fl.info, f.body, e)) == fl.q
}

// step applies one CFG node.
func (fl *c08Flow) step(f *c01Fn, n ast.Node, x types.Object, st int, depth int) int {
	info := fl.info
	fs := fl.r.P.Fset
	// effects of calls inside the node (arguments are evaluated before the statement's own effect)
	retState := map[*ast.CallExpr]int{} // per call that took x: states of the element it hands back
	callEffects := func(e ast.Node) {
		ast.Inspect(e, func(y ast.Node) bool {
			if _, ok := y.(*ast.FuncLit); ok {
				return false
			}
			call, ok := y.(*ast.CallExpr)
			if !ok {
				return true
			}
			tf := c01Callee(f.pk, call)
			if tf == nil {
				return true
			}
			took := false
			for _, a := range call.Args {
				if fl.is(f, a, x) {
					took = true
				}
			}
			if !took && fl.mentions(tf, x) {
				// the callee works on the field slot itself
				before1, before2 := fl.o1, fl.o2
				st = c08Collapse(st)
				entrySt := st
				st = fl.run(tf, x, c08Collapse(st), false, depth+1)
				retState[call] = fl.memoR[fmt.Sprintf("%p/%p/%d/%v", tf.Obj, x, entrySt, false)]
				if fl.o1 != before1 && before1 == "" {
					fl.o1, fl.o1pos = fmt.Sprintf("`%s`: %s", src(fs, call), fl.o1), call.Pos()
				}
				if fl.o2 != before2 && before2 == "" {
					fl.o2, fl.o2pos = fmt.Sprintf("`%s`: %s", src(fs, call), fl.o2), call.Pos()
				}
				return true
			}
			for i, a := range call.Args {
				if !fl.is(f, a, x) {
					continue
				}
				po := c01Param(info, tf, i)
				if po == nil {
					continue
				}
				before1, before2 := fl.o1, fl.o2
				st = c08Collapse(st)
				entrySt := st
				st = fl.run(tf, po, st, false, depth+1)
				retState[call] = fl.memoR[fmt.Sprintf("%p/%p/%d/%v", tf.Obj, po, entrySt, false)]
				// violations found inside the callee are reported at the call
				if fl.o1 != before1 && before1 == "" {
					fl.o1, fl.o1pos = fmt.Sprintf("`%s`: %s", src(fs, call), fl.o1), call.Pos()
				}
				if fl.o2 != before2 && before2 == "" {
					fl.o2, fl.o2pos = fmt.Sprintf("`%s`: %s", src(fs, call), fl.o2), call.Pos()
				}
			}
			return true
		})
	}
	// a struct literal that sets (or leaves out) a field slot (re)points the slot
	if v, isVar := x.(*types.Var); isVar && v.IsField() {
		ast.Inspect(n, func(y ast.Node) bool {
			if _, ok := y.(*ast.FuncLit); ok {
				return false
			}
			cl, ok := y.(*ast.CompositeLit)
			if !ok {
				return true
			}
			stt, ok := info.TypeOf(cl).Underlying().(*types.Struct)
			if !ok {
				return true
			}
			owns := false
			for i := 0; i < stt.NumFields(); i++ {
				if stt.Field(i) == v {
					owns = true
				}
			}
			if !owns {
				return true
			}
			var val ast.Expr
			for i, el := range cl.Elts {
				if kv, ok := el.(*ast.KeyValueExpr); ok {
					if id, ok := kv.Key.(*ast.Ident); ok && info.Uses[id] == v {
						val = kv.Value
					}
				} else if i < stt.NumFields() && stt.Field(i) == v {
					val = el
				}
			}
			switch {
			case val == nil || isNilIdent(val) || c08IsFreshAlloc(info, val, x):
				st = c08C
			case fl.is(f, val, x):
			default:
				fl.viol1(cl.Pos(), "`%s` points the element slot %s at something that is not a fresh allocation", src(fs, cl), x.Name())
			}
			return true
		})
	}
	switch s := n.(type) {
	case *ast.AssignStmt:
		for _, rh := range s.Rhs {
			callEffects(rh)
		}
		for i, l := range s.Lhs {
			var rh ast.Expr
			if len(s.Rhs) == len(s.Lhs) {
				rh = s.Rhs[i]
			} else if len(s.Rhs) == 1 {
				rh = s.Rhs[0]
			}
			lu := ast.Unparen(l)
			if !fl.isSelf(lu, x) && fl.is(f, lu, x) {
				continue // an alias local receives the slot's element (the call's effect was applied above)
			}
			if fl.isSelf(lu, x) {
				switch {
				case rh != nil && c08IsFreshAlloc(info, rh, x):
					if st&c08E != 0 && usesObj(info, rh, x) {
						fl.viol1(s.Pos(), "`%s` builds the replacement from slices of the element that was already handed to the consumer", src(fs, s))
					}
					st = c08C
				case rh != nil && fl.is(f, rh, x):
					// slot = alias: the same element
				case rh != nil && fl.callReturnsSlot(f, rh, x):
					// x, err = f(.., x): the callee's effect was applied above; x now is the element the callee
					// handed back (its parameter, or a fresh allocation)
					if rs, ok := retState[ast.Unparen(rh).(*ast.CallExpr)]; ok && rs != 0 {
						st = rs
					}
				default:
					fl.viol1(s.Pos(), "`%s` re-points the element variable at something that is not a fresh allocation", src(fs, s))
				}
				continue
			}
			if se, ok := lu.(*ast.StarExpr); ok && fl.is(f, se.X, x) {
				// *x = T{...}
				if st&c08E != 0 {
					fl.viol1(s.Pos(), "`%s` overwrites the element through `%s` after it was appended to the block's object slice", src(fs, s), x.Name())
				}
				if why := c08ResetLiteral(info, f, rh, x, func(e ast.Expr) bool { return fl.is(f, e, x) }); why != "" {
					fl.viol2(s.Pos(), "reset `%s`: %s", src(fs, s), why)
				}
				st = (st &^ (c08D | c08S | c08C)) | c08C
				continue
			}
			if c01RootObj(info, l) == x || fl.below(f, l, x) {
				if st == c08C && rh != nil && c08OwnEmptyReslice(info, f, l, rh, x) {
					continue // x.F = x.F[:0] keeps a clean element clean
				}
				st = fl.write(st, s.Pos(), "`"+src(fs, s)+"`", x)
				continue
			}
			if fl.isQ(f, l) && rh != nil && fl.escapes(f, rh, x, 0) {
				st = c08E
			}
		}
		return st
	case *ast.IncDecStmt:
		if _, isId := ast.Unparen(s.X).(*ast.Ident); !isId && (c01RootObj(info, s.X) == x || fl.below(f, s.X, x)) {
			st = fl.write(st, s.Pos(), "`"+src(fs, s)+"`", x)
		}
		return st
	case *ast.ReturnStmt, *ast.ExprStmt, *ast.DeferStmt, *ast.GoStmt, *ast.SendStmt, *ast.DeclStmt, *ast.ValueSpec:
		callEffects(n)
		return st
	}
	if e, ok := n.(ast.Expr); ok {
		callEffects(e)
	}
	return st
}

// callReturnsSlot: rh is a call taking the slot (or an alias of it) every return of which yields that parameter or a
// fresh allocation.
func (fl *c08Flow) callReturnsSlot(f *c01Fn, rh ast.Expr, x types.Object) bool {
	call, ok := ast.Unparen(rh).(*ast.CallExpr)
	return ok && c08ReturnsParamP(fl.m, call, func(a ast.Expr) bool { return fl.is(f, a, x) })
}

// c08CallReturnsArg: rh is a call f(.., x, ..) every return of which yields that parameter (or nil with an error).
func c08CallReturnsArg(m *pbfModel, rh ast.Expr, x types.Object) bool {
	call, ok := ast.Unparen(rh).(*ast.CallExpr)
	return ok && c08ReturnsParam(m, call, x)
}

// c08OwnEmptyReslice: `x.F = S[:0]` where S is x.F itself (or a local read once from it).
func c08OwnEmptyReslice(info *types.Info, f *c01Fn, l, rh ast.Expr, x types.Object) bool {
	se, ok := ast.Unparen(c01Expand(info, f.body, rh)).(*ast.SliceExpr)
	if !ok || se.Low != nil || se.High == nil || se.Max != nil {
		return false
	}
	if v, okc := constInt(info, se.High); !okc || v != 0 {
		return false
	}
	srcE := c01Expand(info, f.body, se.X)
	return c01RootObj(info, srcE) == x && fieldOf(info, srcE) != nil && fieldOf(info, srcE) == fieldOf(info, l)
}

// c08ResetLiteral validates the whole-struct literal assigned to a rejected element: keyed fields only, constants
// (Visible: true among them) or `[:0]` re-slices of the element's own slice of the same field. "" = valid.
func c08ResetLiteral(info *types.Info, f *c01Fn, rh ast.Expr, x types.Object, isX func(ast.Expr) bool) string {
	if rh == nil {
		return "not a struct literal"
	}
	lit, ok := ast.Unparen(rh).(*ast.CompositeLit)
	if !ok {
		return "the element is overwritten with `" + types.ExprString(rh) + "`, not with a struct literal: whether every field is reset cannot be seen"
	}
	hasVisible := false
	for _, e := range lit.Elts {
		kv, ok := e.(*ast.KeyValueExpr)
		if !ok {
			return "positional literal"
		}
		key := kv.Key.(*ast.Ident).Name
		if tv, ok := info.Types[kv.Value]; ok && tv.Value != nil {
			if key == "Visible" && tv.Value.String() == "true" {
				hasVisible = true
			}
			continue
		}
		if isNilIdent(kv.Value) {
			continue
		}
		se, ok := ast.Unparen(kv.Value).(*ast.SliceExpr)
		if !ok || se.Low != nil || se.High == nil || se.Max != nil {
			return key + ": `" + types.ExprString(kv.Value) + "` is carried over unchanged"
		}
		if v, okc := constInt(info, se.High); !okc || v != 0 {
			return key + ": `" + types.ExprString(kv.Value) + "` keeps old contents"
		}
		srcE := c01Expand(info, f.body, se.X)
		fld := fieldOf(info, srcE)
		own := c01RootObj(info, srcE) == x
		if sel, isSel := ast.Unparen(srcE).(*ast.SelectorExpr); isSel && !own && isX != nil {
			own = isX(sel.X)
		}
		if !own || fld == nil || fld.Name() != key {
			return key + ": `" + types.ExprString(kv.Value) + "` is not a [:0] re-slice of this element's own " + key
		}
	}
	if !hasVisible {
		return "the literal does not restore the format default Visible: true: an element after a rejected one that carries no visible flag would be reported as deleted"
	}
	return ""
}

// The state word of the typestate analysis has two halves: bits 0-3 are the states of the element when the last call
// that was followed returned without a certain error, bits 4-7 its states at the callee's exits that certainly return
// a non-nil error. The halves are merged again (c08Collapse) at the next statement; only a branch on the nil-ness of
// the error variable that statement assigned selects one of them (c08ErrEdge), so that "the helper returns early with
// an error, the caller returns it" is not confused with "the helper left the element as it was and decoding goes on".
func c08Collapse(st int) int { return (st | st>>4) & 15 }

// c08ErrEdge selects the half of st that successor si of a branch on `err != nil` / `err == nil` sees, err being the
// variable the upper half belongs to; any other edge passes both halves on unchanged (the next statement merges them).
func c08ErrEdge(info *types.Info, st int, cond ast.Expr, cur types.Object, si int) int {
	if cond == nil || cur == nil {
		return st
	}
	x, neq, ok := c01NilCmp(ast.Unparen(cond))
	if !ok || objOf(info, x) != cur {
		return st
	}
	if (neq && si == 0) || (!neq && si == 1) {
		return (st >> 4) & 15
	}
	return st & 15
}

// c08ErrVarOf: the error variable statement n assigns (from the call whose exits split the state word).
func c08ErrVarOf(info *types.Info, n ast.Node) types.Object {
	switch s := n.(type) {
	case *ast.AssignStmt:
		for _, l := range s.Lhs {
			if o := objOf(info, l); o != nil && isErrorType(o.Type()) {
				return o
			}
		}
	case *ast.ValueSpec:
		for _, nm := range s.Names {
			if o := info.Defs[nm]; o != nil && isErrorType(o.Type()) {
				return o
			}
		}
	}
	return nil
}
