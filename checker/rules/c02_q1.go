package rules

import (
	"fmt"
	"go/ast"
	"go/token"
	"go/types"
	"sort"
	"strings"

	"osmcheck/core"
)

// ---------------------------------------------------------------- Q1

// c02Pipe is what the Q1 checks share: channel classes by role, the worker count and the spawning loop.
type c02Pipe struct {
	m              *pbfModel
	info           *types.Info
	in, out, queue string
	inF, outF, quF *types.Var
	nObj           types.Object
	spawnLoop      ast.Stmt
	ops            []*chanOp
}

func c02LoadPipe(r *core.R, m *pbfModel) *c02Pipe {
	p := &c02Pipe{m: m, info: m.info, ops: m.chanOps()}
	for _, g := range m.gos {
		if g.loopStmt != nil {
			p.spawnLoop = g.loopStmt
		}
	}
	p.nObj = c07CountedLoopStmt(m, p.spawnLoop)
	if p.nObj == nil {
		r.Anchor("worker-spawning loop that runs once per worker (`for i := 0; i < n; i++` or an equivalent counted form)")
		return nil
	}
	p.in, p.out, p.queue = m.pipelineClasses()
	p.inF, p.outF, p.quF = m.chanField(p.in), m.chanField(p.out), m.chanField(p.queue)
	if p.inF == nil || p.outF == nil || p.quF == nil {
		r.Anchor("worker input/output channel classes and the consumer's queue")
		return nil
	}
	return p
}

// sameCount reports whether o is the worker count: the bound of the spawning loop, or a parameter / local that is bound
// to it at every call / go statement, or `len(dec.S)` of a per-worker channel slice (which has one slot per worker).
func (p *c02Pipe) sameCount(o types.Object, seen map[types.Object]bool) bool {
	if o == nil || seen[o] {
		return false
	}
	if o == p.nObj {
		return true
	}
	seen[o] = true
	defer delete(seen, o)
	defs := p.m.defsOf(o)
	if len(defs) == 0 {
		return false
	}
	for _, d := range defs {
		if (d.kind != "arg" && d.kind != "assign") || !p.sameCountExpr(d.e, seen) {
			return false
		}
	}
	return true
}

// sameCountExpr is sameCount for an expression: a variable, or `len(dec.S)` where S is the slice that holds the
// workers' input or output channels (the wiring check shows it gets exactly one slot per worker).
func (p *c02Pipe) sameCountExpr(e ast.Expr, seen map[types.Object]bool) bool {
	if e == nil {
		return false
	}
	e = ast.Unparen(e)
	if call, ok := e.(*ast.CallExpr); ok && builtinName(p.info, call) == "len" && len(call.Args) == 1 {
		f := fieldOf(p.info, call.Args[0])
		return f != nil && (f == p.m.slotOf(p.in).slice || f == p.m.slotOf(p.out).slice)
	}
	if f := fieldOf(p.info, e); f != nil {
		// the worker count kept in a field: every assignment of the field stores the worker count
		n := 0
		for _, fi := range p.m.funcs {
			bad := false
			ast.Inspect(fi.Decl.Body, func(x ast.Node) bool {
				if as, ok := x.(*ast.AssignStmt); ok {
					for i, l := range as.Lhs {
						if fieldOf(p.info, l) == f {
							n++
							if len(as.Lhs) != len(as.Rhs) || as.Tok != token.ASSIGN || !p.sameCountExpr(as.Rhs[i], seen) {
								bad = true
							}
						}
					}
				}
				return true
			})
			if bad {
				return false
			}
		}
		return n > 0
	}
	return p.sameCount(objOf(p.info, e), seen)
}

// c02Step recognises the round-robin step `v = (v + K) % N` / `v = (K + v) % N`, also when the expression is computed by
// a helper whose body is a single return of that form over its parameters (`v = next(v, N)`), and returns K and N.
func c02Step(info *types.Info, st ast.Node, v types.Object) (int64, ast.Expr, bool) {
	as, ok := st.(*ast.AssignStmt)
	if !ok || as.Tok != token.ASSIGN || len(as.Lhs) != 1 || len(as.Rhs) != 1 || c02Ref(info, as.Lhs[0]) != v {
		return 0, nil, false
	}
	return c02StepExpr(info, as.Rhs[0], v, nil, 0)
}

// c02AbsStep recognises `v = K % N` with a constant K: the round-robin step by K of a counter whose value is 0.
func c02AbsStep(info *types.Info, st ast.Node, v types.Object) (int64, ast.Expr, bool) {
	as, ok := st.(*ast.AssignStmt)
	if !ok || as.Tok != token.ASSIGN || len(as.Lhs) != 1 || len(as.Rhs) != 1 || c02Ref(info, as.Lhs[0]) != v {
		return 0, nil, false
	}
	be, ok := ast.Unparen(as.Rhs[0]).(*ast.BinaryExpr)
	if !ok || be.Op != token.REM {
		return 0, nil, false
	}
	k, ok := constInt(info, be.X)
	if !ok {
		return 0, nil, false
	}
	return k, ast.Unparen(be.Y), true
}

// c02DeclOf finds the declaration of a function of a loaded repository package (through the package views).
func c02DeclOf(fn *types.Func) *FuncInfo {
	if fn == nil {
		return nil
	}
	for _, v := range pbfViewCache {
		if fi := v.funcs[fn]; fi != nil {
			return fi
		}
	}
	return nil
}

// c02StepExpr matches e against (v + K) % N; env binds the parameters of the helpers entered so far to the argument
// expressions of the caller.
func c02StepExpr(info *types.Info, e ast.Expr, v types.Object, env map[types.Object]ast.Expr, depth int) (int64, ast.Expr, bool) {
	var resolve func(x ast.Expr) ast.Expr
	resolve = func(x ast.Expr) ast.Expr {
		x = ast.Unparen(x)
		if id, ok := x.(*ast.Ident); ok {
			if o := objOf(info, id); o != nil {
				if a, bound := env[o]; bound {
					return a // already an expression of the outermost caller
				}
			}
		}
		return x
	}
	e = ast.Unparen(e)
	if call, ok := e.(*ast.CallExpr); ok && depth < 3 {
		fi := c02DeclOf(callee(info, call))
		ret := singleReturnExpr(fi)
		if ret == nil || fi.Decl.Recv != nil {
			return 0, nil, false
		}
		env2 := map[types.Object]ast.Expr{}
		pi := 0
		for _, fld := range fi.Decl.Type.Params.List {
			for _, nm := range fld.Names {
				if pi < len(call.Args) {
					env2[info.Defs[nm]] = resolve(call.Args[pi])
				}
				pi++
			}
		}
		return c02StepExpr(info, ret, v, env2, depth+1)
	}
	be, ok := e.(*ast.BinaryExpr)
	if !ok || be.Op != token.REM {
		return 0, nil, false
	}
	sum, ok := ast.Unparen(resolve(be.X)).(*ast.BinaryExpr)
	if !ok || sum.Op != token.ADD {
		return 0, nil, false
	}
	x, y := resolve(sum.X), resolve(sum.Y)
	var kx ast.Expr
	switch {
	case c02Ref(info, x) == v:
		kx = y
	case c02Ref(info, y) == v:
		kx = x
	default:
		return 0, nil, false
	}
	k, ok := constInt(info, kx)
	if !ok {
		return 0, nil, false
	}
	n := resolve(be.Y)
	return k, n, n != nil
}

// stepForm is kept for other rule files.
func stepForm(info *types.Info, st ast.Stmt, v types.Object) (int64, types.Object, bool) {
	k, n, ok := c02Step(info, st, v)
	if !ok {
		return 0, nil, false
	}
	o := objOf(info, n)
	return k, o, o != nil
}

// writesObj reports whether node n (a simple statement) assigns to o.
func c02WritesObj(info *types.Info, n ast.Node, o types.Object) bool {
	switch s := n.(type) {
	case *ast.AssignStmt:
		for _, l := range s.Lhs {
			if c02Ref(info, l) == o {
				return true
			}
		}
	case *ast.IncDecStmt:
		return c02Ref(info, s.X) == o
	case *ast.ValueSpec:
		for _, nm := range s.Names {
			if info.Defs[nm] == o {
				return true
			}
		}
	}
	return false
}

// c02EventPicks lists the slot evaluations `dec.F[...]` an event stands for: for a "node" event those outside call
// arguments, for a "call"/"enter" event those in the call's own arguments (they are evaluated before the callee runs).
func c02EventPicks(info *types.Info, ev *pbfEvent, f *types.Var) []*ast.IndexExpr {
	switch ev.kind {
	case "node", "return":
		return c02PicksOpt(info, ev.n, f, true)
	case "call", "enter":
		var out []*ast.IndexExpr
		if builtinName(info, ev.n.(*ast.CallExpr)) == "close" {
			return nil // closing the channel of a slot is not a dispatch / collection
		}
		for _, a := range ev.n.(*ast.CallExpr).Args {
			out = append(out, c02PicksOpt(info, a, f, true)...)
		}
		return out
	}
	return nil
}

// picks lists the index expressions `dec.F[...]` inside node n (not inside function literals).
func c02Picks(info *types.Info, n ast.Node, f *types.Var) []*ast.IndexExpr {
	return c02PicksOpt(info, n, f, false)
}

func c02PicksOpt(info *types.Info, n ast.Node, f *types.Var, skipCallArgs bool) []*ast.IndexExpr {
	var out []*ast.IndexExpr
	if n == nil {
		return nil
	}
	ast.Inspect(n, func(x ast.Node) bool {
		switch y := x.(type) {
		case *ast.FuncLit:
			return false
		case *ast.CallExpr:
			if skipCallArgs {
				return false
			}
		case *ast.SelectorExpr, *ast.IndexExpr:
			if ix := c02PickOf(info, y, f); ix != nil {
				out = append(out, ix)
			}
		}
		return true
	})
	return out
}

// c02PickOf: node x evaluates a slot of channel class f. For a class held in a slice of channels (f is that decoder
// field) x is `dec.F[idx]`; for a class held in a slice of structs (f is the struct's field) x is `dec.L[idx].f`.
// It returns the index expression.
func c02PickOf(info *types.Info, x ast.Node, f *types.Var) *ast.IndexExpr {
	switch y := x.(type) {
	case *ast.IndexExpr:
		if fieldOf(info, y.X) == f {
			return y
		}
	case *ast.SelectorExpr:
		if fieldOf(info, y) == f {
			if ix, ok := ast.Unparen(y.X).(*ast.IndexExpr); ok && fieldOf(info, ix.X) != nil {
				return ix
			}
		}
	}
	return nil
}

// selectOf returns the select statement a chosen clause belongs to.
func (p *c02Pipe) selectOf(ev *pbfEvent) *ast.SelectStmt {
	cc, ok := ev.n.(*ast.CommClause)
	if !ok {
		return nil
	}
	par := p.m.view.parents(ev.fi)
	sel, _ := par[par[cc]].(*ast.SelectStmt)
	return sel
}

// commSend / commRecv return the send statement / received-from expression of a select clause.
func c02CommSend(cc *ast.CommClause) *ast.SendStmt {
	s, _ := cc.Comm.(*ast.SendStmt)
	return s
}

func c02CommRecv(cc *ast.CommClause) (from ast.Expr, lhs ast.Expr) {
	switch s := cc.Comm.(type) {
	case *ast.ExprStmt:
		if ue, ok := ast.Unparen(s.X).(*ast.UnaryExpr); ok && ue.Op == token.ARROW {
			return ue.X, nil
		}
	case *ast.AssignStmt:
		if len(s.Rhs) == 1 {
			if ue, ok := ast.Unparen(s.Rhs[0]).(*ast.UnaryExpr); ok && ue.Op == token.ARROW {
				return ue.X, s.Lhs[0]
			}
		}
	}
	return nil, nil
}

// sendIn returns, for a select, its clause that sends on class cls (nil if none).
func (p *c02Pipe) sendClause(sel *ast.SelectStmt, cls string) *ast.SendStmt {
	if sel == nil {
		return nil
	}
	for _, c := range sel.Body.List {
		if s := c02CommSend(c.(*ast.CommClause)); s != nil && p.m.chanClass(nil, s.Chan) == cls {
			return s
		}
	}
	return nil
}

func (p *c02Pipe) recvClause(sel *ast.SelectStmt, cls string) (from, lhs ast.Expr) {
	if sel == nil {
		return nil, nil
	}
	for _, c := range sel.Body.List {
		if from, lhs := c02CommRecv(c.(*ast.CommClause)); from != nil && p.m.chanClass(nil, from) == cls {
			return from, lhs
		}
	}
	return nil, nil
}

// bareRecv returns the channel expression received from by a non-select statement node (`v := <-ch`, `v, ok := <-ch`, `<-ch`).
func c02BareRecv(n ast.Node) (from ast.Expr, lhs ast.Expr) {
	var found *ast.UnaryExpr
	ast.Inspect(n, func(x ast.Node) bool {
		switch y := x.(type) {
		case *ast.FuncLit:
			return false
		case *ast.UnaryExpr:
			if y.Op == token.ARROW && found == nil {
				found = y
			}
		}
		return true
	})
	if found == nil {
		return nil, nil
	}
	if as, ok := n.(*ast.AssignStmt); ok && len(as.Rhs) == 1 && ast.Unparen(as.Rhs[0]) == ast.Expr(found) {
		return found.X, as.Lhs[0]
	}
	return found.X, nil
}

// pickedChan reports whether channel expression e always denotes a channel picked as `dec.F[idx]`: directly, through
// locals all of whose definitions are such picks, or through parameters bound to such values.
func (p *c02Pipe) pickedChan(e ast.Expr, f *types.Var, seen map[types.Object]bool) bool {
	e = ast.Unparen(e)
	switch x := e.(type) {
	case *ast.IndexExpr, *ast.SelectorExpr:
		return c02PickOf(p.info, x, f) != nil
	case *ast.CallExpr:
		if tv, ok := p.info.Types[x.Fun]; ok && tv.IsType() && len(x.Args) == 1 {
			return p.pickedChan(x.Args[0], f, seen)
		}
	case *ast.Ident:
		o := objOf(p.info, x)
		if o == nil || seen[o] {
			return false
		}
		seen[o] = true
		defer delete(seen, o)
		defs := p.m.defsOf(o)
		if len(defs) == 0 {
			return false
		}
		for _, d := range defs {
			if (d.kind != "assign" && d.kind != "arg") || !p.pickedChan(d.e, f, seen) {
				return false
			}
		}
		return true
	}
	return false
}

// mainLoop finds the loop of goroutine g whose cycles communicate on class cls (the outermost such for loop).
func (p *c02Pipe) mainLoop(g *goSite, cls string) *ast.ForStmt {
	var best *ast.ForStmt
	p.m.deepWalk(g.unit, func(s *pbfSite, n ast.Node) bool {
		fs, ok := n.(*ast.ForStmt)
		if !ok || s.deferredCtx() || best != nil {
			return true
		}
		has := false
		// (the condition and the post statement belong to every cycle too: `for dec.forward(dec.outputs[i]) {...}`)
		ast.Inspect(fs, func(x ast.Node) bool {
			switch y := x.(type) {
			case *ast.FuncLit:
				return false
			case *ast.SendStmt:
				if p.m.chanClass(nil, y.Chan) == cls {
					has = true
				}
			case *ast.UnaryExpr:
				if y.Op == token.ARROW && p.m.chanClass(nil, y.X) == cls {
					has = true
				}
			case *ast.CallExpr:
				if fn := callee(p.info, y); fn != nil && p.m.funcs[fn] != nil {
					if p.m.unitReaches(p.m.byDecl[fn], func(u *unit) bool {
						for _, op := range p.ops {
							if op.u.base() == u && op.class == cls && (op.kind == "send" || op.kind == "recv") {
								return true
							}
						}
						return false
					}) {
						has = true
					}
				}
			}
			return !has
		})
		if has {
			best = fs
		}
		return true
	})
	return best
}

// counterOf finds the variable that indexes dec.F in goroutine g (deep); ok=false when several different ones do.
func (p *c02Pipe) counterOf(g *goSite, f *types.Var) (types.Object, bool) {
	var o types.Object
	ok := true
	p.m.deepWalk(g.unit, func(s *pbfSite, n ast.Node) bool {
		ix := c02PickOf(p.info, n, f)
		if ix == nil || s.deferredCtx() {
			return true
		}
		if _, isConst := constInt(p.info, ix.Index); isConst {
			return true
		}
		io := c02Ref(p.info, ix.Index)
		if io == nil || (o != nil && io != o) {
			ok = false
		}
		o = io
		return true
	})
	return o, ok && o != nil
}

// startsAtZero: every definition of the counter other than its steps is the zero value / constant 0.
func (p *c02Pipe) startsAtZero(o types.Object) bool {
	if v, ok := o.(*types.Var); ok && v.IsField() {
		// a counter kept in a decoder field starts at the zero value of the struct: every assignment in the package
		// must be its round-robin step (or the constant 0)
		okAll := true
		for _, fi := range p.m.funcs {
			ast.Inspect(fi.Decl.Body, func(x ast.Node) bool {
				switch s := x.(type) {
				case *ast.AssignStmt:
					for i, l := range s.Lhs {
						if fieldOf(p.info, l) != v {
							continue
						}
						if _, _, isStep := c02Step(p.info, s, o); isStep {
							continue
						}
						if _, _, isAbs := c02AbsStep(p.info, s, o); isAbs {
							continue
						}
						if len(s.Lhs) == len(s.Rhs) {
							if c, isC := constInt(p.info, s.Rhs[i]); isC && c == 0 && s.Tok == token.ASSIGN {
								continue
							}
						}
						okAll = false
					}
				case *ast.IncDecStmt:
					if fieldOf(p.info, s.X) == v {
						okAll = false
					}
				case *ast.KeyValueExpr:
					if id, isID := s.Key.(*ast.Ident); isID && p.info.Uses[id] == v {
						if c, isC := constInt(p.info, s.Value); !isC || c != 0 {
							okAll = false
						}
					}
				}
				return true
			})
		}
		return okAll
	}
	n := 0
	for _, d := range p.m.defsOf(o) {
		switch d.kind {
		case "zero":
			n++
		case "assign":
			if _, _, isStep := c02Step(p.info, d.stmt, o); isStep {
				continue
			}
			if _, _, isAbs := c02AbsStep(p.info, d.stmt, o); isAbs {
				continue // `i = K % n` while i is still 0 (judged on the path by the dispatch automaton)
			}
			if v, ok := constInt(p.info, d.e); ok && v == 0 {
				n++
				continue
			}
			return false
		default:
			return false
		}
	}
	return n == 1
}

type c02Viol struct {
	pos token.Pos
	msg string
}

func c02Report(r *core.R, c string, pos token.Pos, viols []c02Viol, incomplete []string, okMsg string) {
	if len(incomplete) > 0 {
		r.Unknown(c, pos, "the goroutine could not be followed on every path: %s", strings.Join(incomplete, "; "))
		return
	}
	if len(viols) == 0 {
		r.OK(c, pos, "%s", okMsg)
		return
	}
	sort.SliceStable(viols, func(i, j int) bool { return viols[i].pos < viols[j].pos })
	var msgs []string
	seen := map[string]bool{}
	for _, v := range viols {
		if !seen[v.msg] {
			seen[v.msg] = true
			msgs = append(msgs, v.msg)
		}
	}
	r.Bad(c, viols[0].pos, "%s", strings.Join(msgs, "; "))
}

func c02Q1(r *core.R) {
	m := modelOrAnchor(r)
	if m == nil {
		return
	}
	p := c02LoadPipe(r, m)
	if p == nil {
		return
	}
	c02Reader(r, p)
	c02Serializer(r, p)
	c02Workers(r, p)
	c02CancelAuthority(r, p)
}

// c02Reader: round-robin dispatch. On every path of the reader goroutine (through helpers), between two passes of the
// head of its read loop: the slot `dec.inputs[i]` is evaluated once, before the counter is stepped, the counter is
// stepped once by (i+1)%n, and exactly one pair is emitted (a send on the picked channel, possibly in a select with the
// Done case). Before the loop (restart block): a send goes to slot 0 and is followed by exactly one step.
func c02Reader(r *core.R, p *c02Pipe) {
	m, info := p.m, p.info
	g := m.goOf("reader")
	if g == nil {
		r.Anchor("reader goroutine")
		return
	}
	cDisp, cStep, cRestart, cStart := "dispatch@"+g.unit.name, "dispatch@"+g.unit.name+" step", "restart@"+g.unit.name, "restart@"+g.unit.name+" start"
	loop := p.mainLoop(g, p.in)
	if loop == nil {
		r.Anchor("reader loop that dispatches blocks to dec." + p.in)
		return
	}
	iObj, okCounter := p.counterOf(g, p.inF)
	if !okCounter {
		r.Bad(cDisp, loop.Pos(), "the reader does not pick the channel for a block as `dec.%s[i]` with one round-robin counter i", p.in)
		return
	}
	// the counter may be handed over between variables before the loop (`turn := 0 … for i := turn; …`): the variables
	// it is copy-initialised from are the same counter
	aliases := p.counterAliases(iObj)
	stepOf := func(n ast.Node) (int64, ast.Expr, types.Object, bool) {
		for _, a := range aliases {
			if k, nn, ok := c02Step(info, n, a); ok {
				return k, nn, a, true
			}
		}
		return 0, nil, nil, false
	}
	absStepOf := func(n ast.Node) (int64, ast.Expr, bool) {
		for _, a := range aliases {
			if k, nn, ok := c02AbsStep(info, n, a); ok {
				return k, nn, true
			}
		}
		return 0, nil, false
	}
	writesCounter := func(n ast.Node) types.Object {
		for _, a := range aliases {
			if c02WritesObj(info, n, a) {
				return a
			}
		}
		return nil
	}
	if p.startsAtZeroAll(aliases) {
		r.OK(cStart, iObj.Pos(), "dispatch counter %s starts at 0", iObj.Name())
	} else {
		r.Bad(cStart, iObj.Pos(), "the dispatch counter %s does not start at 0 (the serializer starts collecting at 0), or is written other than by its round-robin step", iObj.Name())
	}
	const (
		picked = 1 << iota
		stepped
		emitted
		inLoop
	)
	var disp, step, restart []c02Viol
	add := func(st int, kind string, pos token.Pos, msg string) {
		v := c02Viol{pos, msg}
		switch {
		case st&inLoop == 0:
			restart = append(restart, v)
		case kind == "step":
			step = append(step, v)
		default:
			disp = append(disp, v)
		}
	}
	nSteps, nEmits := 0, 0
	doPick := func(st int, ix *ast.IndexExpr) int {
		if k, isConst := constInt(info, ix.Index); isConst {
			if k != 0 || st&inLoop != 0 {
				add(st, "pick", ix.Pos(), fmt.Sprintf("`%s`: a block is sent to a fixed slot instead of the slot of the round-robin counter", src(r.P.Fset, ix)))
			}
		} else if c02Ref(info, ix.Index) != iObj {
			add(st, "pick", ix.Pos(), fmt.Sprintf("`%s` is not indexed by the round-robin counter %s", src(r.P.Fset, ix), iObj.Name()))
		}
		if st&picked != 0 {
			add(st, "pick", ix.Pos(), "the channel for a block is chosen more than once per block")
		}
		if st&stepped != 0 {
			add(st, "pick", ix.Pos(), "the channel is picked after the counter was stepped: the block goes to the next worker's slot")
		}
		return st | picked
	}
	doEmit := func(st int, s *ast.SendStmt) int {
		nEmits++
		for _, ix := range c02Picks(info, s.Chan, p.inF) {
			st = doPick(st, ix)
		}
		if !p.pickedChan(s.Chan, p.inF, map[types.Object]bool{}) {
			add(st, "emit", s.Pos(), fmt.Sprintf("the block is sent on `%s`, which is not (only) the channel picked as dec.%s[%s]", src(r.P.Fset, s.Chan), p.in, iObj.Name()))
		}
		if st&picked == 0 {
			add(st, "emit", s.Pos(), "a pair is sent before the channel for this block was picked (it goes to the previous block's slot)")
		}
		if st&emitted != 0 {
			add(st, "emit", s.Pos(), "more than one pair is sent for one round-robin slot")
		}
		return st | emitted
	}
	boundary := func(st int, pos token.Pos, what string) {
		e, s := st&emitted != 0, st&stepped != 0
		switch {
		case e && !s:
			add(st, "step", pos, fmt.Sprintf("a pair was sent but the dispatch counter %s was not advanced by `(%s+1) %% %s` before %s: the next block goes to the same worker and the serializer collects it out of order", iObj.Name(), iObj.Name(), p.nObj.Name(), what))
		case s && !e:
			add(st, "emit", pos, "the counter was advanced but no pair was sent before "+what+": some blocks (e.g. error pairs) do not take their round-robin slot, so the serializer waits on a slot that stays empty")
		}
	}
	t := m.newTracer()
	t.inlineOnly(m, func(u *unit) bool { return m.hasChanOp(u) || c02TouchesCounter(m, u) })
	t.Event = func(st int, ev *pbfEvent) int {
		switch ev.kind {
		case "head":
			if ev.n == ast.Node(loop) {
				boundary(st, loop.Pos(), "the next iteration")
				return inLoop
			}
		case "return":
			if ev.depth == 0 {
				pos := loop.Pos()
				if ev.n != nil {
					pos = ev.n.Pos()
				}
				// (a pair sent right before the goroutine ends needs no further step: nothing is dispatched after it)
				if st&stepped != 0 && st&emitted == 0 {
					boundary(st, pos, "the goroutine returns")
				}
			}
		case "comm":
			if s := p.sendClause(p.selectOf(ev), p.in); s != nil {
				return doEmit(st, s)
			}
		case "node":
			if s, ok := ev.n.(*ast.SendStmt); ok {
				if m.chanClass(nil, s.Chan) == p.in {
					return doEmit(st, s)
				}
				return st
			}
			k, nn, _, ok := stepOf(ev.n)
			if !ok && st&inLoop == 0 && st&stepped == 0 {
				// before the loop the counter still has its initial value 0: `i = K % n` is then the step by K
				k, nn, ok = absStepOf(ev.n)
			}
			if ok {
				nSteps++
				if k != 1 || !p.sameCountExpr(nn, map[types.Object]bool{}) {
					add(st, "step", ev.n.Pos(), fmt.Sprintf("`%s`: the dispatch counter must advance by 1 modulo the number of workers %s (the serializer collects with step 1)", src(r.P.Fset, ev.n), p.nObj.Name()))
				}
				if st&stepped != 0 {
					add(st, "step", ev.n.Pos(), "the round-robin counter is stepped more than once per block")
				}
				if st&picked == 0 {
					add(st, "step", ev.n.Pos(), "the counter is stepped before the channel of the block was picked")
				}
				return st | stepped
			}
			if w := writesCounter(ev.n); w != nil {
				if _, isSpec := ev.n.(*ast.ValueSpec); !isSpec && !(st&inLoop == 0 && st&stepped == 0 && c02IsZeroDef(info, ev.n, w)) && !(st&inLoop == 0 && c02IsAliasCopy(info, ev.n, w, aliases)) {
					add(st, "step", ev.n.Pos(), fmt.Sprintf("`%s` writes the dispatch counter other than by `(%s+1) %% %s`", src(r.P.Fset, ev.n), iObj.Name(), p.nObj.Name()))
				}
				return st
			}
			for _, ix := range c02EventPicks(info, ev, p.inF) {
				st = doPick(st, ix)
			}
		case "call", "enter":
			for _, ix := range c02EventPicks(info, ev, p.inF) {
				st = doPick(st, ix)
			}
		}
		return st
	}
	t.Run(g.unit.fi, g.unit.body, 0)
	if nEmits == 0 {
		disp = append(disp, c02Viol{loop.Pos(), "no send of a pair on dec." + p.in + " in the reader"})
	}
	if nSteps == 0 {
		step = append(step, c02Viol{loop.Pos(), fmt.Sprintf("the dispatch counter %s is never advanced by `(%s+1) %% %s`", iObj.Name(), iObj.Name(), p.nObj.Name())})
	}
	c02Report(r, cDisp, loop.Pos(), disp, t.incomplete, fmt.Sprintf("on every path each iteration picks dec.%s[%s] once (before the step) and sends exactly one pair (data or error) on the picked channel", p.in, iObj.Name()))
	c02Report(r, cStep, loop.Pos(), step, t.incomplete, fmt.Sprintf("on every path each iteration steps %s=(%s+1)%%%s exactly once", iObj.Name(), iObj.Name(), p.nObj.Name()))
	c02Report(r, cRestart, g.unit.body.Pos(), restart, t.incomplete, fmt.Sprintf("before the loop a block is only sent to dec.%s[0] and the counter is then stepped exactly once, so the loop continues at slot 1", p.in))
}

// c02IsZeroDef: n defines o with the constant 0 (`i := 0`).
func c02IsZeroDef(info *types.Info, n ast.Node, o types.Object) bool {
	as, ok := n.(*ast.AssignStmt)
	if !ok || as.Tok != token.DEFINE || len(as.Lhs) != len(as.Rhs) {
		return false
	}
	for i, l := range as.Lhs {
		if c02Ref(info, l) == o {
			v, ok := constInt(info, as.Rhs[i])
			return ok && v == 0
		}
	}
	return false
}

// c02TouchesCounter: the unit indexes one of the decoder's channel slices (so it may pick a round-robin slot).
func c02TouchesCounter(m *pbfModel, u *unit) bool {
	found := false
	m.walkUnit(u, func(n ast.Node) bool {
		if ix, ok := n.(*ast.IndexExpr); ok {
			if f := fieldOf(m.info, ix.X); f != nil {
				if sl, ok := f.Type().Underlying().(*types.Slice); ok {
					if _, isChan := sl.Elem().Underlying().(*types.Chan); isChan {
						found = true
					}
				}
			}
		}
		return !found
	})
	return found
}

// c02Ref returns the variable an expression refers to for the purpose of round-robin counters and worker counts: a
// local variable / parameter, or - when the state is kept in the decoder - the struct field a selector selects.
func c02Ref(info *types.Info, e ast.Expr) types.Object {
	if o := objOf(info, e); o != nil {
		return o
	}
	if f := fieldOf(info, e); f != nil {
		return f
	}
	return nil
}

// counterAliases lists the round-robin counter and the variables it is copy-initialised from (transitively).
func (p *c02Pipe) counterAliases(o types.Object) []types.Object {
	out := []types.Object{o}
	for i := 0; i < len(out) && i < 4; i++ {
		v, ok := out[i].(*types.Var)
		if !ok || v.IsField() {
			continue
		}
		for _, d := range p.m.defsOf(v) {
			if d.kind != "assign" || d.e == nil {
				continue
			}
			if src, ok := objOf(p.info, d.e).(*types.Var); ok && !src.IsField() {
				dup := false
				for _, x := range out {
					if x == types.Object(src) {
						dup = true
					}
				}
				if !dup {
					out = append(out, src)
				}
			}
		}
	}
	return out
}

// c02IsAliasCopy: n defines / assigns counter variable w with the plain value of another variable of the alias set.
func c02IsAliasCopy(info *types.Info, n ast.Node, w types.Object, aliases []types.Object) bool {
	as, ok := n.(*ast.AssignStmt)
	if !ok || len(as.Lhs) != len(as.Rhs) {
		return false
	}
	for i, l := range as.Lhs {
		if c02Ref(info, l) != w {
			continue
		}
		src := objOf(info, as.Rhs[i])
		for _, a := range aliases {
			if src != nil && src == a && a != w {
				return true
			}
		}
	}
	return false
}

// startsAtZeroAll is startsAtZero for a counter handed over between variables: each variable is only defined by the
// zero value / 0, by a round-robin step, or by a copy of another variable of the set, and the chain starts at 0.
func (p *c02Pipe) startsAtZeroAll(aliases []types.Object) bool {
	if len(aliases) == 1 {
		return p.startsAtZero(aliases[0])
	}
	zeros := 0
	for _, o := range aliases {
		for _, d := range p.m.defsOf(o) {
			switch d.kind {
			case "zero":
				zeros++
			case "assign":
				if _, _, isStep := c02Step(p.info, d.stmt, o); isStep {
					continue
				}
				if _, _, isAbs := c02AbsStep(p.info, d.stmt, o); isAbs {
					continue
				}
				if v, ok := constInt(p.info, d.e); ok && v == 0 {
					zeros++
					continue
				}
				if c02IsAliasCopy(p.info, d.stmt, o, aliases) {
					continue
				}
				return false
			default:
				return false
			}
		}
	}
	return zeros == 1
}
