package rules

import (
	"go/ast"
	"go/token"
	"go/types"

	"golang.org/x/tools/go/cfg"

	"osmcheck/core"
)

// Bottom-up facts of C17.G8 about the set of node ids that are part of a way (the *way-node set*):
//
//	insertsNode(h, p)  h records its parameter p (an osm.NodeID, or a way node whose ID it takes) on every path;
//	wayEvents(fn, w)   the places of fn that record EVERY node of way w: a range over w.Nodes every iteration of which
//	                   records the node of that iteration (directly or through an insertsNode helper) and which is
//	                   never left early, or a call h(…w…) with fillsWay(h, its parameter);
//	fillsWay(h, p)     on every path h reaches one of wayEvents(h, p);
//	allEvents(fn)      the places of fn that record every node of every way of the input: a range over the Ways field
//	                   of an osm.OSM every iteration of which reaches a way event for its element, or a call of a
//	                   function every path of which reaches one of its own allEvents.
// Nothing here looks at names: the set is a context field (c17G8An.set), ways and nodes are recognised by type.

type c17G8An struct {
	r       *core.R
	o       *c17Opt
	a       *c17Pkg
	g5      *c17G5An
	set     *types.Var
	conv    *c17Fn
	memo    map[string]int // 0 unknown, 1 yes, -1 no, 2 in progress
	allMemo map[*c17Fn]*c17G8Pass
}

const (
	c17WayNodesPath = core.ModulePath + ".WayNodes"
	c17NodeIDPath   = core.ModulePath + ".NodeID"
)

// insertion returns the key recorded by statement/expression n when n inserts into the way-node set:
// `set[K] = …` for a map, `set = append(set, K)` for a slice.
func (g *c17G8An) insertion(n ast.Node) ast.Expr {
	as, ok := n.(*ast.AssignStmt)
	if !ok {
		return nil
	}
	info := g.a.info
	for i, l := range as.Lhs {
		l = ast.Unparen(l)
		if ix, ok := l.(*ast.IndexExpr); ok && c17FieldOf(info, ix.X) == g.set && as.Tok == token.ASSIGN {
			return ix.Index
		}
		if c17FieldOf(info, l) == g.set && len(as.Lhs) == len(as.Rhs) {
			if call, ok := ast.Unparen(as.Rhs[i]).(*ast.CallExpr); ok && builtinName(info, call) == "append" && len(call.Args) == 2 && !call.Ellipsis.IsValid() {
				if c17FieldOf(info, call.Args[0]) == g.set {
					return call.Args[1]
				}
			}
		}
	}
	return nil
}

// nodeOf reduces an expression denoting the id of a way node, or the way node itself, to the expression of the way
// node (`wn.ID` -> wn, `w.Nodes[i].ID` -> w.Nodes[i], `id` with `id := wn.ID` -> wn).
func (g *c17G8An) nodeOf(fn *c17Fn, e ast.Expr) ast.Expr {
	a, info := g.a, g.a.info
	e = stripDerefParen(a.resolve(fn, stripDerefParen(e)))
	if ue, ok := e.(*ast.UnaryExpr); ok && ue.Op == token.AND {
		e = stripDerefParen(ue.X)
	}
	if sel, ok := e.(*ast.SelectorExpr); ok {
		if f := c17FieldOf(info, sel); f != nil && f.Name() == "ID" && namedPath(f.Type()) == c17NodeIDPath && c17FieldOwner(a.p, f) == "WayNode" {
			e = stripDerefParen(a.resolve(fn, stripDerefParen(sel.X)))
			if ue, ok := e.(*ast.UnaryExpr); ok && ue.Op == token.AND {
				e = stripDerefParen(ue.X)
			}
		}
	}
	return e
}

// currentNode: e denotes the way node (or its id) of the current iteration of loop (a range over way nodes).
func (g *c17G8An) currentNode(fn *c17Fn, e ast.Expr, loop *ast.RangeStmt) bool {
	info := g.a.info
	n := g.nodeOf(fn, e)
	switch x := n.(type) {
	case *ast.Ident:
		return loop.Value != nil && objOf(info, x) != nil && objOf(info, x) == objOf(info, loop.Value)
	case *ast.IndexExpr:
		return loop.Key != nil && objOf(info, x.Index) != nil && objOf(info, x.Index) == objOf(info, loop.Key) && sameChain(info, stripDerefParen(x.X), stripDerefParen(loop.X))
	}
	return false
}

func (g *c17G8An) innermostLoop(fn *c17Fn, n ast.Node) ast.Node {
	loops := fn.loopsAround(n)
	if len(loops) == 0 {
		return nil
	}
	return loops[len(loops)-1]
}

// insertsNode: see the file comment. idx is the index of the parameter.
func (g *c17G8An) insertsNode(h *c17Fn, p *types.Var) bool {
	key := "node|" + h.Name() + "|" + p.Name()
	if v := g.memo[key]; v != 0 {
		return v == 1
	}
	g.memo[key] = 2
	res := false
	info := g.a.info
	ast.Inspect(h.Decl.Body, func(n ast.Node) bool {
		if res {
			return false
		}
		if _, isLit := n.(*ast.FuncLit); isLit {
			return false
		}
		if k := g.insertion(n); k != nil && g.innermostLoop(h, n) == nil {
			if id, ok := g.nodeOf(h, k).(*ast.Ident); ok && objOf(info, id) == p && h.everyPath(h.blockSet(n)) {
				res = true
			}
		}
		if call, ok := n.(*ast.CallExpr); ok && g.innermostLoop(h, call) == nil {
			if q := g.nodeArg(h, call, func(e ast.Expr) bool {
				id, ok := g.nodeOf(h, e).(*ast.Ident)
				return ok && objOf(info, id) == p
			}); q && h.everyPath(h.blockSet(call)) {
				res = true
			}
		}
		return true
	})
	g.memo[key] = map[bool]int{true: 1, false: -1}[res]
	return res
}

// nodeArg: call hands a node accepted by is to a parameter of a package function that records it (insertsNode).
func (g *c17G8An) nodeArg(fn *c17Fn, call *ast.CallExpr, is func(ast.Expr) bool) bool {
	f := callee(g.a.info, call)
	h := g.a.fns[f]
	if h == nil {
		return false
	}
	sig := f.Type().(*types.Signature)
	for i := 0; i < sig.Params().Len() && i < len(call.Args); i++ {
		if (i < sig.Params().Len()-1 || !sig.Variadic()) && is(call.Args[i]) && g.insertsNode(h, sig.Params().At(i)) {
			return true
		}
	}
	return false
}

// c17WayIs decides whether an expression denotes the way in question.
type c17WayIs func(e ast.Expr) bool

// isVar: the way is the variable w (aliases `x := w` are looked through).
func (g *c17G8An) isVar(fn *c17Fn, w types.Object) c17WayIs {
	return func(e ast.Expr) bool {
		id, ok := stripDerefParen(g.a.resolveAlias(fn, e)).(*ast.Ident)
		return ok && w != nil && objOf(g.a.info, id) == w
	}
}

// wayEvents: see the file comment.
func (g *c17G8An) wayEvents(fn *c17Fn, is c17WayIs) []ast.Node {
	info := g.a.info
	var out []ast.Node
	ast.Inspect(fn.Decl.Body, func(n ast.Node) bool {
		switch x := n.(type) {
		case *ast.FuncLit:
			return false
		case *ast.RangeStmt:
			if namedPath(info.TypeOf(x.X)) != c17WayNodesPath {
				return true
			}
			nodes := stripDerefParen(g.a.resolve(fn, stripDerefParen(x.X)))
			sel, ok := nodes.(*ast.SelectorExpr)
			if !ok || !is(sel.X) {
				return true
			}
			if g.loopRecordsEveryNode(fn, x) {
				out = append(out, x)
			}
		case *ast.CallExpr:
			f := callee(info, x)
			h := g.a.fns[f]
			if h == nil {
				return true
			}
			sig := f.Type().(*types.Signature)
			for i := 0; i < sig.Params().Len() && i < len(x.Args); i++ {
				if is(x.Args[i]) && g.fillsWay(h, sig.Params().At(i)) {
					out = append(out, x)
					break
				}
			}
			if sel, ok := ast.Unparen(x.Fun).(*ast.SelectorExpr); ok && sig.Recv() != nil && is(sel.X) && g.fillsWay(h, sig.Recv()) {
				out = append(out, x)
			}
		}
		return true
	})
	return out
}

// loopRecordsEveryNode: every iteration of the range over way nodes records the node of that iteration.
func (g *c17G8An) loopRecordsEveryNode(fn *c17Fn, loop *ast.RangeStmt) bool {
	ok := false
	ast.Inspect(loop.Body, func(n ast.Node) bool {
		if ok {
			return false
		}
		if _, isLit := n.(*ast.FuncLit); isLit {
			return false
		}
		hit := false
		if k := g.insertion(n); k != nil && g.currentNode(fn, k, loop) {
			hit = true
		}
		if call, isCall := n.(*ast.CallExpr); isCall && g.nodeArg(fn, call, func(e ast.Expr) bool { return g.currentNode(fn, e, loop) }) {
			hit = true
		}
		if hit && g.innermostLoop(fn, n) == ast.Node(loop) && fn.everyIteration(loop, fn.blockSet(n), nil) == "" {
			ok = true
		}
		return true
	})
	return ok
}

// fillsWay: see the file comment.
func (g *c17G8An) fillsWay(h *c17Fn, p *types.Var) bool {
	if p == nil {
		return false
	}
	key := "way|" + h.Name() + "|" + p.Name()
	if v := g.memo[key]; v != 0 {
		return v == 1
	}
	g.memo[key] = 2
	res := false
	for _, ev := range g.wayEvents(h, g.isVar(h, p)) {
		if g.innermostLoop(h, ev) == nil && h.everyPath(g.eventBlocks(h, ev)) {
			res = true
			break
		}
	}
	g.memo[key] = map[bool]int{true: 1, false: -1}[res]
	return res
}

// eventBlocks: the block(s) whose execution means the event happens (the head of a loop event, the block of a call).
func (g *c17G8An) eventBlocks(fn *c17Fn, ev ast.Node) map[*cfg.Block]bool {
	if rs, ok := ev.(*ast.RangeStmt); ok {
		if head, _, _ := fn.loopBlocks(rs); head != nil {
			return map[*cfg.Block]bool{head: true}
		}
		return nil
	}
	return fn.blockSet(ev)
}
