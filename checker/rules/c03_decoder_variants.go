package rules

import "osmcheck/core"

// Mutants and silent variants for C03.T7 (the scanner's decoder is configured like xml.Unmarshal's).

const c03NewDecoderLit = "\ts := &Scanner{\n\t\tdecoder: xml.NewDecoder(r),\n\t}\n"

const c03ScanFirst = "func (s *Scanner) Scan() bool {\n\tif s.err != nil {\n\t\treturn false\n\t}\n"

var c03DecoderMutants = []core.Mutant{
	{Name: "t7-lenient-html-settings-in-constructor", File: "osmxml/scanner.go", Find: c03NewDecoderLit,
		Replace: c03NewDecoderLit + "\ts.decoder.Strict = false\n\ts.decoder.AutoClose = xml.HTMLAutoClose\n\ts.decoder.Entity = xml.HTMLEntity\n", ExpectRule: "T7", ExpectConstruct: "decoder.AutoClose@osmxml"},
	{Name: "t7-only-strict-switched-off", File: "osmxml/scanner.go", Find: c03NewDecoderLit,
		Replace: c03NewDecoderLit + "\ts.decoder.Strict = false\n", ExpectRule: "T7", ExpectConstruct: "decoder.Strict@osmxml"},
	{Name: "t7-strict-switched-off-in-scan", File: "osmxml/scanner.go", Find: c03ScanFirst,
		Replace: c03ScanFirst + "\ts.decoder.Strict = false\n", ExpectRule: "T7", ExpectConstruct: "decoder.Strict@osmxml"},
	{Name: "t7-strict-switched-off-through-alias", File: "osmxml/scanner.go", Find: c03ScanFirst,
		Replace: c03ScanFirst + "\td := s.decoder\n\td.Strict = false\n", ExpectRule: "T7", ExpectConstruct: "decoder.Strict@osmxml"},
	{Name: "t7-entities-set-in-helper", File: "osmxml/scanner.go", Find: c03NewDecoderLit,
		Replace: "\tlenient := func(d *xml.Decoder) *xml.Decoder {\n\t\td.Entity = xml.HTMLEntity\n\t\treturn d\n\t}\n\ts := &Scanner{\n\t\tdecoder: lenient(xml.NewDecoder(r)),\n\t}\n", ExpectRule: "T7", ExpectConstruct: "decoder.Entity@osmxml"},
	{Name: "t7-default-namespace-set", File: "osmxml/scanner.go", Find: c03NewDecoderLit,
		Replace: c03NewDecoderLit + "\ts.decoder.DefaultSpace = \"osm\"\n", ExpectRule: "T7", ExpectConstruct: "decoder.DefaultSpace@osmxml"},
}

var c03DecoderBenign = []core.Mutant{
	{Name: "t7-defaults-assigned-explicitly", File: "osmxml/scanner.go", Find: c03NewDecoderLit,
		Replace: c03NewDecoderLit + "\ts.decoder.Strict = true\n\ts.decoder.AutoClose = nil\n\ts.decoder.Entity = nil\n"},
	{Name: "t7-decoder-built-in-closure-helper", File: "osmxml/scanner.go", Find: c03NewDecoderLit,
		Replace: "\tnewDecoder := func(src io.Reader) *xml.Decoder {\n\t\td := xml.NewDecoder(src)\n\t\td.Strict = true\n\t\treturn d\n\t}\n\ts := &Scanner{\n\t\tdecoder: newDecoder(r),\n\t}\n"},
}
