package rules

import (
	"go/ast"
	"go/token"
	"go/types"

	"osmcheck/core"
)

// Access to the pipeline model (pbfmodel.go, owned by the C02/C07/C09 rules). C01/C06/C08 need only a small part of
// it: which functions run in which goroutine role, the scanner type, the spawner and the per-worker decoder type.
// When the shared model cannot be built for a reason that does not concern these rules (it insists on a particular
// form of the go statements), the part they need is derived here in a form-independent way: a goroutine body may be
// a function literal or a function/method started with `go f(args)`; roles are propagated along static calls.
// If that derivation fails too, the shared model's errors are reported as unresolved anchors.

var c01PipelineCache = map[*core.Program]*pbfModel{}

func c01PipelineModel(p *core.Program) *pbfModel {
	if m, ok := c01PipelineCache[p]; ok {
		return m
	}
	m := getPBFModel(p)
	if len(m.errs) > 0 {
		if fb := c01DeriveRoles(p); fb != nil {
			m = fb
		}
	}
	c01PipelineCache[p] = m
	return m
}

// c01DeriveRoles builds the role part of a pipeline model, or nil when the package does not have the expected
// overall structure (one spawner method with go statements, a worker started in a loop, a reader that reaches
// io.ReadFull, a per-worker decoder allocated in the worker loop).
func c01DeriveRoles(p *core.Program) *pbfModel {
	m := &pbfModel{p: p, units: map[ast.Node]*unit{}}
	m.pk = p.Pkg("osmpbf")
	if m.pk == nil {
		return nil
	}
	m.info = m.pk.TypesInfo
	m.scannerT, _ = structType(m.pk, "Scanner")
	if m.scannerT == nil {
		return nil
	}
	for _, fi := range allFuncs(m.pk) {
		n := 0
		ast.Inspect(fi.Decl.Body, func(x ast.Node) bool {
			if _, ok := x.(*ast.GoStmt); ok {
				n++
			}
			return true
		})
		if n > 0 {
			if m.start != nil {
				return nil
			}
			m.start = fi
		}
	}
	if m.start == nil {
		return nil
	}
	if recv := m.start.Obj.Type().(*types.Signature).Recv(); recv != nil {
		t := recv.Type()
		if pt, ok := t.(*types.Pointer); ok {
			t = pt.Elem()
		}
		m.decoderT, _ = t.(*types.Named)
	}
	if m.decoderT == nil {
		return nil
	}
	for _, fi := range allFuncs(m.pk) {
		m.units[fi.Decl] = &unit{node: fi.Decl, body: fi.Decl.Body, fi: fi, name: fi.Name(), roles: map[string]bool{}, initPos: map[token.Pos]bool{}}
	}
	par := parentsOf(p, m.start)
	type site struct {
		gs     *ast.GoStmt
		u      *unit
		inLoop bool
	}
	var sites []site
	ok := true
	ast.Inspect(m.start.Decl.Body, func(x ast.Node) bool {
		gs, isGo := x.(*ast.GoStmt)
		if !isGo {
			return true
		}
		var u *unit
		if lit, isLit := gs.Call.Fun.(*ast.FuncLit); isLit {
			u = &unit{node: lit, body: lit.Body, fi: m.start, roles: map[string]bool{}, initPos: map[token.Pos]bool{}}
			m.units[lit] = u
			m.gos = append(m.gos, &goSite{stmt: gs, lit: lit})
		} else if tf := c01Callee(m.pk, gs.Call); tf != nil {
			u = m.units[tf.Decl]
			m.gos = append(m.gos, &goSite{stmt: gs})
		}
		if u == nil {
			ok = false
			return true
		}
		inLoop := enclosing(par, gs, func(n ast.Node) bool {
			switch n.(type) {
			case *ast.ForStmt, *ast.RangeStmt:
				return true
			}
			return false
		}) != nil
		sites = append(sites, site{gs, u, inLoop})
		return true
	})
	if !ok || len(sites) == 0 {
		return nil
	}
	for _, u := range m.units {
		u := u
		m.walkUnit(u, func(n ast.Node) bool {
			if call, isCall := n.(*ast.CallExpr); isCall {
				if fn := callee(m.info, call); fn != nil && fn.Pkg() == m.pk.Types {
					u.calls = append(u.calls, fn)
				}
			}
			return true
		})
	}
	var workerLoop ast.Node
	nworker, nreader := 0, 0
	for i, s := range sites {
		role := "serializer"
		switch {
		case s.inLoop:
			role = "worker"
			nworker++
			workerLoop = enclosing(par, s.gs, func(n ast.Node) bool {
				switch n.(type) {
				case *ast.ForStmt, *ast.RangeStmt:
					return true
				}
				return false
			})
		case m.unitReaches(s.u, func(x *unit) bool { return m.unitCalls(x, "io", "ReadFull") }):
			role = "reader"
			nreader++
		}
		m.gos[i].role = role
		if _, isLit := s.u.node.(*ast.FuncLit); isLit {
			s.u.name = m.start.Name() + "$" + role
		}
		m.propagate(s.u, role, token.NoPos)
	}
	if nworker == 0 || nreader != 1 {
		return nil
	}
	for _, fi := range allFuncs(m.pk) {
		isEntry := false
		if recv := fi.Obj.Type().(*types.Signature).Recv(); recv != nil {
			isEntry = namedPath(recv.Type()) == namedPath(m.scannerT) && fi.Obj.Exported()
		} else {
			isEntry = fi.Obj.Exported()
		}
		if isEntry {
			m.propagate(m.units[fi.Decl], "consumer", token.NoPos)
		}
	}
	// the per-worker decoder: a struct type of the package allocated in the worker-spawning loop
	ast.Inspect(workerLoop, func(x ast.Node) bool {
		if _, isLit := x.(*ast.FuncLit); isLit {
			return false // values built inside a goroutine body are not the per-worker decoder
		}
		if cl, isCl := x.(*ast.CompositeLit); isCl {
			if nt, isNamed := m.info.TypeOf(cl).(*types.Named); isNamed && nt.Obj().Pkg() == m.pk.Types && nt.NumMethods() > 0 {
				if _, isStruct := nt.Underlying().(*types.Struct); isStruct {
					m.ddT = nt
				}
			}
		}
		return true
	})
	if m.ddT == nil {
		return nil
	}
	return m
}
