package rules

import (
	"go/ast"
	"go/token"
	"go/types"

	"osmcheck/core"
)

// Access to the pipeline model (pbfmodel.go, owned by the C02/C07/C09 rules). C01/C06/C08 need only a small part of
// it: which functions run in which goroutine role, the scanner type, the spawner and the per-worker decoder type.
// When the shared model cannot be built for a reason that does not concern these rules (it insists on a particular
// form of the go statements), the part they need is derived here in a form-independent way: a goroutine body may be
// a function literal or a function/method started with `go f(args)`; roles are propagated along static calls.
// If that derivation fails too, the shared model's errors are reported as unresolved anchors.

var c01PipelineCache = map[*core.Program]*pbfModel{}

func c01PipelineModel(p *core.Program) *pbfModel {
	if m, ok := c01PipelineCache[p]; ok {
		return m
	}
	m := getPBFModel(p)
	hasReader := false
	for _, g := range m.gos {
		if g.role == "reader" {
			hasReader = true
		}
	}
	if len(m.errs) > 0 || !hasReader {
		// the shared model could not be built, or it found no goroutine that reads the input (it looks for one
		// particular read primitive): derive the roles here
		if fb := c01DeriveRoles(p); fb != nil {
			m = fb
		}
	}
	c01PipelineCache[p] = m
	return m
}

// c01DeriveRoles builds the role part of a pipeline model, or nil when the package does not have the expected
// overall structure (one spawner method with go statements, a worker started in a loop, a reader that reaches
// io.ReadFull, a per-worker decoder allocated in the worker loop).
func c01DeriveRoles(p *core.Program) *pbfModel {
	m := &pbfModel{p: p, units: map[ast.Node]*unit{}, funcs: map[*types.Func]*FuncInfo{}, byDecl: map[*types.Func]*unit{}, goCalls: map[*ast.CallExpr]*goSite{}}
	m.pk = p.Pkg("osmpbf")
	if m.pk == nil {
		return nil
	}
	m.info = m.pk.TypesInfo
	m.scannerT, _ = structType(m.pk, "Scanner")
	if m.scannerT == nil {
		return nil
	}
	// the functions holding go statements; the spawner is the one the others are reached from (the go statements may
	// be spread over helpers the spawner calls, e.g. one helper starting the workers)
	var hosts []*FuncInfo
	for _, fi := range allFuncs(m.pk) {
		n := 0
		ast.Inspect(fi.Decl.Body, func(x ast.Node) bool {
			if _, ok := x.(*ast.GoStmt); ok {
				n++
			}
			return true
		})
		if n > 0 {
			hosts = append(hosts, fi)
		}
	}
	for _, a := range hosts {
		root := true
		for _, b := range hosts {
			if a == b {
				continue
			}
			for _, g := range c01Reachable(p, b) {
				if g.Obj == a.Obj {
					root = false
				}
			}
		}
		if root {
			if m.start != nil {
				return nil
			}
			m.start = a
		}
	}
	if m.start == nil {
		return nil
	}
	for _, hst := range hosts {
		reached := false
		for _, g := range c01Reachable(p, m.start) {
			if g.Obj == hst.Obj {
				reached = true
			}
		}
		if !reached {
			return nil
		}
	}
	if recv := m.start.Obj.Type().(*types.Signature).Recv(); recv != nil {
		t := recv.Type()
		if pt, ok := t.(*types.Pointer); ok {
			t = pt.Elem()
		}
		m.decoderT, _ = t.(*types.Named)
	}
	if m.decoderT == nil {
		return nil
	}
	for _, fi := range allFuncs(m.pk) {
		u := &unit{node: fi.Decl, body: fi.Decl.Body, fi: fi, name: fi.Name(), roles: map[string]bool{}, initPos: map[token.Pos]bool{}}
		m.units[fi.Decl] = u
		m.funcs[fi.Obj] = fi
		m.byDecl[fi.Obj] = u
	}
	isLoop := func(n ast.Node) bool {
		switch n.(type) {
		case *ast.ForStmt, *ast.RangeStmt:
			return true
		}
		return false
	}
	type site struct {
		gs     *ast.GoStmt
		u      *unit
		inLoop bool
		scope  ast.Node // where the goroutine's private values are built: the enclosing loop, or the helper's body
	}
	var sites []site
	ok := true
	parStart := parentsOf(p, m.start)
	for _, hst := range hosts {
		hst := hst
		par := parentsOf(p, hst)
		// a helper that is called from a loop of the spawner starts its goroutines once per iteration
		calledInLoop := false
		if hst != m.start {
			ast.Inspect(m.start.Decl.Body, func(x ast.Node) bool {
				if call, isCall := x.(*ast.CallExpr); isCall && callee(m.info, call) == hst.Obj {
					if enclosing(parStart, call, isLoop) != nil {
						calledInLoop = true
					}
				}
				return true
			})
		}
		ast.Inspect(hst.Decl.Body, func(x ast.Node) bool {
			gs, isGo := x.(*ast.GoStmt)
			if !isGo {
				return true
			}
			var u *unit
			if lit, isLit := gs.Call.Fun.(*ast.FuncLit); isLit {
				u = &unit{node: lit, body: lit.Body, fi: hst, roles: map[string]bool{}, initPos: map[token.Pos]bool{}}
				m.units[lit] = u
				m.gos = append(m.gos, &goSite{stmt: gs, lit: lit})
			} else if tf := c01Callee(m.pk, gs.Call); tf != nil {
				u = m.units[tf.Decl]
				m.gos = append(m.gos, &goSite{stmt: gs})
			}
			if u == nil {
				ok = false
				return true
			}
			loop := enclosing(par, gs, isLoop)
			var scope ast.Node = loop
			if loop == nil && calledInLoop {
				scope = hst.Decl.Body
			}
			sites = append(sites, site{gs, u, loop != nil || calledInLoop, scope})
			return true
		})
	}
	if !ok || len(sites) == 0 {
		return nil
	}
	for _, u := range m.units {
		u := u
		m.walkUnit(u, func(n ast.Node) bool {
			if call, isCall := n.(*ast.CallExpr); isCall {
				if fn := callee(m.info, call); fn != nil && fn.Pkg() == m.pk.Types {
					u.calls = append(u.calls, fn)
				}
			}
			return true
		})
	}
	var workerLoop ast.Node
	nworker, nreader := 0, 0
	for i, s := range sites {
		role := "serializer"
		switch {
		case s.inLoop:
			role = "worker"
			nworker++
			workerLoop = s.scope
		case m.unitReaches(s.u, func(x *unit) bool { return c01UnitReadsStream(m, x) }):
			role = "reader"
			nreader++
		}
		m.gos[i].role = role
		if _, isLit := s.u.node.(*ast.FuncLit); isLit {
			s.u.name = m.start.Name() + "$" + role
		}
		m.propagate(s.u, role, token.NoPos)
	}
	if nworker == 0 || nreader != 1 {
		return nil
	}
	for _, fi := range allFuncs(m.pk) {
		isEntry := false
		if recv := fi.Obj.Type().(*types.Signature).Recv(); recv != nil {
			isEntry = namedPath(recv.Type()) == namedPath(m.scannerT) && fi.Obj.Exported()
		} else {
			isEntry = fi.Obj.Exported()
		}
		if isEntry {
			m.propagate(m.units[fi.Decl], "consumer", token.NoPos)
		}
	}
	// the per-worker decoder: a struct type of the package allocated in the worker-spawning loop
	ast.Inspect(workerLoop, func(x ast.Node) bool {
		if _, isLit := x.(*ast.FuncLit); isLit {
			return false // values built inside a goroutine body are not the per-worker decoder
		}
		if cl, isCl := x.(*ast.CompositeLit); isCl {
			if nt, isNamed := m.info.TypeOf(cl).(*types.Named); isNamed && nt.Obj().Pkg() == m.pk.Types && nt.NumMethods() > 0 {
				if _, isStruct := nt.Underlying().(*types.Struct); isStruct {
					// among several (a worker struct wrapping the decoder), the one with a method that takes a blob
					takesBlob := false
					for i := 0; i < nt.NumMethods(); i++ {
						ps := nt.Method(i).Type().(*types.Signature).Params()
						for j := 0; j < ps.Len(); j++ {
							if c01IsGenerated(ps.At(j).Type(), "Blob") {
								takesBlob = true
							}
						}
					}
					if m.ddT == nil || takesBlob {
						m.ddT = nt
					}
				}
			}
		}
		return true
	})
	if m.ddT == nil {
		return nil
	}
	return m
}

// c01IsStreamRead: call reads from an io.Reader: a function of package io whose first parameter is an io.Reader
// (ReadFull, ReadAtLeast, ReadAll, Copy, CopyN ...), or the Read method called on a value of an interface type.
func c01IsStreamRead(info *types.Info, call *ast.CallExpr) bool {
	fn := callee(info, call)
	if fn == nil {
		return false
	}
	sig := fn.Type().(*types.Signature)
	if fn.Pkg() != nil && fn.Pkg().Path() == "io" && sig.Recv() == nil {
		for i := 0; i < sig.Params().Len(); i++ {
			if namedPath(sig.Params().At(i).Type()) == "io.Reader" {
				return true
			}
		}
		return false
	}
	if sig.Recv() != nil && fn.Name() == "Read" {
		if sel, ok := ast.Unparen(call.Fun).(*ast.SelectorExpr); ok {
			if _, isIface := info.TypeOf(sel.X).Underlying().(*types.Interface); isIface {
				return true
			}
		}
	}
	return false
}

// c01UnitReadsStream: the unit itself reads from an io.Reader.
func c01UnitReadsStream(m *pbfModel, u *unit) bool {
	found := false
	m.walkUnit(u, func(n ast.Node) bool {
		if call, ok := n.(*ast.CallExpr); ok && c01IsStreamRead(m.info, call) {
			found = true
		}
		return !found
	})
	return found
}
