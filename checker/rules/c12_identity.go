package rules

import (
	"go/ast"
	"go/token"
	"go/types"
)

// Identity of the list that is sorted.
//
// `for i, r := range lists { ...; r.SortByIndex() }` sorts the array r's header points to. That is the array lists[i]
// holds at return only if lists[i] is not given another array between the moment the header was copied (the start of
// the iteration for a range value, the definition for a local `l := lists[i]`) and the sort; a store into lists[i]
// after the sort keeps the list sorted only if it stores the sorted list itself (a re-slice, or a copy made by
// append onto fresh storage). Sorting lists[i] in place (the index form) always sorts what is stored.

// sortedIsStored decides whether the list sorted by call (operand e, the current element of root in the loop with
// body lbody) is what root holds for that element when the iteration ends. isCur recognises expressions denoting
// the current element (the range value, root[idx], a local copy of either).
func (s *c12Sorter) sortedIsStored(f *c12Fn, lbody *ast.BlockStmt, call *ast.CallExpr, e ast.Expr, root, idx, val types.Object, isCur func(ast.Expr) bool) (bool, string) {
	info := f.info()
	fbody := f.fi.Decl.Body
	op := c12StripConv(info, e)
	_, inPlace := op.(*ast.IndexExpr)
	// where the header that is sorted was copied
	copyPos := token.NoPos
	if !inPlace {
		copyPos = lbody.Pos() // the range value is copied when the iteration starts
		if o := objOf(info, op); o != nil && o != val {
			if rhs := c12SingleDef(info, lbody, o); rhs != nil {
				copyPos = rhs.Pos()
			}
		}
	}
	ok, why := true, ""
	inspectNoLit(lbody, func(n ast.Node) bool {
		as, isAs := n.(*ast.AssignStmt)
		if !isAs || !ok {
			return true
		}
		for i, l := range as.Lhs {
			place, isElem := c12ListPlace(info, fbody, l)
			if place != root {
				continue
			}
			text := "`" + src(f.pk.Fset, as) + "`"
			if !isElem {
				ok, why = false, text+" replaces the whole of "+root.Name()+" inside the loop that sorts it"
				continue
			}
			ix := ast.Unparen(l).(*ast.IndexExpr)
			if idx == nil || objOf(info, c12StripConv(info, ix.Index)) != idx {
				ok, why = false, text+" stores into another element than the one being sorted"
				continue
			}
			switch {
			case as.End() <= call.Pos():
				// before the sort: fine when the stored list is what is sorted afterwards
				if !inPlace && copyPos < as.Pos() {
					ok, why = false, text+" gives the element a new array after the header that is sorted (`"+src(f.pk.Fset, e)+"`) was copied: the discarded array is sorted, the stored one is not"
				}
			case as.Pos() >= call.End():
				if len(as.Lhs) != len(as.Rhs) || !c12DerivedFromSorted(info, as.Rhs[i], isCur) {
					ok, why = false, text+" replaces the sorted list after the sort with something that is not the sorted list itself"
				}
			default:
				ok, why = false, text+" contains the sort call"
			}
		}
		return true
	})
	return ok, why
}

// c12DerivedFromSorted: e is the sorted list itself, a re-slice of it, or a copy made by append onto fresh storage.
func c12DerivedFromSorted(info *types.Info, e ast.Expr, isCur func(ast.Expr) bool) bool {
	e = c12StripConv(info, e)
	if isCur(e) {
		return true
	}
	switch x := e.(type) {
	case *ast.SliceExpr:
		return c12DerivedFromSorted(info, x.X, isCur)
	case *ast.CallExpr:
		if builtinName(info, x) != "append" || len(x.Args) != 2 || !x.Ellipsis.IsValid() {
			return false
		}
		if !c12DerivedFromSorted(info, x.Args[1], isCur) {
			return false
		}
		base := c12StripConv(info, x.Args[0])
		if c12IsNil(info, base) {
			return true
		}
		switch b := base.(type) {
		case *ast.CompositeLit:
			return len(b.Elts) == 0
		case *ast.CallExpr:
			return builtinName(info, b) == "make"
		case *ast.SliceExpr:
			// x[:0] of fresh storage
			if c, ok := c12StripConv(info, b.X).(*ast.CallExpr); ok {
				return builtinName(info, c) == "make"
			}
		}
	}
	return false
}
