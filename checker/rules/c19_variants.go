package rules

// c19_variants.go — behaviour-preserving variants of the code C19 is about (core.Property.Benign): each is one
// overlay edit of /repo/replication; the rules must stay silent on every one of them. Each was also run through
// the differential test of /verif/benign/C19-a (same transcript hash as the unchanged tree), except b-search-inlined,
// which removes the function findInRange that test calls directly (it is a mechanical inlining of a tail call).

import "osmcheck/core"

var c19Benign = []core.Mutant{
	// extract helper (state fetch with its 404 handling), renamed locals
	{Name: "b-search-fetch-helper-renamed", File: "replication/search.go",
		Find: `func findInRange(ctx context.Context, s *stater, lower, upper *State, timestamp time.Time) (*State, error) {
	// we do a binary search through the range to find the sequence number
	for lower.SeqNum+1 < upper.SeqNum {
		// could do better here
		splitID := (lower.SeqNum + upper.SeqNum) / 2

		split, err := s.State(ctx, splitID)
		if err != nil && !NotFound(err) {
			return nil, err
		}

		if split == nil {
			// file missing, search the next towards lower
			sID := splitID - 1

			for split == nil && lower.SeqNum < sID {
				split, err = s.State(ctx, sID)
				if err != nil && !NotFound(err) {
					return nil, err
				}

				sID--
			}
		}

		if split == nil {
			// still missing? search the next towards upper
			sID := splitID + 1

			for split == nil && sID < upper.SeqNum {
				split, err = s.State(ctx, sID)
				if err != nil && !NotFound(err) {
					return nil, err
				}

				sID++
			}
		}

		if split == nil {
			// nothing between lower and upper, so upper is
			// the first state at or after the timestamp.
			return upper, nil
		}

		// set the new boundary
		if timestamp.After(split.Timestamp) {
			lower = split
		} else {
			upper = split
		}
	}

	// timestamp is now between lower and upper, we want to return the upper.
	return upper, nil
}
`,
		Replace: `func findInRange(ctx context.Context, s *stater, lower, upper *State, timestamp time.Time) (*State, error) {
	// we do a binary search through the range to find the sequence number
	for lower.SeqNum+1 < upper.SeqNum {
		// could do better here
		midID := (lower.SeqNum + upper.SeqNum) / 2

		mid, err := lookup(ctx, s, midID)
		if err != nil {
			return nil, err
		}

		if mid == nil {
			// file missing, search the next towards lower
			id := midID - 1

			for mid == nil && lower.SeqNum < id {
				mid, err = lookup(ctx, s, id)
				if err != nil {
					return nil, err
				}

				id--
			}
		}

		if mid == nil {
			// still missing? search the next towards upper
			id := midID + 1

			for mid == nil && id < upper.SeqNum {
				mid, err = lookup(ctx, s, id)
				if err != nil {
					return nil, err
				}

				id++
			}
		}

		if mid == nil {
			return upper, nil
		}

		// set the new boundary
		if timestamp.After(mid.Timestamp) {
			lower = mid
		} else {
			upper = mid
		}
	}

	// timestamp is now between lower and upper, we want to return the upper.
	return upper, nil
}

// lookup returns the state with the given id, nil if there is no such state file.
func lookup(ctx context.Context, s *stater, id uint64) (*State, error) {
	st, err := s.State(ctx, id)
	if err != nil && !NotFound(err) {
		return nil, err
	}

	return st, nil
}
`},
	// extract function (each neighbour scan becomes a helper with the loop inside)
	{Name: "b-search-scans-extracted", File: "replication/search.go",
		Find: `func findInRange(ctx context.Context, s *stater, lower, upper *State, timestamp time.Time) (*State, error) {
	// we do a binary search through the range to find the sequence number
	for lower.SeqNum+1 < upper.SeqNum {
		// could do better here
		splitID := (lower.SeqNum + upper.SeqNum) / 2

		split, err := s.State(ctx, splitID)
		if err != nil && !NotFound(err) {
			return nil, err
		}

		if split == nil {
			// file missing, search the next towards lower
			sID := splitID - 1

			for split == nil && lower.SeqNum < sID {
				split, err = s.State(ctx, sID)
				if err != nil && !NotFound(err) {
					return nil, err
				}

				sID--
			}
		}

		if split == nil {
			// still missing? search the next towards upper
			sID := splitID + 1

			for split == nil && sID < upper.SeqNum {
				split, err = s.State(ctx, sID)
				if err != nil && !NotFound(err) {
					return nil, err
				}

				sID++
			}
		}

		if split == nil {
			// nothing between lower and upper, so upper is
			// the first state at or after the timestamp.
			return upper, nil
		}

		// set the new boundary
		if timestamp.After(split.Timestamp) {
			lower = split
		} else {
			upper = split
		}
	}

	// timestamp is now between lower and upper, we want to return the upper.
	return upper, nil
}
`,
		Replace: `func findInRange(ctx context.Context, s *stater, lower, upper *State, timestamp time.Time) (*State, error) {
	// we do a binary search through the range to find the sequence number
	for lower.SeqNum+1 < upper.SeqNum {
		// could do better here
		splitID := (lower.SeqNum + upper.SeqNum) / 2

		split, err := s.State(ctx, splitID)
		if err != nil && !NotFound(err) {
			return nil, err
		}

		if split == nil {
			// file missing, search the next towards lower
			split, err = nearestBelow(ctx, s, lower, splitID)
			if err != nil {
				return nil, err
			}
		}

		if split == nil {
			// still missing? search the next towards upper
			split, err = nearestAbove(ctx, s, splitID, upper)
			if err != nil {
				return nil, err
			}
		}

		if split == nil {
			// nothing between lower and upper, so upper is
			// the first state at or after the timestamp.
			return upper, nil
		}

		// set the new boundary
		if timestamp.After(split.Timestamp) {
			lower = split
		} else {
			upper = split
		}
	}

	// timestamp is now between lower and upper, we want to return the upper.
	return upper, nil
}

// nearestBelow returns the first existing state below from and above lower, if any.
func nearestBelow(ctx context.Context, s *stater, lower *State, from uint64) (*State, error) {
	var (
		found *State
		err   error
	)

	for id := from - 1; found == nil && lower.SeqNum < id; id-- {
		found, err = s.State(ctx, id)
		if err != nil && !NotFound(err) {
			return nil, err
		}
	}

	return found, nil
}

// nearestAbove returns the first existing state above from and below upper, if any.
func nearestAbove(ctx context.Context, s *stater, from uint64, upper *State) (*State, error) {
	var (
		found *State
		err   error
	)

	for id := from + 1; found == nil && id < upper.SeqNum; id++ {
		found, err = s.State(ctx, id)
		if err != nil && !NotFound(err) {
			return nil, err
		}
	}

	return found, nil
}
`},
	// loop form (init/post clauses), mirrored and negated comparisons
	{Name: "b-search-for-clauses-mirrored", File: "replication/search.go",
		Find: `func findInRange(ctx context.Context, s *stater, lower, upper *State, timestamp time.Time) (*State, error) {
	// we do a binary search through the range to find the sequence number
	for lower.SeqNum+1 < upper.SeqNum {
		// could do better here
		splitID := (lower.SeqNum + upper.SeqNum) / 2

		split, err := s.State(ctx, splitID)
		if err != nil && !NotFound(err) {
			return nil, err
		}

		if split == nil {
			// file missing, search the next towards lower
			sID := splitID - 1

			for split == nil && lower.SeqNum < sID {
				split, err = s.State(ctx, sID)
				if err != nil && !NotFound(err) {
					return nil, err
				}

				sID--
			}
		}

		if split == nil {
			// still missing? search the next towards upper
			sID := splitID + 1

			for split == nil && sID < upper.SeqNum {
				split, err = s.State(ctx, sID)
				if err != nil && !NotFound(err) {
					return nil, err
				}

				sID++
			}
		}

		if split == nil {
			// nothing between lower and upper, so upper is
			// the first state at or after the timestamp.
			return upper, nil
		}

		// set the new boundary
		if timestamp.After(split.Timestamp) {
			lower = split
		} else {
			upper = split
		}
	}

	// timestamp is now between lower and upper, we want to return the upper.
	return upper, nil
}
`,
		Replace: `func findInRange(ctx context.Context, s *stater, lower, upper *State, timestamp time.Time) (*State, error) {
	// we do a binary search through the range to find the sequence number
	for upper.SeqNum > lower.SeqNum+1 {
		// could do better here
		splitID := (lower.SeqNum + upper.SeqNum) / 2

		split, err := s.State(ctx, splitID)
		if err != nil && !NotFound(err) {
			return nil, err
		}

		if split == nil {
			// file missing, search the next towards lower
			for sID := splitID - 1; split == nil && !(sID <= lower.SeqNum); sID-- {
				split, err = s.State(ctx, sID)
				if err != nil && !NotFound(err) {
					return nil, err
				}
			}
		}

		if split == nil {
			// still missing? search the next towards upper
			for sID := splitID + 1; split == nil && upper.SeqNum > sID; sID += 1 {
				split, err = s.State(ctx, sID)
				if err != nil && !NotFound(err) {
					return nil, err
				}
			}
		}

		if split == nil {
			// nothing between lower and upper, so upper is
			// the first state at or after the timestamp.
			return upper, nil
		}

		// set the new boundary
		if timestamp.After(split.Timestamp) {
			lower = split
		} else {
			upper = split
		}
	}

	// timestamp is now between lower and upper, we want to return the upper.
	return upper, nil
}
`},
	// merged/split guards (conjunct becomes a leading break), early return <-> nesting
	{Name: "b-search-split-guards-nested", File: "replication/search.go",
		Find: `func findInRange(ctx context.Context, s *stater, lower, upper *State, timestamp time.Time) (*State, error) {
	// we do a binary search through the range to find the sequence number
	for lower.SeqNum+1 < upper.SeqNum {
		// could do better here
		splitID := (lower.SeqNum + upper.SeqNum) / 2

		split, err := s.State(ctx, splitID)
		if err != nil && !NotFound(err) {
			return nil, err
		}

		if split == nil {
			// file missing, search the next towards lower
			sID := splitID - 1

			for split == nil && lower.SeqNum < sID {
				split, err = s.State(ctx, sID)
				if err != nil && !NotFound(err) {
					return nil, err
				}

				sID--
			}
		}

		if split == nil {
			// still missing? search the next towards upper
			sID := splitID + 1

			for split == nil && sID < upper.SeqNum {
				split, err = s.State(ctx, sID)
				if err != nil && !NotFound(err) {
					return nil, err
				}

				sID++
			}
		}

		if split == nil {
			// nothing between lower and upper, so upper is
			// the first state at or after the timestamp.
			return upper, nil
		}

		// set the new boundary
		if timestamp.After(split.Timestamp) {
			lower = split
		} else {
			upper = split
		}
	}

	// timestamp is now between lower and upper, we want to return the upper.
	return upper, nil
}
`,
		Replace: `func findInRange(ctx context.Context, s *stater, lower, upper *State, timestamp time.Time) (*State, error) {
	// we do a binary search through the range to find the sequence number
	for lower.SeqNum+1 < upper.SeqNum {
		// could do better here
		splitID := (lower.SeqNum + upper.SeqNum) / 2

		split, err := s.State(ctx, splitID)
		if err != nil && !NotFound(err) {
			return nil, err
		}

		if split == nil {
			// file missing, search the next towards lower
			sID := splitID - 1

			for split == nil {
				if sID <= lower.SeqNum {
					break
				}

				split, err = s.State(ctx, sID)
				if err != nil {
					if !NotFound(err) {
						return nil, err
					}
				}

				sID--
			}

			if split == nil {
				// still missing? search the next towards upper
				sID := splitID + 1

				for split == nil && sID < upper.SeqNum {
					split, err = s.State(ctx, sID)
					if err != nil && !NotFound(err) {
						return nil, err
					}

					sID++
				}

				if split == nil {
					// nothing between lower and upper, so upper is
					// the first state at or after the timestamp.
					return upper, nil
				}
			}
		}

		// set the new boundary
		if timestamp.After(split.Timestamp) {
			lower = split
		} else {
			upper = split
		}
	}

	// timestamp is now between lower and upper, we want to return the upper.
	return upper, nil
}
`},
	// if <-> tagless switch, inverted branches
	{Name: "b-search-switch-inverted", File: "replication/search.go",
		Find: `func findInRange(ctx context.Context, s *stater, lower, upper *State, timestamp time.Time) (*State, error) {
	// we do a binary search through the range to find the sequence number
	for lower.SeqNum+1 < upper.SeqNum {
		// could do better here
		splitID := (lower.SeqNum + upper.SeqNum) / 2

		split, err := s.State(ctx, splitID)
		if err != nil && !NotFound(err) {
			return nil, err
		}

		if split == nil {
			// file missing, search the next towards lower
			sID := splitID - 1

			for split == nil && lower.SeqNum < sID {
				split, err = s.State(ctx, sID)
				if err != nil && !NotFound(err) {
					return nil, err
				}

				sID--
			}
		}

		if split == nil {
			// still missing? search the next towards upper
			sID := splitID + 1

			for split == nil && sID < upper.SeqNum {
				split, err = s.State(ctx, sID)
				if err != nil && !NotFound(err) {
					return nil, err
				}

				sID++
			}
		}

		if split == nil {
			// nothing between lower and upper, so upper is
			// the first state at or after the timestamp.
			return upper, nil
		}

		// set the new boundary
		if timestamp.After(split.Timestamp) {
			lower = split
		} else {
			upper = split
		}
	}

	// timestamp is now between lower and upper, we want to return the upper.
	return upper, nil
}
`,
		Replace: `func findInRange(ctx context.Context, s *stater, lower, upper *State, timestamp time.Time) (*State, error) {
	// we do a binary search through the range to find the sequence number
	for lower.SeqNum+1 < upper.SeqNum {
		// could do better here
		splitID := (lower.SeqNum + upper.SeqNum) / 2

		split, err := s.State(ctx, splitID)
		if err != nil && !NotFound(err) {
			return nil, err
		}

		if split != nil {
			// the middle exists, no need to look around
		} else {
			// file missing, search the next towards lower
			sID := splitID - 1

			for split == nil && lower.SeqNum < sID {
				split, err = s.State(ctx, sID)
				if err != nil && !NotFound(err) {
					return nil, err
				}

				sID--
			}
		}

		if split == nil {
			// still missing? search the next towards upper
			sID := splitID + 1

			for split == nil && sID < upper.SeqNum {
				split, err = s.State(ctx, sID)
				if err != nil && !NotFound(err) {
					return nil, err
				}

				sID++
			}
		}

		// set the new boundary
		switch {
		case split == nil:
			// nothing between lower and upper, so upper is
			// the first state at or after the timestamp.
			return upper, nil
		case !timestamp.After(split.Timestamp):
			upper = split
		default:
			lower = split
		}
	}

	// timestamp is now between lower and upper, we want to return the upper.
	return upper, nil
}
`},
	// inline function (findInRange into searchTimestamp)
	{Name: "b-search-inlined", File: "replication/search.go",
		Find: `	return findInRange(ctx, s, lower, upper, timestamp)
}

func findBound(ctx context.Context, s *stater, upper *State, timestamp time.Time) (*State, *State, error) {
	var (
		lowerID uint64 = 1
		lower   *State
		err     error
	)

	// we need to find the lower bound
	for lower == nil {
		lower, err = s.State(ctx, lowerID)

		if err != nil && !NotFound(err) {
			return nil, nil, err
		}

		if lower != nil && !timestamp.After(lower.Timestamp) {
			if lower.SeqNum+1 >= upper.SeqNum {
				return lower, upper, nil // edge case if there are only two sequence numbers
			}

			// in our search for lower we found a new upper bound
			upper = lower
			lower = nil
			lowerID = 1
		}

		if lower != nil {
			break
		}

		// no lower yet, so try a higher id (binary search wise)
		newID := (lowerID + upper.SeqNum) / 2
		if newID <= lowerID {
			// nothing suitable found, so upper is probably the best we can do
			return upper, upper, nil
		}
		lowerID = newID
	}

	return lower, upper, nil
}

func findInRange(ctx context.Context, s *stater, lower, upper *State, timestamp time.Time) (*State, error) {
	// we do a binary search through the range to find the sequence number
	for lower.SeqNum+1 < upper.SeqNum {
		// could do better here
		splitID := (lower.SeqNum + upper.SeqNum) / 2

		split, err := s.State(ctx, splitID)
		if err != nil && !NotFound(err) {
			return nil, err
		}

		if split == nil {
			// file missing, search the next towards lower
			sID := splitID - 1

			for split == nil && lower.SeqNum < sID {
				split, err = s.State(ctx, sID)
				if err != nil && !NotFound(err) {
					return nil, err
				}

				sID--
			}
		}

		if split == nil {
			// still missing? search the next towards upper
			sID := splitID + 1

			for split == nil && sID < upper.SeqNum {
				split, err = s.State(ctx, sID)
				if err != nil && !NotFound(err) {
					return nil, err
				}

				sID++
			}
		}

		if split == nil {
			// nothing between lower and upper, so upper is
			// the first state at or after the timestamp.
			return upper, nil
		}

		// set the new boundary
		if timestamp.After(split.Timestamp) {
			lower = split
		} else {
			upper = split
		}
	}

	// timestamp is now between lower and upper, we want to return the upper.
	return upper, nil
}
`,
		Replace: `	// we do a binary search through the range to find the sequence number
	for lower.SeqNum+1 < upper.SeqNum {
		// could do better here
		splitID := (lower.SeqNum + upper.SeqNum) / 2

		split, err := s.State(ctx, splitID)
		if err != nil && !NotFound(err) {
			return nil, err
		}

		if split == nil {
			// file missing, search the next towards lower
			sID := splitID - 1

			for split == nil && lower.SeqNum < sID {
				split, err = s.State(ctx, sID)
				if err != nil && !NotFound(err) {
					return nil, err
				}

				sID--
			}
		}

		if split == nil {
			// still missing? search the next towards upper
			sID := splitID + 1

			for split == nil && sID < upper.SeqNum {
				split, err = s.State(ctx, sID)
				if err != nil && !NotFound(err) {
					return nil, err
				}

				sID++
			}
		}

		if split == nil {
			// nothing between lower and upper, so upper is
			// the first state at or after the timestamp.
			return upper, nil
		}

		// set the new boundary
		if timestamp.After(split.Timestamp) {
			lower = split
		} else {
			upper = split
		}
	}

	// timestamp is now between lower and upper, we want to return the upper.
	return upper, nil
}

func findBound(ctx context.Context, s *stater, upper *State, timestamp time.Time) (*State, *State, error) {
	var (
		lowerID uint64 = 1
		lower   *State
		err     error
	)

	// we need to find the lower bound
	for lower == nil {
		lower, err = s.State(ctx, lowerID)

		if err != nil && !NotFound(err) {
			return nil, nil, err
		}

		if lower != nil && !timestamp.After(lower.Timestamp) {
			if lower.SeqNum+1 >= upper.SeqNum {
				return lower, upper, nil // edge case if there are only two sequence numbers
			}

			// in our search for lower we found a new upper bound
			upper = lower
			lower = nil
			lowerID = 1
		}

		if lower != nil {
			break
		}

		// no lower yet, so try a higher id (binary search wise)
		newID := (lowerID + upper.SeqNum) / 2
		if newID <= lowerID {
			// nothing suitable found, so upper is probably the best we can do
			return upper, upper, nil
		}
		lowerID = newID
	}

	return lower, upper, nil
}
`},
	// pointer alias, if <-> tagged switch
	{Name: "b-changesets-offbyone-alias-switch", File: "replication/changesets.go",
		Find: `	if n == 0 {
		s.SeqNum++
	} else {
		s.SeqNum = uint64(n)
	}
`,
		Replace: `	seq := &s.SeqNum
	switch n {
	case 0:
		*seq++
	default:
		*seq = n.Uint64()
	}
`},
	// reordered statements, if-init form, named constant, Sprintf <-> concatenation
	{Name: "b-interval-url-default-first", File: "replication/interval.go",
		Find: `	var url string
	if n.Uint64() != 0 {
		url = ds.baseSeqURL(n) + ".state.txt"
	} else {
		url = fmt.Sprintf("%s/replication/%s/state.txt", ds.baseURL(), n.Dir())
	}
`,
		Replace: `	const stateName = "state.txt"
	url := ds.baseURL() + "/replication/" + n.Dir() + "/" + stateName
	if id := n.Uint64(); id > 0 {
		url = ds.baseSeqURL(n) + "." + stateName
	}
`},
	// if chain <-> type switch
	{Name: "b-notfound-type-switch", File: "replication/datasource.go",
		Find: `	if err == nil {
		return false
	}

	if e, ok := err.(*UnexpectedStatusCodeError); ok {
		return e.Code == http.StatusNotFound
	}

	return false
`,
		Replace: `	switch e := err.(type) {
	case nil:
		return false
	case *UnexpectedStatusCodeError:
		return e.Code == http.StatusNotFound
	default:
		return false
	}
`},
	// range <-> index loop, inverted branch with continue
	{Name: "b-decodetime-index-continue", File: "replication/datasource.go",
		Find: `	for _, format := range timeFormats {
		t, err = time.Parse(format, s)
		if err == nil {
			return t, nil
		}
	}
`,
		Replace: `	for i := 0; i < len(timeFormats); i++ {
		t, err = time.Parse(timeFormats[i], s)
		if err != nil {
			continue
		}

		return t, nil
	}
`},
	// renamed locals, closures bound to locals, reordered literal fields, inverted branch (one sibling only)
	{Name: "b-minutestateat-restructured", File: "replication/search.go",
		Find: `	s := &stater{
		Min: minMinute,
		Current: func(ctx context.Context) (*State, error) {
			_, s, err := ds.CurrentMinuteState(ctx)
			return s, err
		},
		State: func(ctx context.Context, n uint64) (*State, error) {
			return ds.MinuteState(ctx, MinuteSeqNum(n))
		},
	}
	state, err := searchTimestamp(ctx, s, timestamp)
	if err != nil {
		return 0, nil, err
	}

	return MinuteSeqNum(state.SeqNum), state, nil
`,
		Replace: `	current := func(ctx context.Context) (*State, error) {
		_, st, err := ds.CurrentMinuteState(ctx)
		return st, err
	}
	numbered := func(ctx context.Context, id uint64) (*State, error) {
		return ds.MinuteState(ctx, MinuteSeqNum(id))
	}

	found, err := searchTimestamp(ctx, &stater{State: numbered, Current: current, Min: minMinute}, timestamp)
	if err == nil {
		return MinuteSeqNum(found.SeqNum), found, nil
	}

	return 0, nil, err
`},
	// named constant, equivalent arithmetic ((n%1e6)/1e3 <-> n/1e3%1e3), split format
	{Name: "b-interval-digit-groups-respelled", File: "replication/interval.go",
		Find: `	n := sn.Uint64()
	return fmt.Sprintf("%s/replication/%s/%03d/%03d/%03d",
		ds.baseURL(),
		sn.Dir(),
		n/1000000,
		(n%1000000)/1000,
		n%1000)
`,
		Replace: `	const perDir = 1000
	n := sn.Uint64()
	dir := fmt.Sprintf("%s/replication/%s", ds.baseURL(), sn.Dir())
	return fmt.Sprintf("%s/%03d/%03d/%03d", dir, n/(perDir*perDir), n/perDir%perDir, n%perDir)
`},
	// extract helper (status error), if-init form, named constant
	{Name: "b-changesets-status-helper", File: "replication/changesets.go",
		Find: `	if resp.StatusCode != 200 {
		return nil, &UnexpectedStatusCodeError{
			Code: resp.StatusCode,
			URL:  url,
		}
	}

	data, err := io.ReadAll(resp.Body)
	if err != nil {
		return nil, err
	}

	s, err := decodeChangesetState(data)
	if err != nil {
		return nil, err
	}

	// starting at 2008004 the changeset sequence number in the state file is
	// one less than the name of the file. This is a consistent mistake.
	// The correctly paired state and data files have the same name. The number
	// in the state file is the one that is off.
	if n == 0 {
		s.SeqNum++
	} else {
		s.SeqNum = uint64(n)
	}

	return s, nil
}
`,
		Replace: `	if code := resp.StatusCode; code != http.StatusOK {
		return nil, unexpectedStatus(code, url)
	}

	data, err := io.ReadAll(resp.Body)
	if err != nil {
		return nil, err
	}

	s, err := decodeChangesetState(data)
	if err != nil {
		return nil, err
	}

	// starting at 2008004 the changeset sequence number in the state file is
	// one less than the name of the file. This is a consistent mistake.
	// The correctly paired state and data files have the same name. The number
	// in the state file is the one that is off.
	if n == 0 {
		s.SeqNum++
	} else {
		s.SeqNum = uint64(n)
	}

	return s, nil
}

func unexpectedStatus(code int, url string) error {
	return &UnexpectedStatusCodeError{Code: code, URL: url}
}
`},
	// loop condition <-> leading break guard
	{Name: "b-search-loop-leading-break", File: "replication/search.go",
		Find: `	for lower.SeqNum+1 < upper.SeqNum {
		// could do better here`,
		Replace: `	for {
		if lower.SeqNum+1 >= upper.SeqNum {
			break
		}

		// could do better here`},
	// equivalent scan form (start at the middle, step before the probe, bound moved by one)
	{Name: "b-search-scan-step-before-probe", File: "replication/search.go",
		Find: `			sID := splitID - 1

			for split == nil && lower.SeqNum < sID {
				split, err = s.State(ctx, sID)
				if err != nil && !NotFound(err) {
					return nil, err
				}

				sID--
			}
`,
		Replace: `			sID := splitID

			for split == nil && lower.SeqNum+1 < sID {
				sID--
				split, err = s.State(ctx, sID)
				if err != nil && !NotFound(err) {
					return nil, err
				}
			}
`},
	// value read into a local and copied, reordered independent statements
	{Name: "b-search-scan-local-result", File: "replication/search.go",
		Find: `				split, err = s.State(ctx, sID)
				if err != nil && !NotFound(err) {
					return nil, err
				}

				sID--
`,
		Replace: `				st, err := s.State(ctx, sID)
				sID--
				if err != nil && !NotFound(err) {
					return nil, err
				}

				split = st
`},
	// if <-> switch with init statement, named constant, reordered literal fields
	{Name: "b-changesets-status-switch", File: "replication/changesets.go",
		Find: `	if resp.StatusCode != 200 {
		return nil, &UnexpectedStatusCodeError{
			Code: resp.StatusCode,
			URL:  url,
		}
	}

	data, err := io.ReadAll(resp.Body)`,
		Replace: `	switch code := resp.StatusCode; {
	case code == http.StatusOK:
		// fine
	default:
		return nil, &UnexpectedStatusCodeError{URL: url, Code: code}
	}

	data, err := io.ReadAll(resp.Body)`},
	// inverted branch (time classification)
	{Name: "b-order-inverted-not-after", File: "replication/search.go",
		Find: `		if timestamp.After(split.Timestamp) {
			lower = split
		} else {
			upper = split
		}
`,
		Replace: `		if !timestamp.After(split.Timestamp) {
			upper = split
		} else {
			lower = split
		}
`},
	// mirrored comparison (s.Before(t) for t.After(s))
	{Name: "b-order-before-mirrored", File: "replication/search.go",
		Find: `		if timestamp.After(split.Timestamp) {
			lower = split
		} else {
			upper = split
		}
`,
		Replace: `		if split.Timestamp.Before(timestamp) {
			lower = split
		} else {
			upper = split
		}
`},
	// if <-> tagless switch, Compare instead of After
	{Name: "b-order-compare-switch", File: "replication/search.go",
		Find: `		if timestamp.After(split.Timestamp) {
			lower = split
		} else {
			upper = split
		}
`,
		Replace: `		switch {
		case timestamp.Compare(split.Timestamp) > 0:
			lower = split
		default:
			upper = split
		}
`},
	// value read into a local, split comparison (Equal || After), swapped branches
	{Name: "b-order-local-equal-or-after", File: "replication/search.go",
		Find: `		if timestamp.After(split.Timestamp) {
			lower = split
		} else {
			upper = split
		}
`,
		Replace: `		ts := split.Timestamp
		if ts.Equal(timestamp) || ts.After(timestamp) {
			upper = split
		} else {
			lower = split
		}
`},
	// extract helper (one-line predicate), early continue
	{Name: "b-order-predicate-helper", File: "replication/search.go",
		Find: `		// set the new boundary
		if timestamp.After(split.Timestamp) {
			lower = split
		} else {
			upper = split
		}
	}

	// timestamp is now between lower and upper, we want to return the upper.
	return upper, nil
}
`,
		Replace: `		// set the new boundary
		if writtenBefore(split, timestamp) {
			lower = split
			continue
		}

		upper = split
	}

	// timestamp is now between lower and upper, we want to return the upper.
	return upper, nil
}

// writtenBefore reports whether the state was written strictly before t.
func writtenBefore(s *State, t time.Time) bool {
	return t.After(s.Timestamp)
}
`},
	// extract helper (one-line predicates in the loop conditions, negated)
	{Name: "b-search-predicate-helpers", File: "replication/search.go",
		Find: `func findInRange(ctx context.Context, s *stater, lower, upper *State, timestamp time.Time) (*State, error) {
	// we do a binary search through the range to find the sequence number
	for lower.SeqNum+1 < upper.SeqNum {
		// could do better here
		splitID := (lower.SeqNum + upper.SeqNum) / 2

		split, err := s.State(ctx, splitID)
		if err != nil && !NotFound(err) {
			return nil, err
		}

		if split == nil {
			// file missing, search the next towards lower
			sID := splitID - 1

			for split == nil && lower.SeqNum < sID {
				split, err = s.State(ctx, sID)
				if err != nil && !NotFound(err) {
					return nil, err
				}

				sID--
			}
		}

		if split == nil {
			// still missing? search the next towards upper
			sID := splitID + 1

			for split == nil && sID < upper.SeqNum {
				split, err = s.State(ctx, sID)
				if err != nil && !NotFound(err) {
					return nil, err
				}

				sID++
			}
		}

		if split == nil {
			// nothing between lower and upper, so upper is
			// the first state at or after the timestamp.
			return upper, nil
		}

		// set the new boundary
		if timestamp.After(split.Timestamp) {
			lower = split
		} else {
			upper = split
		}
	}

	// timestamp is now between lower and upper, we want to return the upper.
	return upper, nil
}
`,
		Replace: `func findInRange(ctx context.Context, s *stater, lower, upper *State, timestamp time.Time) (*State, error) {
	// we do a binary search through the range to find the sequence number
	for !adjacent(lower, upper) {
		// could do better here
		splitID := (lower.SeqNum + upper.SeqNum) / 2

		split, err := s.State(ctx, splitID)
		if err != nil && !NotFound(err) {
			return nil, err
		}

		if split == nil {
			// file missing, search the next towards lower
			sID := splitID - 1

			for split == nil && above(lower, sID) {
				split, err = s.State(ctx, sID)
				if err != nil && !NotFound(err) {
					return nil, err
				}

				sID--
			}
		}

		if split == nil {
			// still missing? search the next towards upper
			sID := splitID + 1

			for split == nil && sID < upper.SeqNum {
				split, err = s.State(ctx, sID)
				if err != nil && !NotFound(err) {
					return nil, err
				}

				sID++
			}
		}

		if split == nil {
			// nothing between lower and upper, so upper is
			// the first state at or after the timestamp.
			return upper, nil
		}

		// set the new boundary
		if timestamp.After(split.Timestamp) {
			lower = split
		} else {
			upper = split
		}
	}

	// timestamp is now between lower and upper, we want to return the upper.
	return upper, nil
}

// adjacent reports whether there is no sequence number strictly between the two states.
func adjacent(lower, upper *State) bool {
	return lower.SeqNum+1 >= upper.SeqNum
}

// above reports whether the sequence number lies above the state.
func above(lower *State, id uint64) bool {
	return lower.SeqNum < id
}
`},
	// loop form (`for cond` with break and nil-reset <-> `for {}` with early returns), loop-local variable
	{Name: "b-findbound-loop-early-returns", File: "replication/search.go",
		Find: `func findBound(ctx context.Context, s *stater, upper *State, timestamp time.Time) (*State, *State, error) {
	var (
		lowerID uint64 = 1
		lower   *State
		err     error
	)

	// we need to find the lower bound
	for lower == nil {
		lower, err = s.State(ctx, lowerID)

		if err != nil && !NotFound(err) {
			return nil, nil, err
		}

		if lower != nil && !timestamp.After(lower.Timestamp) {
			if lower.SeqNum+1 >= upper.SeqNum {
				return lower, upper, nil // edge case if there are only two sequence numbers
			}

			// in our search for lower we found a new upper bound
			upper = lower
			lower = nil
			lowerID = 1
		}

		if lower != nil {
			break
		}

		// no lower yet, so try a higher id (binary search wise)
		newID := (lowerID + upper.SeqNum) / 2
		if newID <= lowerID {
			// nothing suitable found, so upper is probably the best we can do
			return upper, upper, nil
		}
		lowerID = newID
	}

	return lower, upper, nil
}
`,
		Replace: `func findBound(ctx context.Context, s *stater, upper *State, timestamp time.Time) (*State, *State, error) {
	var lowerID uint64 = 1

	// we need to find the lower bound
	for {
		candidate, err := s.State(ctx, lowerID)
		if err != nil && !NotFound(err) {
			return nil, nil, err
		}

		if candidate != nil {
			if timestamp.After(candidate.Timestamp) {
				return candidate, upper, nil
			}

			if candidate.SeqNum+1 >= upper.SeqNum {
				return candidate, upper, nil // edge case if there are only two sequence numbers
			}

			// in our search for lower we found a new upper bound
			upper = candidate
			lowerID = 1
		}

		// no lower yet, so try a higher id (binary search wise)
		newID := (lowerID + upper.SeqNum) / 2
		if newID <= lowerID {
			// nothing suitable found, so upper is probably the best we can do
			return upper, upper, nil
		}
		lowerID = newID
	}
}
`},
	// mirrored comparison in the lower-bound finder
	{Name: "b-finder-order-before-mirrored", File: "replication/search.go",
		Find:    `lower != nil && !timestamp.After(lower.Timestamp)`,
		Replace: `lower != nil && !lower.Timestamp.Before(timestamp)`},
	// Compare instead of After in the lower-bound finder
	{Name: "b-finder-order-compare", File: "replication/search.go",
		Find:    `lower != nil && !timestamp.After(lower.Timestamp)`,
		Replace: `lower != nil && timestamp.Compare(lower.Timestamp) <= 0`},
	// inverted branch (the answer guard of the search)
	{Name: "b-caller-guard-inverted", File: "replication/search.go",
		Find: `	if !timestamp.After(lower.Timestamp) {
		// the lowest state is already at or after the timestamp.
		return lower, nil
	}

	return findInRange(ctx, s, lower, upper, timestamp)
`,
		Replace: `	if timestamp.After(lower.Timestamp) {
		return findInRange(ctx, s, lower, upper, timestamp)
	}

	// the lowest state is already at or after the timestamp.
	return lower, nil
`},
	// if-init form, split comparison (Equal || After)
	{Name: "b-caller-guard-equal-or-after", File: "replication/search.go",
		Find: `	if !timestamp.After(lower.Timestamp) {
		// the lowest state is already at or after the timestamp.
		return lower, nil
	}
`,
		Replace: `	if ts := lower.Timestamp; ts.Equal(timestamp) || ts.After(timestamp) {
		// the lowest state is already at or after the timestamp.
		return lower, nil
	}
`},
	// extract function (the probe of the middle and both neighbour scans live in one helper with early returns)
	{Name: "b-search-probe-helper-all", File: "replication/search.go",
		Find: `func findInRange(ctx context.Context, s *stater, lower, upper *State, timestamp time.Time) (*State, error) {
	// we do a binary search through the range to find the sequence number
	for lower.SeqNum+1 < upper.SeqNum {
		// could do better here
		splitID := (lower.SeqNum + upper.SeqNum) / 2

		split, err := s.State(ctx, splitID)
		if err != nil && !NotFound(err) {
			return nil, err
		}

		if split == nil {
			// file missing, search the next towards lower
			sID := splitID - 1

			for split == nil && lower.SeqNum < sID {
				split, err = s.State(ctx, sID)
				if err != nil && !NotFound(err) {
					return nil, err
				}

				sID--
			}
		}

		if split == nil {
			// still missing? search the next towards upper
			sID := splitID + 1

			for split == nil && sID < upper.SeqNum {
				split, err = s.State(ctx, sID)
				if err != nil && !NotFound(err) {
					return nil, err
				}

				sID++
			}
		}

		if split == nil {
			// nothing between lower and upper, so upper is
			// the first state at or after the timestamp.
			return upper, nil
		}

		// set the new boundary
		if timestamp.After(split.Timestamp) {
			lower = split
		} else {
			upper = split
		}
	}

	// timestamp is now between lower and upper, we want to return the upper.
	return upper, nil
}
`,
		Replace: `func findInRange(ctx context.Context, s *stater, lower, upper *State, timestamp time.Time) (*State, error) {
	// we do a binary search through the range to find the sequence number
	for lower.SeqNum+1 < upper.SeqNum {
		// could do better here
		splitID := (lower.SeqNum + upper.SeqNum) / 2

		split, err := nearestState(ctx, s, lower.SeqNum, splitID, upper.SeqNum)
		if err != nil {
			return nil, err
		}

		if split == nil {
			// nothing between lower and upper, so upper is
			// the first state at or after the timestamp.
			return upper, nil
		}

		// set the new boundary
		if timestamp.After(split.Timestamp) {
			lower = split
		} else {
			upper = split
		}
	}

	// timestamp is now between lower and upper, we want to return the upper.
	return upper, nil
}

// nearestState returns the state at splitID or, if that file is missing, the first available one stepping
// down towards lowerID and after that stepping up towards upperID, both exclusive.
func nearestState(ctx context.Context, s *stater, lowerID, splitID, upperID uint64) (*State, error) {
	split, err := s.State(ctx, splitID)
	if err != nil && !NotFound(err) {
		return nil, err
	}
	if split != nil {
		return split, nil
	}

	// file missing, search the next towards lower
	for id := splitID - 1; lowerID < id; id-- {
		split, err = s.State(ctx, id)
		if err != nil && !NotFound(err) {
			return nil, err
		}
		if split != nil {
			return split, nil
		}
	}

	// still missing? search the next towards upper
	for id := splitID + 1; id < upperID; id++ {
		split, err = s.State(ctx, id)
		if err != nil && !NotFound(err) {
			return nil, err
		}
		if split != nil {
			return split, nil
		}
	}

	return nil, nil
}
`},
	// extract function (probe and downward scan in a helper, upward scan inline)
	{Name: "b-search-probe-helper-mixed", File: "replication/search.go",
		Find: `func findInRange(ctx context.Context, s *stater, lower, upper *State, timestamp time.Time) (*State, error) {
	// we do a binary search through the range to find the sequence number
	for lower.SeqNum+1 < upper.SeqNum {
		// could do better here
		splitID := (lower.SeqNum + upper.SeqNum) / 2

		split, err := s.State(ctx, splitID)
		if err != nil && !NotFound(err) {
			return nil, err
		}

		if split == nil {
			// file missing, search the next towards lower
			sID := splitID - 1

			for split == nil && lower.SeqNum < sID {
				split, err = s.State(ctx, sID)
				if err != nil && !NotFound(err) {
					return nil, err
				}

				sID--
			}
		}

		if split == nil {
			// still missing? search the next towards upper
			sID := splitID + 1

			for split == nil && sID < upper.SeqNum {
				split, err = s.State(ctx, sID)
				if err != nil && !NotFound(err) {
					return nil, err
				}

				sID++
			}
		}

		if split == nil {
			// nothing between lower and upper, so upper is
			// the first state at or after the timestamp.
			return upper, nil
		}

		// set the new boundary
		if timestamp.After(split.Timestamp) {
			lower = split
		} else {
			upper = split
		}
	}

	// timestamp is now between lower and upper, we want to return the upper.
	return upper, nil
}
`,
		Replace: `func findInRange(ctx context.Context, s *stater, lower, upper *State, timestamp time.Time) (*State, error) {
	// we do a binary search through the range to find the sequence number
	for lower.SeqNum+1 < upper.SeqNum {
		// could do better here
		splitID := (lower.SeqNum + upper.SeqNum) / 2

		split, err := stateAtOrBelow(ctx, s, lower, splitID)
		if err != nil {
			return nil, err
		}

		if split == nil {
			// still missing? search the next towards upper
			sID := splitID + 1

			for split == nil && sID < upper.SeqNum {
				split, err = s.State(ctx, sID)
				if err != nil && !NotFound(err) {
					return nil, err
				}

				sID++
			}
		}

		if split == nil {
			// nothing between lower and upper, so upper is
			// the first state at or after the timestamp.
			return upper, nil
		}

		// set the new boundary
		if timestamp.After(split.Timestamp) {
			lower = split
		} else {
			upper = split
		}
	}

	// timestamp is now between lower and upper, we want to return the upper.
	return upper, nil
}

// stateAtOrBelow returns the state at splitID or, if that file is missing, the first available one below it and above lower.
func stateAtOrBelow(ctx context.Context, s *stater, lower *State, splitID uint64) (*State, error) {
	st, err := s.State(ctx, splitID)
	if err != nil && !NotFound(err) {
		return nil, err
	}

	for id := splitID - 1; st == nil && lower.SeqNum < id; id-- {
		st, err = s.State(ctx, id)
		if err != nil && !NotFound(err) {
			return nil, err
		}
	}

	return st, nil
}
`},
	// named results with bare returns in the lower-bound finder
	{Name: "b-findbound-named-results", File: "replication/search.go",
		Find: `func findBound(ctx context.Context, s *stater, upper *State, timestamp time.Time) (*State, *State, error) {
	var (
		lowerID uint64 = 1
		lower   *State
		err     error
	)

	// we need to find the lower bound
	for lower == nil {
		lower, err = s.State(ctx, lowerID)

		if err != nil && !NotFound(err) {
			return nil, nil, err
		}

		if lower != nil && !timestamp.After(lower.Timestamp) {
			if lower.SeqNum+1 >= upper.SeqNum {
				return lower, upper, nil // edge case if there are only two sequence numbers
			}

			// in our search for lower we found a new upper bound
			upper = lower
			lower = nil
			lowerID = 1
		}

		if lower != nil {
			break
		}

		// no lower yet, so try a higher id (binary search wise)
		newID := (lowerID + upper.SeqNum) / 2
		if newID <= lowerID {
			// nothing suitable found, so upper is probably the best we can do
			return upper, upper, nil
		}
		lowerID = newID
	}

	return lower, upper, nil
}
`,
		Replace: `func findBound(ctx context.Context, s *stater, upper *State, timestamp time.Time) (lower, newUpper *State, err error) {
	var lowerID uint64 = 1
	newUpper = upper

	// we need to find the lower bound
	for lower == nil {
		lower, err = s.State(ctx, lowerID)

		if err != nil && !NotFound(err) {
			return nil, nil, err
		}
		err = nil

		if lower != nil && !timestamp.After(lower.Timestamp) {
			if lower.SeqNum+1 >= newUpper.SeqNum {
				return // edge case if there are only two sequence numbers
			}

			// in our search for lower we found a new upper bound
			newUpper = lower
			lower = nil
			lowerID = 1
		}

		if lower != nil {
			break
		}

		// no lower yet, so try a higher id (binary search wise)
		newID := (lowerID + newUpper.SeqNum) / 2
		if newID <= lowerID {
			// nothing suitable found, so upper is probably the best we can do
			lower = newUpper
			return
		}
		lowerID = newID
	}

	return
}
`},
	// named constant (the restart value of the lower-bound finder)
	{Name: "b-finder-restart-named-constant", File: "replication/search.go",
		Find: `			lowerID = 1
`,
		Replace: `			const restartID = 1
			lowerID = restartID
`},
	// extract helper (the restart value of the lower-bound finder comes from a function)
	{Name: "b-finder-restart-via-helper", File: "replication/search.go",
		Find: `			lowerID = 1
		}

		if lower != nil {
			break
		}

		// no lower yet, so try a higher id (binary search wise)
		newID := (lowerID + upper.SeqNum) / 2
		if newID <= lowerID {
			// nothing suitable found, so upper is probably the best we can do
			return upper, upper, nil
		}
		lowerID = newID
	}

	return lower, upper, nil
}
`,
		Replace: `			lowerID = firstStateID()
		}

		if lower != nil {
			break
		}

		// no lower yet, so try a higher id (binary search wise)
		newID := (lowerID + upper.SeqNum) / 2
		if newID <= lowerID {
			// nothing suitable found, so upper is probably the best we can do
			return upper, upper, nil
		}
		lowerID = newID
	}

	return lower, upper, nil
}

// firstStateID is the lowest sequence number a state file can have.
func firstStateID() uint64 {
	return 1
}
`},
	// representation change (the two bounds become fields of a struct read and updated by pointer methods; scans inline)
	{Name: "b-search-range-struct-methods", File: "replication/search.go",
		Find: `func findInRange(ctx context.Context, s *stater, lower, upper *State, timestamp time.Time) (*State, error) {
	// we do a binary search through the range to find the sequence number
	for lower.SeqNum+1 < upper.SeqNum {
		// could do better here
		splitID := (lower.SeqNum + upper.SeqNum) / 2

		split, err := s.State(ctx, splitID)
		if err != nil && !NotFound(err) {
			return nil, err
		}

		if split == nil {
			// file missing, search the next towards lower
			sID := splitID - 1

			for split == nil && lower.SeqNum < sID {
				split, err = s.State(ctx, sID)
				if err != nil && !NotFound(err) {
					return nil, err
				}

				sID--
			}
		}

		if split == nil {
			// still missing? search the next towards upper
			sID := splitID + 1

			for split == nil && sID < upper.SeqNum {
				split, err = s.State(ctx, sID)
				if err != nil && !NotFound(err) {
					return nil, err
				}

				sID++
			}
		}

		if split == nil {
			// nothing between lower and upper, so upper is
			// the first state at or after the timestamp.
			return upper, nil
		}

		// set the new boundary
		if timestamp.After(split.Timestamp) {
			lower = split
		} else {
			upper = split
		}
	}

	// timestamp is now between lower and upper, we want to return the upper.
	return upper, nil
}
`,
		Replace: `// stateRange is the pair of states the binary search narrows down: the timestamp
// looked for is after lower and at or before upper.
type stateRange struct {
	lower, upper *State
}

// adjacent is true if there is no sequence number left between the bounds.
func (r *stateRange) adjacent() bool {
	return r.lower.SeqNum+1 >= r.upper.SeqNum
}

// middle is the sequence number to look at next.
func (r *stateRange) middle() uint64 {
	return (r.lower.SeqNum + r.upper.SeqNum) / 2
}

// narrow replaces one of the bounds by a state found between them.
func (r *stateRange) narrow(split *State, timestamp time.Time) {
	if timestamp.After(split.Timestamp) {
		r.lower = split
	} else {
		r.upper = split
	}
}

func findInRange(ctx context.Context, s *stater, lower, upper *State, timestamp time.Time) (*State, error) {
	window := stateRange{lower: lower, upper: upper}

	// we do a binary search through the range to find the sequence number
	for !window.adjacent() {
		// could do better here
		splitID := window.middle()

		split, err := s.State(ctx, splitID)
		if err != nil && !NotFound(err) {
			return nil, err
		}

		if split == nil {
			// file missing, search the next towards lower
			sID := splitID - 1

			for split == nil && window.lower.SeqNum < sID {
				split, err = s.State(ctx, sID)
				if err != nil && !NotFound(err) {
					return nil, err
				}

				sID--
			}
		}

		if split == nil {
			// still missing? search the next towards upper
			sID := splitID + 1

			for split == nil && sID < window.upper.SeqNum {
				split, err = s.State(ctx, sID)
				if err != nil && !NotFound(err) {
					return nil, err
				}

				sID++
			}
		}

		if split == nil {
			// nothing between lower and upper, so upper is
			// the first state at or after the timestamp.
			return window.upper, nil
		}

		// set the new boundary
		window.narrow(split, timestamp)
	}

	// timestamp is now between lower and upper, we want to return the upper.
	return window.upper, nil
}
`},
	// representation change (bounds in a struct with value methods; the update returns a new range)
	{Name: "b-search-range-struct-value", File: "replication/search.go",
		Find: `func findInRange(ctx context.Context, s *stater, lower, upper *State, timestamp time.Time) (*State, error) {
	// we do a binary search through the range to find the sequence number
	for lower.SeqNum+1 < upper.SeqNum {
		// could do better here
		splitID := (lower.SeqNum + upper.SeqNum) / 2

		split, err := s.State(ctx, splitID)
		if err != nil && !NotFound(err) {
			return nil, err
		}

		if split == nil {
			// file missing, search the next towards lower
			sID := splitID - 1

			for split == nil && lower.SeqNum < sID {
				split, err = s.State(ctx, sID)
				if err != nil && !NotFound(err) {
					return nil, err
				}

				sID--
			}
		}

		if split == nil {
			// still missing? search the next towards upper
			sID := splitID + 1

			for split == nil && sID < upper.SeqNum {
				split, err = s.State(ctx, sID)
				if err != nil && !NotFound(err) {
					return nil, err
				}

				sID++
			}
		}

		if split == nil {
			// nothing between lower and upper, so upper is
			// the first state at or after the timestamp.
			return upper, nil
		}

		// set the new boundary
		if timestamp.After(split.Timestamp) {
			lower = split
		} else {
			upper = split
		}
	}

	// timestamp is now between lower and upper, we want to return the upper.
	return upper, nil
}
`,
		Replace: `// stateRange is the pair of states the binary search narrows down: the timestamp
// looked for is after lower and at or before upper.
type stateRange struct {
	lower, upper *State
}

// adjacent is true if there is no sequence number left between the bounds.
func (r stateRange) adjacent() bool {
	return r.lower.SeqNum+1 >= r.upper.SeqNum
}

// middle is the sequence number to look at next.
func (r stateRange) middle() uint64 {
	return (r.lower.SeqNum + r.upper.SeqNum) / 2
}

// narrowed is the range with one of the bounds replaced by a state found between them.
func (r stateRange) narrowed(split *State, timestamp time.Time) stateRange {
	if timestamp.After(split.Timestamp) {
		r.lower = split
	} else {
		r.upper = split
	}
	return r
}

func findInRange(ctx context.Context, s *stater, lower, upper *State, timestamp time.Time) (*State, error) {
	window := stateRange{lower: lower, upper: upper}

	// we do a binary search through the range to find the sequence number
	for !window.adjacent() {
		// could do better here
		splitID := window.middle()

		split, err := s.State(ctx, splitID)
		if err != nil && !NotFound(err) {
			return nil, err
		}

		if split == nil {
			// file missing, search the next towards lower
			sID := splitID - 1

			for split == nil && window.lower.SeqNum < sID {
				split, err = s.State(ctx, sID)
				if err != nil && !NotFound(err) {
					return nil, err
				}

				sID--
			}
		}

		if split == nil {
			// still missing? search the next towards upper
			sID := splitID + 1

			for split == nil && sID < window.upper.SeqNum {
				split, err = s.State(ctx, sID)
				if err != nil && !NotFound(err) {
					return nil, err
				}

				sID++
			}
		}

		if split == nil {
			// nothing between lower and upper, so upper is
			// the first state at or after the timestamp.
			return window.upper, nil
		}

		// set the new boundary
		window = window.narrowed(split, timestamp)
	}

	// timestamp is now between lower and upper, we want to return the upper.
	return window.upper, nil
}
`},
	// named constant (the minimum sequence number through another constant)
	{Name: "b-min-named-first-sequence", File: "replication/search.go",
		Find: `	minHour   = 1 // up to 2013-07-14T12:00:00Z
`,
		Replace: `	firstSeqNum = 1 // the numbering of every replication directory starts here
	minHour   = firstSeqNum // up to 2013-07-14T12:00:00Z
`},
	// representation change (the caller keeps both bounds in one struct, assigns the finder's results into its fields and calls the binary search as a method of it)
	{Name: "b-search-window-method", File: "replication/search.go",
		Find: `	lower, err := s.State(ctx, s.Min)
	if err != nil && !NotFound(err) {
		return nil, err
	}

	if lower == nil {
		// now we need to find a lower bound state manually.
		// This can have edge cases if there are missing sequence numbers.
		var err error
		lower, upper, err = findBound(ctx, s, upper, timestamp)
		if err != nil {
			return nil, err
		}
	}

	if !timestamp.After(lower.Timestamp) {
		// the lowest state is already at or after the timestamp.
		return lower, nil
	}

	return findInRange(ctx, s, lower, upper, timestamp)
}

func findBound(ctx context.Context, s *stater, upper *State, timestamp time.Time) (*State, *State, error) {
	var (
		lowerID uint64 = 1
		lower   *State
		err     error
	)

	// we need to find the lower bound
	for lower == nil {
		lower, err = s.State(ctx, lowerID)

		if err != nil && !NotFound(err) {
			return nil, nil, err
		}

		if lower != nil && !timestamp.After(lower.Timestamp) {
			if lower.SeqNum+1 >= upper.SeqNum {
				return lower, upper, nil // edge case if there are only two sequence numbers
			}

			// in our search for lower we found a new upper bound
			upper = lower
			lower = nil
			lowerID = 1
		}

		if lower != nil {
			break
		}

		// no lower yet, so try a higher id (binary search wise)
		newID := (lowerID + upper.SeqNum) / 2
		if newID <= lowerID {
			// nothing suitable found, so upper is probably the best we can do
			return upper, upper, nil
		}
		lowerID = newID
	}

	return lower, upper, nil
}

func findInRange(ctx context.Context, s *stater, lower, upper *State, timestamp time.Time) (*State, error) {
	// we do a binary search through the range to find the sequence number
	for lower.SeqNum+1 < upper.SeqNum {
		// could do better here
		splitID := (lower.SeqNum + upper.SeqNum) / 2

		split, err := s.State(ctx, splitID)
		if err != nil && !NotFound(err) {
			return nil, err
		}

		if split == nil {
			// file missing, search the next towards lower
			sID := splitID - 1

			for split == nil && lower.SeqNum < sID {
				split, err = s.State(ctx, sID)
				if err != nil && !NotFound(err) {
					return nil, err
				}

				sID--
			}
		}

		if split == nil {
			// still missing? search the next towards upper
			sID := splitID + 1

			for split == nil && sID < upper.SeqNum {
				split, err = s.State(ctx, sID)
				if err != nil && !NotFound(err) {
					return nil, err
				}

				sID++
			}
		}

		if split == nil {
			// nothing between lower and upper, so upper is
			// the first state at or after the timestamp.
			return upper, nil
		}

		// set the new boundary
		if timestamp.After(split.Timestamp) {
			lower = split
		} else {
			upper = split
		}
	}

	// timestamp is now between lower and upper, we want to return the upper.
	return upper, nil
}
`,
		Replace: `	w := window{upper: upper}
	if w.lower, err = s.State(ctx, s.Min); err != nil && !NotFound(err) {
		return nil, err
	}

	if w.lower == nil {
		// now we need to find a lower bound state manually.
		// This can have edge cases if there are missing sequence numbers.
		w.lower, w.upper, err = findBound(ctx, s, upper, timestamp)
		if err != nil {
			return nil, err
		}
	}

	if !timestamp.After(w.lower.Timestamp) {
		// the lowest state is already at or after the timestamp.
		return w.lower, nil
	}

	return w.search(ctx, s, timestamp)
}

func findBound(ctx context.Context, s *stater, upper *State, timestamp time.Time) (*State, *State, error) {
	var (
		lowerID uint64 = 1
		lower   *State
		err     error
	)

	// we need to find the lower bound
	for lower == nil {
		lower, err = s.State(ctx, lowerID)

		if err != nil && !NotFound(err) {
			return nil, nil, err
		}

		if lower != nil && !timestamp.After(lower.Timestamp) {
			if lower.SeqNum+1 >= upper.SeqNum {
				return lower, upper, nil // edge case if there are only two sequence numbers
			}

			// in our search for lower we found a new upper bound
			upper = lower
			lower = nil
			lowerID = 1
		}

		if lower != nil {
			break
		}

		// no lower yet, so try a higher id (binary search wise)
		newID := (lowerID + upper.SeqNum) / 2
		if newID <= lowerID {
			// nothing suitable found, so upper is probably the best we can do
			return upper, upper, nil
		}
		lowerID = newID
	}

	return lower, upper, nil
}

// window is the part of the sequence that is still searched: the state looked for
// is written after lower and is upper at the latest.
type window struct {
	lower, upper *State
}

// search does the binary search through the window.
func (w *window) search(ctx context.Context, s *stater, timestamp time.Time) (*State, error) {
	// we do a binary search through the range to find the sequence number
	for w.lower.SeqNum+1 < w.upper.SeqNum {
		// could do better here
		splitID := (w.lower.SeqNum + w.upper.SeqNum) / 2

		split, err := s.State(ctx, splitID)
		if err != nil && !NotFound(err) {
			return nil, err
		}

		if split == nil {
			// file missing, search the next towards w.lower
			sID := splitID - 1

			for split == nil && w.lower.SeqNum < sID {
				split, err = s.State(ctx, sID)
				if err != nil && !NotFound(err) {
					return nil, err
				}

				sID--
			}
		}

		if split == nil {
			// still missing? search the next towards w.upper
			sID := splitID + 1

			for split == nil && sID < w.upper.SeqNum {
				split, err = s.State(ctx, sID)
				if err != nil && !NotFound(err) {
					return nil, err
				}

				sID++
			}
		}

		if split == nil {
			// nothing between w.lower and w.upper, so w.upper is
			// the first state at or after the timestamp.
			return w.upper, nil
		}

		// set the new boundary
		if timestamp.After(split.Timestamp) {
			w.lower = split
		} else {
			w.upper = split
		}
	}

	// timestamp is now between w.lower and w.upper, we want to return the w.upper.
	return w.upper, nil
}
`},
	// representation change (a constant result becomes a lookup in a package-level table, comma-ok form)
	{Name: "b-dir-lookup-table", File: "replication/interval.go",
		Find: `func (n HourSeqNum) Dir() string {
	return "hour"
}
`,
		Replace: `// replicationDirs maps the interval names to the directories on the planet server.
var replicationDirs = map[string]string{"hourly": "hour", "daily": "day"}

func (n HourSeqNum) Dir() string {
	dir, ok := replicationDirs["hourly"]
	if !ok {
		return ""
	}
	return dir
}
`},
	// extract methods (each neighbour scan a method whose init clause steps off the middle, fetch-or-missing method), early return <-> break to a single exit
	{Name: "b-search-scan-helper-methods-single-exit", File: "replication/search.go",
		Find: `func findInRange(ctx context.Context, s *stater, lower, upper *State, timestamp time.Time) (*State, error) {
	// we do a binary search through the range to find the sequence number
	for lower.SeqNum+1 < upper.SeqNum {
		// could do better here
		splitID := (lower.SeqNum + upper.SeqNum) / 2

		split, err := s.State(ctx, splitID)
		if err != nil && !NotFound(err) {
			return nil, err
		}

		if split == nil {
			// file missing, search the next towards lower
			sID := splitID - 1

			for split == nil && lower.SeqNum < sID {
				split, err = s.State(ctx, sID)
				if err != nil && !NotFound(err) {
					return nil, err
				}

				sID--
			}
		}

		if split == nil {
			// still missing? search the next towards upper
			sID := splitID + 1

			for split == nil && sID < upper.SeqNum {
				split, err = s.State(ctx, sID)
				if err != nil && !NotFound(err) {
					return nil, err
				}

				sID++
			}
		}

		if split == nil {
			// nothing between lower and upper, so upper is
			// the first state at or after the timestamp.
			return upper, nil
		}

		// set the new boundary
		if timestamp.After(split.Timestamp) {
			lower = split
		} else {
			upper = split
		}
	}

	// timestamp is now between lower and upper, we want to return the upper.
	return upper, nil
}
`,
		Replace: `func findInRange(ctx context.Context, s *stater, lower, upper *State, timestamp time.Time) (*State, error) {
	// we do a binary search through the range to find the sequence number
	for lower.SeqNum+1 < upper.SeqNum {
		// could do better here
		splitID := (lower.SeqNum + upper.SeqNum) / 2

		split, err := s.lookup(ctx, splitID)
		if err != nil {
			return nil, err
		}

		if split == nil {
			// file missing, search the next towards lower
			split, err = s.nearestBelow(ctx, splitID, lower)
			if err != nil {
				return nil, err
			}
		}

		if split == nil {
			// still missing? search the next towards upper
			split, err = s.nearestAbove(ctx, splitID, upper)
			if err != nil {
				return nil, err
			}
		}

		if split == nil {
			// nothing between lower and upper, so upper is
			// the first state at or after the timestamp.
			break
		}

		// set the new boundary
		if timestamp.After(split.Timestamp) {
			lower = split
		} else {
			upper = split
		}
	}

	// timestamp is now between lower and upper, we want to return the upper.
	return upper, nil
}

// lookup fetches the state with the given sequence number; a missing state file is not an error here.
func (s *stater) lookup(ctx context.Context, id uint64) (*State, error) {
	state, err := s.State(ctx, id)
	if err != nil && !NotFound(err) {
		return nil, err
	}

	return state, nil
}

// nearestBelow returns the first state found going down from id-1, stopping short of the lower bound.
func (s *stater) nearestBelow(ctx context.Context, id uint64, lower *State) (*State, error) {
	for id--; lower.SeqNum < id; id-- {
		state, err := s.lookup(ctx, id)
		if err != nil || state != nil {
			return state, err
		}
	}

	return nil, nil
}

// nearestAbove returns the first state found going up from id+1, stopping short of the upper bound.
func (s *stater) nearestAbove(ctx context.Context, id uint64, upper *State) (*State, error) {
	for id++; id < upper.SeqNum; id++ {
		state, err := s.lookup(ctx, id)
		if err != nil || state != nil {
			return state, err
		}
	}

	return nil, nil
}
`},
	// flag + value (the fetch-or-missing helper reports (state, found, err); the scans and the exhausted exit test the flag)
	{Name: "b-search-lookup-found-flag", File: "replication/search.go",
		Find: `func findInRange(ctx context.Context, s *stater, lower, upper *State, timestamp time.Time) (*State, error) {
	// we do a binary search through the range to find the sequence number
	for lower.SeqNum+1 < upper.SeqNum {
		// could do better here
		splitID := (lower.SeqNum + upper.SeqNum) / 2

		split, err := s.State(ctx, splitID)
		if err != nil && !NotFound(err) {
			return nil, err
		}

		if split == nil {
			// file missing, search the next towards lower
			sID := splitID - 1

			for split == nil && lower.SeqNum < sID {
				split, err = s.State(ctx, sID)
				if err != nil && !NotFound(err) {
					return nil, err
				}

				sID--
			}
		}

		if split == nil {
			// still missing? search the next towards upper
			sID := splitID + 1

			for split == nil && sID < upper.SeqNum {
				split, err = s.State(ctx, sID)
				if err != nil && !NotFound(err) {
					return nil, err
				}

				sID++
			}
		}

		if split == nil {
			// nothing between lower and upper, so upper is
			// the first state at or after the timestamp.
			return upper, nil
		}

		// set the new boundary
		if timestamp.After(split.Timestamp) {
			lower = split
		} else {
			upper = split
		}
	}

	// timestamp is now between lower and upper, we want to return the upper.
	return upper, nil
}
`,
		Replace: `func findInRange(ctx context.Context, s *stater, lower, upper *State, timestamp time.Time) (*State, error) {
	// we do a binary search through the range to find the sequence number
	for lower.SeqNum+1 < upper.SeqNum {
		// could do better here
		splitID := (lower.SeqNum + upper.SeqNum) / 2

		split, found, err := s.lookup(ctx, splitID)
		if err != nil {
			return nil, err
		}

		// file missing, search the next towards lower
		for sID := splitID - 1; !found && lower.SeqNum < sID; sID-- {
			split, found, err = s.lookup(ctx, sID)
			if err != nil {
				return nil, err
			}
		}

		// still missing? search the next towards upper
		for sID := splitID + 1; !found && sID < upper.SeqNum; sID++ {
			split, found, err = s.lookup(ctx, sID)
			if err != nil {
				return nil, err
			}
		}

		if !found {
			// nothing between lower and upper, so upper is
			// the first state at or after the timestamp.
			return upper, nil
		}

		// set the new boundary
		if timestamp.After(split.Timestamp) {
			lower = split
		} else {
			upper = split
		}
	}

	// timestamp is now between lower and upper, we want to return the upper.
	return upper, nil
}

// lookup fetches the state with the given sequence number and reports whether there is one.
func (s *stater) lookup(ctx context.Context, id uint64) (*State, bool, error) {
	state, err := s.State(ctx, id)
	if err != nil && !NotFound(err) {
		return nil, false, err
	}

	return state, state != nil, nil
}
`},
	// fmt.Sprintf <-> strconv + concatenation with manual zero padding (loop over a small count)
	{Name: "b-path-strconv-padding", File: "replication/interval.go",
		Find: `func (ds *Datasource) baseSeqURL(sn SeqNum) string {
	n := sn.Uint64()
	return fmt.Sprintf("%s/replication/%s/%03d/%03d/%03d",
		ds.baseURL(),
		sn.Dir(),
		n/1000000,
		(n%1000000)/1000,
		n%1000)
}
`,
		Replace: `func (ds *Datasource) baseSeqURL(sn SeqNum) string {
	return ds.baseURL() + "/replication/" + sn.Dir() + "/" + sequencePath(sn.Uint64())
}

// sequencePath lays out a sequence number the way the planet server does: three levels,
// each zero padded to at least three digits, e.g. 001/234/567.
func sequencePath(n uint64) string {
	return padded(n/1000000) + "/" + padded((n%1000000)/1000) + "/" + padded(n%1000)
}

func padded(n uint64) string {
	s := strconv.FormatUint(n, 10)
	for len(s) < 3 {
		s = "0" + s
	}

	return s
}
`},
	// error handling and results restructured to a single exit (result and error variables, labelled break)
	{Name: "b-search-single-exit", File: "replication/search.go",
		Find: `func findInRange(ctx context.Context, s *stater, lower, upper *State, timestamp time.Time) (*State, error) {
	// we do a binary search through the range to find the sequence number
	for lower.SeqNum+1 < upper.SeqNum {
		// could do better here
		splitID := (lower.SeqNum + upper.SeqNum) / 2

		split, err := s.State(ctx, splitID)
		if err != nil && !NotFound(err) {
			return nil, err
		}

		if split == nil {
			// file missing, search the next towards lower
			sID := splitID - 1

			for split == nil && lower.SeqNum < sID {
				split, err = s.State(ctx, sID)
				if err != nil && !NotFound(err) {
					return nil, err
				}

				sID--
			}
		}

		if split == nil {
			// still missing? search the next towards upper
			sID := splitID + 1

			for split == nil && sID < upper.SeqNum {
				split, err = s.State(ctx, sID)
				if err != nil && !NotFound(err) {
					return nil, err
				}

				sID++
			}
		}

		if split == nil {
			// nothing between lower and upper, so upper is
			// the first state at or after the timestamp.
			return upper, nil
		}

		// set the new boundary
		if timestamp.After(split.Timestamp) {
			lower = split
		} else {
			upper = split
		}
	}

	// timestamp is now between lower and upper, we want to return the upper.
	return upper, nil
}
`,
		Replace: `func findInRange(ctx context.Context, s *stater, lower, upper *State, timestamp time.Time) (*State, error) {
	var (
		result *State
		failed error
	)

	// we do a binary search through the range to find the sequence number
search:
	for lower.SeqNum+1 < upper.SeqNum {
		// could do better here
		splitID := (lower.SeqNum + upper.SeqNum) / 2

		split, err := s.State(ctx, splitID)
		if err != nil && !NotFound(err) {
			failed = err
			break
		}

		if split == nil {
			// file missing, search the next towards lower
			sID := splitID - 1

			for split == nil && lower.SeqNum < sID {
				split, err = s.State(ctx, sID)
				if err != nil && !NotFound(err) {
					failed = err
					break search
				}

				sID--
			}
		}

		if split == nil {
			// still missing? search the next towards upper
			sID := splitID + 1

			for split == nil && sID < upper.SeqNum {
				split, err = s.State(ctx, sID)
				if err != nil && !NotFound(err) {
					failed = err
					break search
				}

				sID++
			}
		}

		if split == nil {
			// nothing between lower and upper, so upper is
			// the first state at or after the timestamp.
			result = upper
			break
		}

		// set the new boundary
		if timestamp.After(split.Timestamp) {
			lower = split
		} else {
			upper = split
		}
	}

	if failed != nil {
		return nil, failed
	}

	if result == nil {
		// timestamp is now between lower and upper, we want to return the upper.
		result = upper
	}

	return result, nil
}
`},
	// extract helper (the three numeric properties of an interval state file are parsed through one function)
	{Name: "b-decoder-number-helper", File: "replication/interval.go",
		Find: `func decodeIntervalState(data []byte) (*State, error) {
	// example
	// ---
	// #Sat Jul 16 06:14:03 UTC 2016
	// txnMaxQueried=836439235
	// sequenceNumber=2010580
	// timestamp=2016-07-16T06\:14\:02Z
	// txnReadyList=
	// txnMax=836439235
	// txnActiveList=836439008

	var (
		n   int
		err error
	)

	state := &State{}
	for _, l := range bytes.Split(data, []byte("\n")) {
		parts := bytes.Split(l, []byte("="))

		if bytes.Equal(parts[0], []byte("sequenceNumber")) {
			n, err = strconv.Atoi(string(bytes.TrimSpace(parts[1])))
			if err != nil {
				return nil, err
			}

			state.SeqNum = uint64(n)
		} else if bytes.Equal(parts[0], []byte("txnMax")) {
			state.TxnMax, err = strconv.Atoi(string(bytes.TrimSpace(parts[1])))
			if err != nil {
				return nil, err
			}
		} else if bytes.Equal(parts[0], []byte("txnMaxQueried")) {
			state.TxnMaxQueried, err = strconv.Atoi(string(bytes.TrimSpace(parts[1])))
			if err != nil {
				return nil, err
			}
		} else if bytes.Equal(parts[0], []byte("timestamp")) {
			timeString := string(bytes.TrimSpace(parts[1]))
			state.Timestamp, err = decodeTime(timeString)
			if err != nil {
				return nil, err
			}
		}
	}

	return state, nil
}
`,
		Replace: `func decodeIntervalState(data []byte) (*State, error) {
	// example
	// ---
	// #Sat Jul 16 06:14:03 UTC 2016
	// txnMaxQueried=836439235
	// sequenceNumber=2010580
	// timestamp=2016-07-16T06\:14\:02Z
	// txnReadyList=
	// txnMax=836439235
	// txnActiveList=836439008

	var (
		n   int
		err error
	)

	state := &State{}
	for _, l := range bytes.Split(data, []byte("\n")) {
		parts := bytes.Split(l, []byte("="))

		if bytes.Equal(parts[0], []byte("sequenceNumber")) {
			n, err = number(parts[1])
			if err != nil {
				return nil, err
			}

			state.SeqNum = uint64(n)
		} else if bytes.Equal(parts[0], []byte("txnMax")) {
			state.TxnMax, err = number(parts[1])
			if err != nil {
				return nil, err
			}
		} else if bytes.Equal(parts[0], []byte("txnMaxQueried")) {
			state.TxnMaxQueried, err = number(parts[1])
			if err != nil {
				return nil, err
			}
		} else if bytes.Equal(parts[0], []byte("timestamp")) {
			timeString := string(bytes.TrimSpace(parts[1]))
			state.Timestamp, err = decodeTime(timeString)
			if err != nil {
				return nil, err
			}
		}
	}

	return state, nil
}

// number reads the decimal number of a key=value line.
func number(value []byte) (int, error) {
	return strconv.Atoi(string(bytes.TrimSpace(value)))
}
`},
	// fmt.Sprintf <-> presized byte buffer filled with append and strconv.AppendUint (manual zero padding)
	{Name: "b-path-append-bytes", File: "replication/interval.go",
		Find: `func (ds *Datasource) baseSeqURL(sn SeqNum) string {
	n := sn.Uint64()
	return fmt.Sprintf("%s/replication/%s/%03d/%03d/%03d",
		ds.baseURL(),
		sn.Dir(),
		n/1000000,
		(n%1000000)/1000,
		n%1000)
}
`,
		Replace: `func (ds *Datasource) baseSeqURL(sn SeqNum) string {
	base, dir, n := ds.baseURL(), sn.Dir(), sn.Uint64()

	buf := make([]byte, 0, len(base)+len("/replication/")+len(dir)+len("/000/000/000"))
	buf = append(buf, base...)
	buf = append(buf, "/replication/"...)
	buf = append(buf, dir...)
	buf = appendPadded3(buf, n/1000000)
	buf = appendPadded3(buf, (n%1000000)/1000)
	buf = appendPadded3(buf, n%1000)

	return string(buf)
}

// appendPadded3 appends a slash and the number zero padded to three digits, more if it needs them.
func appendPadded3(buf []byte, v uint64) []byte {
	buf = append(buf, '/')
	if v < 100 {
		buf = append(buf, '0')
	}
	if v < 10 {
		buf = append(buf, '0')
	}

	return strconv.AppendUint(buf, v, 10)
}
`},
	// guarded fast path (the common layout tried first when the byte after the date says so) falling back to the general loop
	{Name: "b-decodetime-fast-path", File: "replication/datasource.go",
		Find: `func decodeTime(s string) (time.Time, error) {
	var (
		t   time.Time
		err error
	)
	for _, format := range timeFormats {
		t, err = time.Parse(format, s)
		if err == nil {
			return t, nil
		}
	}

	return t, err
}
`,
		Replace: `func decodeTime(s string) (time.Time, error) {
	// the interval state files are the most common; theirs is the only layout with a 'T' after the date
	if len(s) > 10 && s[10] == 'T' {
		if t, err := time.Parse(timeFormats[2], s); err == nil {
			return t, nil
		}
	}

	var (
		t   time.Time
		err error
	)
	for _, format := range timeFormats {
		t, err = time.Parse(format, s)
		if err == nil {
			return t, nil
		}
	}

	return t, err
}
`},
	// values cached in locals (the bounds' sequence numbers read once per iteration)
	{Name: "b-search-seqnums-read-once", File: "replication/search.go",
		Find: `func findInRange(ctx context.Context, s *stater, lower, upper *State, timestamp time.Time) (*State, error) {
	// we do a binary search through the range to find the sequence number
	for lower.SeqNum+1 < upper.SeqNum {
		// could do better here
		splitID := (lower.SeqNum + upper.SeqNum) / 2

		split, err := s.State(ctx, splitID)
		if err != nil && !NotFound(err) {
			return nil, err
		}

		if split == nil {
			// file missing, search the next towards lower
			sID := splitID - 1

			for split == nil && lower.SeqNum < sID {
				split, err = s.State(ctx, sID)
				if err != nil && !NotFound(err) {
					return nil, err
				}

				sID--
			}
		}

		if split == nil {
			// still missing? search the next towards upper
			sID := splitID + 1

			for split == nil && sID < upper.SeqNum {
				split, err = s.State(ctx, sID)
				if err != nil && !NotFound(err) {
					return nil, err
				}

				sID++
			}
		}

		if split == nil {
			// nothing between lower and upper, so upper is
			// the first state at or after the timestamp.
			return upper, nil
		}

		// set the new boundary
		if timestamp.After(split.Timestamp) {
			lower = split
		} else {
			upper = split
		}
	}

	// timestamp is now between lower and upper, we want to return the upper.
	return upper, nil
}
`,
		Replace: `func findInRange(ctx context.Context, s *stater, lower, upper *State, timestamp time.Time) (*State, error) {
	// we do a binary search through the range to find the sequence number
	for lower.SeqNum+1 < upper.SeqNum {
		// could do better here
		lo, hi := lower.SeqNum, upper.SeqNum
		splitID := (lo + hi) / 2

		split, err := s.State(ctx, splitID)
		if err != nil && !NotFound(err) {
			return nil, err
		}

		if split == nil {
			// file missing, search the next towards lower
			sID := splitID - 1

			for split == nil && lo < sID {
				split, err = s.State(ctx, sID)
				if err != nil && !NotFound(err) {
					return nil, err
				}

				sID--
			}
		}

		if split == nil {
			// still missing? search the next towards upper
			sID := splitID + 1

			for split == nil && sID < hi {
				split, err = s.State(ctx, sID)
				if err != nil && !NotFound(err) {
					return nil, err
				}

				sID++
			}
		}

		if split == nil {
			// nothing between lower and upper, so upper is
			// the first state at or after the timestamp.
			return upper, nil
		}

		// set the new boundary
		if timestamp.After(split.Timestamp) {
			lower = split
		} else {
			upper = split
		}
	}

	// timestamp is now between lower and upper, we want to return the upper.
	return upper, nil
}
`},
}
