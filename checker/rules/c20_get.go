package rules

import (
	"go/ast"
	"go/token"
	"go/types"
	"strings"
)

// c20GetRoles: where the request function takes its four inputs: index in the parameter list, -1 = the receiver.
type c20GetRoles struct{ ds, ctx, url, item int }

// The request function ("getFromAPI") is identified by its role, not its name: the one function or method of the
// package whose inputs (receiver included) are exactly a *Datasource, a context.Context, a string (the URL) and an
// interface{} (the decode target), in any order, and whose result is an error.
func c20FindGet(cx *c20Ctx) *FuncInfo {
	var found []*FuncInfo
	var roles []c20GetRoles
	for _, fi := range cx.funcs {
		sig := c20Sig(fi.Obj)
		if sig.Results().Len() != 1 || !c20IsErrorType(sig.Results().At(0).Type()) {
			continue
		}
		ro := c20GetRoles{ds: -2, ctx: -2, url: -2, item: -2}
		n, ok := 0, true
		classify := func(t types.Type, idx int) {
			n++
			switch {
			case namedPath(t) == cx.dsType && ro.ds == -2:
				ro.ds = idx
			case c20IsCtx(t) && ro.ctx == -2:
				ro.ctx = idx
			default:
				if b, isB := t.Underlying().(*types.Basic); isB && b.Info()&types.IsString != 0 && ro.url == -2 {
					ro.url = idx
				} else if it, isI := t.Underlying().(*types.Interface); isI && it.Empty() && ro.item == -2 {
					ro.item = idx
				} else {
					ok = false
				}
			}
		}
		if sig.Recv() != nil {
			classify(sig.Recv().Type(), -1)
		}
		for i := 0; i < sig.Params().Len(); i++ {
			classify(sig.Params().At(i).Type(), i)
		}
		if !ok || n != 4 || ro.ds == -2 || ro.ctx == -2 || ro.url == -2 || ro.item == -2 || sig.Variadic() {
			continue
		}
		found = append(found, fi)
		roles = append(roles, ro)
	}
	if len(found) != 1 {
		return nil
	}
	cx.get = roles[0]
	return found[0]
}

// getKey: the input key of a role inside the request function ("recv", "p1", ...).
func (cx *c20Ctx) getKey(idx int) string {
	if idx < 0 {
		return "recv"
	}
	return "p" + c20Itoa(int64(idx))
}

// getArg: the value a request event passes for a role.
func (cx *c20Ctx) getArg(ev c20Event, idx int) c20V {
	if idx < 0 {
		return ev.recv
	}
	if idx < len(ev.args) {
		return ev.args[idx]
	}
	return c20Unknown("missing argument")
}

// c20GetRun is the symbolic execution of the request function for one concrete response status.
type c20GetRun struct {
	status  int64
	rets    []*c20St
	aborted []*c20St
}

func (cx *c20Ctx) runGet(status int64) *c20GetRun {
	if cx.getRuns == nil {
		cx.getRuns = map[int64]*c20GetRun{}
	}
	if g := cx.getRuns[status]; g != nil {
		return g
	}
	x := c20NewSX(cx, cx.getFn, func(*types.Func) string { return "" })
	x.status = &status
	g := &c20GetRun{status: status}
	for _, st := range x.run() {
		switch st.ctl {
		case c20cRet:
			g.rets = append(g.rets, st)
		case c20cAbort:
			g.aborted = append(g.aborted, st)
		}
	}
	cx.getRuns[status] = g
	return g
}

func (g *c20GetRun) abortText(cx *c20Ctx) (string, token.Pos) {
	if len(g.aborted) == 0 {
		return "", token.NoPos
	}
	a := g.aborted[0]
	pos := cx.getFn.Decl.Pos()
	if a.whyAt != nil {
		pos = a.whyAt.Pos()
	}
	return strings.TrimPrefix(a.why, "loop:"), pos
}

// limiterKey returns the input key ("recv.<Field>") of the Datasource field that plays the rate-limiter role
// (an interface with the single method func(context.Context) error).
func (cx *c20Ctx) limiterKey() (string, string) {
	_, st := structType(cx.pk, "Datasource")
	if st == nil {
		return "", ""
	}
	name := ""
	for i := 0; i < st.NumFields(); i++ {
		if c20IsWaiter(st.Field(i).Type()) {
			if name != "" {
				return "", ""
			}
			name = st.Field(i).Name()
		}
	}
	if name == "" {
		return "", ""
	}
	return cx.getKey(cx.get.ds) + "." + name, name
}

// doOK: the one Do event of the path, when Do is known to have succeeded on it.
func c20DoOK(st *c20St) (c20Event, bool) {
	dos := st.eventsOf("do")
	if len(dos) != 1 {
		return c20Event{}, false
	}
	v, known := st.fact(c20NilAtom(dos[0].id))
	return dos[0], known && v
}

func c20NilAtom(id int) string { return "nil:#" + c20Itoa(int64(id)) }

// classify names the outcome of a path of the request function after a successful Do.
func (cx *c20Ctx) classifyGet(st *c20St) (kind string, val c20V) {
	if len(st.ret) != 1 {
		return "other", c20V{}
	}
	v := st.ret[0]
	decs := st.eventsOf("decode")
	switch {
	case v.k == c20kErr && v.tag != "new":
		return "err:" + v.tag, v
	case v.k == c20kObj && v.tag == "err" && len(decs) == 1 && v.id == decs[0].id:
		return "decode", v
	case st.resolve(v).k == c20kNil:
		if len(decs) == 1 {
			if ok, known := st.fact(c20NilAtom(decs[0].id)); known && ok {
				return "decode", v
			}
		}
		return "nil", v
	}
	return "other", v
}

// httpAllowed: the request function and the unexported functions that are only called from such functions
// (helpers extracted from it). HTTP requests may be created and sent there and nowhere else.
func (cx *c20Ctx) httpAllowed() map[*types.Func]bool {
	callers := map[*types.Func]map[*types.Func]bool{}
	for _, fi := range cx.funcs {
		ast.Inspect(fi.Decl.Body, func(n ast.Node) bool {
			if call, ok := n.(*ast.CallExpr); ok {
				if fn := callee(cx.info, call); fn != nil && cx.byObj[fn] != nil {
					if callers[fn] == nil {
						callers[fn] = map[*types.Func]bool{}
					}
					callers[fn][fi.Obj] = true
				}
			}
			return true
		})
	}
	// uses outside function bodies (package-level initialisers, method values) disqualify
	allowed := map[*types.Func]bool{cx.getFn.Obj: true}
	for changed := true; changed; {
		changed = false
		for _, fi := range cx.funcs {
			if allowed[fi.Obj] || fi.Obj.Exported() || len(callers[fi.Obj]) == 0 {
				continue
			}
			ok := true
			for c := range callers[fi.Obj] {
				if !allowed[c] {
					ok = false
				}
			}
			if ok {
				allowed[fi.Obj] = true
				changed = true
			}
		}
	}
	return allowed
}
