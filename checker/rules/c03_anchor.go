package rules

// Generated pieces of the current text of osmxml.(*Scanner).Scan and osm.(*Action).UnmarshalXML that the overlay
// variants of C03 are anchored in (tree 6e99b00: exact-name dispatch, unknown elements skipped, action children
// appended).

const c03ActionOldNew = "\t\tcase \"old\":\n\t\t\ta.Old = &OSM{}\n\t\t\tif err := d.DecodeElement(a.Old, &start); err != nil {\n\t\t\t\treturn err\n\t\t\t}\n\t\tcase \"new\":\n\t\t\ta.New = &OSM{}\n\t\t\tif err := d.DecodeElement(a.New, &start); err != nil {\n\t\t\t\treturn err\n\t\t\t}\n"

const c03ActionElems = "\t\tcase \"node\":\n\t\t\tn := &Node{}\n\t\t\tif err := d.DecodeElement(&n, &start); err != nil {\n\t\t\t\treturn err\n\t\t\t}\n\t\t\tif a.OSM == nil {\n\t\t\t\ta.OSM = &OSM{}\n\t\t\t}\n\t\t\ta.OSM.Nodes = append(a.OSM.Nodes, n)\n\t\tcase \"way\":\n\t\t\tw := &Way{}\n\t\t\tif err := d.DecodeElement(&w, &start); err != nil {\n\t\t\t\treturn err\n\t\t\t}\n\t\t\tif a.OSM == nil {\n\t\t\t\ta.OSM = &OSM{}\n\t\t\t}\n\t\t\ta.OSM.Ways = append(a.OSM.Ways, w)\n\t\tcase \"relation\":\n\t\t\tr := &Relation{}\n\t\t\tif err := d.DecodeElement(&r, &start); err != nil {\n\t\t\t\treturn err\n\t\t\t}\n\t\t\tif a.OSM == nil {\n\t\t\t\ta.OSM = &OSM{}\n\t\t\t}\n\t\t\ta.OSM.Relations = append(a.OSM.Relations, r)\n\t\t}\n\t}\n\n\treturn nil\n}\n"

const c03ActionCases = c03ActionOldNew + c03ActionElems

const c03ActionOutParamOldNew = "\t\tcase \"old\":\n\t\t\tif err := decodeBody(d, &start, &a.Old); err != nil {\n\t\t\t\treturn err\n\t\t\t}\n\t\tcase \"new\":\n\t\t\tif err := decodeBody(d, &start, &a.New); err != nil {\n\t\t\t\treturn err\n\t\t\t}\n"

const c03ActionOutParamOldWrong = "\t\tcase \"old\":\n\t\t\tif err := decodeBody(d, &start, &a.New); err != nil {\n\t\t\t\treturn err\n\t\t\t}\n\t\tcase \"new\":\n\t\t\tif err := decodeBody(d, &start, &a.New); err != nil {\n\t\t\t\treturn err\n\t\t\t}\n"

const c03ActionCasesOutParam = c03ActionOutParamOldNew + c03ActionElems + "\n"

const c03ScanSwitchHead = "\t\ts.next = nil\n\t\tswitch se.Name.Local {\n"

const c03ScanObjectCases = "\t\tcase \"bounds\":\n\t\t\tbounds := &osm.Bounds{}\n\t\t\terr = s.decoder.DecodeElement(&bounds, &se)\n\t\t\ts.next = bounds\n\t\tcase \"node\":\n\t\t\tnode := &osm.Node{}\n\t\t\terr = s.decoder.DecodeElement(&node, &se)\n\t\t\ts.next = node\n\t\tcase \"way\":\n\t\t\tway := &osm.Way{}\n\t\t\terr = s.decoder.DecodeElement(&way, &se)\n\t\t\ts.next = way\n\t\tcase \"relation\":\n\t\t\trelation := &osm.Relation{}\n\t\t\terr = s.decoder.DecodeElement(&relation, &se)\n\t\t\ts.next = relation\n\t\tcase \"changeset\":\n\t\t\tcs := &osm.Changeset{}\n\t\t\terr = s.decoder.DecodeElement(&cs, &se)\n\t\t\ts.next = cs\n\t\tcase \"note\":\n\t\t\tn := &osm.Note{}\n\t\t\terr = s.decoder.DecodeElement(&n, &se)\n\t\t\ts.next = n\n\t\tcase \"user\":\n\t\t\tu := &osm.User{}\n\t\t\terr = s.decoder.DecodeElement(&u, &se)\n\t\t\ts.next = u\n"

const c03ScanUserCase = "\t\tcase \"user\":\n\t\t\tu := &osm.User{}\n\t\t\terr = s.decoder.DecodeElement(&u, &se)\n\t\t\ts.next = u\n"

// c03ScanSwitchTail: the container case and the default branch, up to the closing brace of the switch.
const c03ScanSwitchTail = "\t\tcase \"osm\", \"osmChange\", \"create\", \"modify\", \"delete\", \"action\", \"old\", \"new\":\n\t\t\t// the containers of the osm, osmChange and augmented diff formats\n\t\t\tcontinue Loop\n\t\tdefault:\n\t\t\tif root {\n\t\t\t\t// the document element, whatever its name\n\t\t\t\tcontinue Loop\n\t\t\t}\n\n\t\t\t// an unknown element is ignored with all of its content,\n\t\t\t// like decoding the whole document does.\n\t\t\tif err := s.decoder.Skip(); err != nil {\n\t\t\t\ts.err = err\n\t\t\t\treturn false\n\t\t\t}\n\t\t\tcontinue Loop\n\t\t}\n"

// c03ScanEnd: from the end of the switch to the end of Scan.
const c03ScanEnd = "\n\t\tif err != nil {\n\t\t\ts.err = err\n\t\t\treturn false\n\t\t}\n\n\t\treturn true\n\t}\n}\n"

const c03ScanSwitch = c03ScanSwitchHead + c03ScanObjectCases + c03ScanSwitchTail

const c03ScanRootSeen = "\t\troot := !s.rootSeen\n\t\ts.rootSeen = true\n\n"
