package rules

import (
	"go/ast"
	"go/token"
)

// Obligations read off the symbolic execution of the request function (c20_get.go).

// H1 do-once@: Client.Do exactly once on every path that decodes, at most once on any other, no other way of sending.
func (cx *c20Ctx) doOnceGet(okStatus int64) {
	r := cx.r
	c := "do-once@" + cx.getFn.Name()
	g := cx.runGet(okStatus)
	for _, a := range g.aborted {
		if len(a.why) > 5 && a.why[:5] == "loop:" {
			r.Bad(c, a.whyAt.Pos(), "%s: %s can send several requests", a.why[5:], cx.getFn.Name())
			return
		}
	}
	if why, pos := g.abortText(cx); why != "" {
		r.Unknown(c, pos, "%s could not be executed symbolically: %s", cx.getFn.Name(), why)
		return
	}
	nDec := 0
	for _, st := range g.rets {
		if o := st.eventsOf("http-other"); len(o) > 0 {
			r.Bad(c, o[0].call.Pos(), "`%s` sends a request besides (*http.Client).Do", src(r.P.Fset, o[0].call))
			return
		}
		n := len(st.eventsOf("do"))
		for _, do := range st.eventsOf("do") {
			isNil, tested := st.fact(c20NilAtom(do.id))
			switch {
			case !tested:
				r.Bad(c, do.call.Pos(), "the error of `%s` is not tested on the path to `%s`: a failed request (nil response) is used", src(r.P.Fset, do.call), src(r.P.Fset, st.retAt))
				return
			case !isNil && !(len(st.ret) == 1 && st.ret[0].k == c20kObj && st.ret[0].tag == "err" && st.ret[0].id == do.id):
				r.Bad(c, cx.posOf(st, do.call.Pos()), "when `%s` fails, `%s` does not return that error", src(r.P.Fset, do.call), src(r.P.Fset, st.retAt))
				return
			}
		}
		if n == 0 && len(st.ret) == 1 {
			// returning without having sent the request is only legitimate with the error of a step that failed before
			// it (limiter wait, request creation): a status-typed error stands for a status the server sent, and nil for a
			// decoded response
			switch v := st.resolve(st.ret[0]); {
			case v.k == c20kErr && v.tag != "new":
				r.Bad(c, cx.posOf(st, cx.getFn.Decl.Pos()), "`%s` returns the status-typed error &%s{...} on a path that never sends the request [%s]: no GET (and no limiter wait) happens for that call and the error does not come from a status the server sent", src(r.P.Fset, st.retAt), v.tag, c20PathText(st))
				return
			case v.k == c20kNil:
				r.Bad(c, cx.posOf(st, cx.getFn.Decl.Pos()), "`%s` returns nil (success) on a path that never sends the request [%s]: the caller gets an empty document as if the server had answered", src(r.P.Fset, st.retAt), c20PathText(st))
				return
			}
		}
		if kind, _ := cx.classifyGet(st); kind == "decode" {
			nDec++
			if n != 1 {
				r.Bad(c, cx.posOf(st, cx.getFn.Decl.Pos()), "the decode return `%s` is reached after %d Do call(s)", src(r.P.Fset, st.retAt), n)
				return
			}
		} else if n > 1 {
			r.Bad(c, cx.posOf(st, cx.getFn.Decl.Pos()), "`%s` can be reached after %d Do calls", src(r.P.Fset, st.retAt), n)
			return
		}
	}
	if nDec == 0 {
		dos := 0
		for _, st := range g.rets {
			dos += len(st.eventsOf("do"))
		}
		if dos == 0 {
			r.Bad(c, cx.getFn.Decl.Pos(), "%s never calls (*http.Client).Do", cx.getFn.Name())
		} else {
			r.Unknown(c, cx.getFn.Decl.Pos(), "no path of %s returns the result of (*xml.Decoder).Decode for status %d", cx.getFn.Name(), okStatus)
		}
		return
	}
	r.OK(c, cx.getFn.Decl.Pos(), "symbolic execution for status %d (helpers inlined): %s through the XML decode, each after exactly one Client.Do; no path with more than one; Do is not in a loop", okStatus, c20Plural(nDec, "path"))
}

// H2: wait-before-do@ and wait-error@.
func (cx *c20Ctx) limiterGet(okStatus int64) {
	r := cx.r
	fn := cx.getFn
	c1 := "wait-before-do@" + fn.Name()
	c2 := "wait-error@" + fn.Name()
	key, field := cx.limiterKey()
	if key == "" {
		r.Anchor("the rate-limiter field of Datasource (exactly one field whose type is an interface with the single method func(context.Context) error)")
		return
	}
	g := cx.runGet(okStatus)
	if why, pos := g.abortText(cx); why != "" {
		r.Unknown(c1, pos, "%s could not be executed symbolically: %s", fn.Name(), why)
		return
	}
	bad1, bad2 := "", ""
	var pos1, pos2 token.Pos
	set := func(dst *string, pos *token.Pos, at ast.Node, msg string) {
		if *dst == "" {
			*dst = msg
			*pos = fn.Decl.Pos()
			if at != nil {
				*pos = at.Pos()
			}
		}
	}
	nDoNonNil, nDoNil, nFail := 0, 0, 0
	for _, st := range g.rets {
		isNil, tested := st.fact("nil:" + key)
		doIdx, waitIdx := -1, -1
		var wait, do c20Event
		for i, ev := range st.events {
			switch ev.kind {
			case "do":
				if doIdx < 0 {
					doIdx, do = i, ev
				}
			case "wait":
				if waitIdx < 0 {
					waitIdx, wait = i, ev
				}
				if !(ev.recv.k == c20kIn && ev.recv.h.key() == key) {
					set(&bad1, &pos1, ev.call, "`"+src(r.P.Fset, ev.call)+"` does not wait on the datasource's own "+field)
				}
				if len(ev.args) != 1 || !c20IsInput(ev.args[0], cx.getKey(cx.get.ctx)) {
					set(&bad1, &pos1, ev.call, "`"+src(r.P.Fset, ev.call)+"` does not wait on the call's context parameter")
				}
			}
		}
		if waitIdx >= 0 {
			werrNil, werrTested := st.fact(c20NilAtom(wait.id))
			switch {
			case !tested || isNil:
				set(&bad1, &pos1, wait.call, "`"+src(r.P.Fset, wait.call)+"` is reached without a `"+field+" != nil` test having passed: a datasource without limiter panics")
			case doIdx >= 0 && doIdx < waitIdx:
				set(&bad1, &pos1, wait.call, "`"+src(r.P.Fset, wait.call)+"` comes after the Do call")
			case doIdx >= 0 && !werrTested:
				set(&bad2, &pos2, wait.call, "the error of `"+src(r.P.Fset, wait.call)+"` is not tested before `"+src(r.P.Fset, do.call)+"`: after a failed or cancelled wait the request is sent anyway")
			case doIdx >= 0 && !werrNil:
				set(&bad2, &pos2, wait.call, "`"+src(r.P.Fset, do.call)+"` is reached although `"+src(r.P.Fset, wait.call)+"` failed")
			case werrTested && !werrNil:
				nFail++
				if !(len(st.ret) == 1 && st.ret[0].k == c20kObj && st.ret[0].tag == "err" && st.ret[0].id == wait.id) {
					set(&bad2, &pos2, st.retAt, "when `"+src(r.P.Fset, wait.call)+"` fails, `"+src(r.P.Fset, st.retAt)+"` does not return that error (it returns "+st.ret[0].String()+", which may be nil or another error: the caller would see success, or the wrong failure, although no request was sent)")
				}
			}
		}
		if doIdx >= 0 {
			switch {
			case !tested:
				set(&bad1, &pos1, do.call, "`"+src(r.P.Fset, do.call)+"` is reached on a path that never tests `"+field+" != nil`: with a limiter configured the request is sent without waiting")
			case !isNil && (waitIdx < 0 || waitIdx > doIdx):
				set(&bad1, &pos1, do.call, "with a non-nil "+field+" a path reaches `"+src(r.P.Fset, do.call)+"` without having passed "+field+".Wait(ctx): the request is sent without waiting on the configured rate limiter")
			case !isNil:
				nDoNonNil++
			default:
				nDoNil++
			}
		}
	}
	switch {
	case bad1 != "":
		r.Bad(c1, pos1, "%s", bad1)
	case nDoNonNil == 0 || nDoNil == 0:
		r.Unknown(c1, fn.Decl.Pos(), "no path reaches Client.Do with %s nil and with %s non-nil (%d/%d)", field, field, nDoNil, nDoNonNil)
	default:
		r.OK(c1, fn.Decl.Pos(), "all %d paths that reach Client.Do with a non-nil %s passed %s.Wait(ctx) before; the %d paths with a nil %s never call Wait", nDoNonNil, field, field, nDoNil, field)
	}
	switch {
	case bad2 != "":
		r.Bad(c2, pos2, "%s", bad2)
	case bad1 != "" && nFail == 0:
		r.Bad(c2, pos1, "no path on which a failed Limiter.Wait returns its error (see %s)", c1)
	case nFail == 0:
		r.Bad(c2, fn.Decl.Pos(), "no path tests the error of %s.Wait and returns it: after a failed or cancelled wait the request is sent anyway", field)
	default:
		r.OK(c2, fn.Decl.Pos(), "on the %s where %s.Wait(ctx) fails, that error is returned and Client.Do is not reached; Do is only reached after the error was tested nil", c20Plural(nFail, "path"), field)
	}
}
