package rules

// c16_rules_join.go — rules J1 (Join conserves segments and coordinates), J2 (the four ways of attaching a
// segment) and J3 (Segment.Reverse).

import (
	"fmt"

	"osmcheck/core"
)

func c16Perms(n int) [][]int {
	if n == 0 {
		return [][]int{{}}
	}
	var out [][]int
	for _, p := range c16Perms(n - 1) {
		for i := 0; i <= len(p); i++ {
			q := append(append(append([]int{}, p[:i]...), n-1), p[i:]...)
			out = append(out, q)
		}
	}
	return out
}

// c16Variants lists every order and every choice of reversed pieces of base.
func c16Variants(base []c16Seg, reverse bool) [][]c16Seg {
	var out [][]c16Seg
	masks := 1
	if reverse {
		masks = 1 << len(base)
	}
	for _, perm := range c16Perms(len(base)) {
		for mask := 0; mask < masks; mask++ {
			v := make([]c16Seg, len(base))
			for i, k := range perm {
				s := base[k]
				if mask&(1<<k) != 0 {
					s.toks = c16Rev(s.toks)
				}
				v[i] = s
			}
			out = append(out, v)
		}
	}
	return out
}

// c16Family reports one obligation for a family of Join scenarios: all must come out as demanded.
func (e *c16Env) family(construct string, what string, scenarios [][]c16Seg) {
	pos := e.join.Decl.Pos()
	for _, sc := range scenarios {
		v := e.joinVerdict(sc)
		switch {
		case v.undecided != "":
			e.r.Unknown(construct, pos, "Join(%s) could not be evaluated: %s", c16SegsText(sc), v.undecided)
			return
		case v.bad != "":
			e.r.Bad(construct, pos, "Join(%s): %s. %s", c16SegsText(sc), v.bad, what)
			return
		}
	}
	e.r.Stat("join scenarios", len(scenarios))
	e.r.OK(construct, pos, "%d abstract inputs evaluated, all as demanded: %s", len(scenarios), what)
}

func c16J1(r *core.R) {
	e := c16NewEnv(r)
	if !e.ok {
		return
	}
	// a ring a-b-c-d-e-f-g-h-a cut into four ways, every order of the members, every choice of reversed ways
	ring := []c16Seg{{idx: 0, toks: []string{"a", "b", "c"}}, {idx: 1, toks: []string{"c", "d", "e"}}, {idx: 2, toks: []string{"e", "f", "g"}}, {idx: 3, toks: []string{"g", "h", "a"}}}
	e.family("reassembly@Join", "a ring cut into 4 ways must come back as one closed group holding every coordinate once, whatever the order and direction of the ways", c16Variants(ring, true))

	two := []c16Seg{{idx: 0, toks: []string{"a", "b", "c"}}, {idx: 1, toks: []string{"c", "d", "a"}}, {idx: 2, toks: []string{"p", "q", "r"}}, {idx: 3, toks: []string{"r", "s", "p"}}}
	e.family("two-rings@Join", "the ways of two disjoint rings, interleaved in any order and direction, must come back as two closed groups", c16Variants(two, true))

	// the matched segment, and only it, leaves the work list: one match among fillers at every position
	var removal [][]c16Seg
	for n := 1; n <= 6; n++ {
		for k := 0; k < n; k++ {
			for _, match := range [][]string{{"c", "x", "y"}, {"y", "x", "c"}, {"y", "x", "a"}, {"a", "x", "y"}} {
				var sc []c16Seg
				for i := 0; i < n; i++ {
					if i == k {
						sc = append(sc, c16Seg{idx: i, toks: match})
					} else {
						sc = append(sc, c16Seg{idx: i, toks: []string{fmt.Sprintf("f%d", i), fmt.Sprintf("g%d", i)}})
					}
				}
				sc = append(sc, c16Seg{idx: n, toks: []string{"a", "b", "c"}})
				removal = append(removal, sc)
			}
		}
	}
	e.family("removal@Join", "exactly the matched segment leaves the work list, wherever it stands: every other segment is still there, once, unchanged", removal)

	// nothing fits: every group is still returned (the invalid-geometry exit must not lose the current group)
	dangling := []c16Seg{{idx: 0, toks: []string{"a", "b"}}, {idx: 1, toks: []string{"c", "d", "e"}}, {idx: 2, toks: []string{"f", "g"}}, {idx: 3, toks: []string{"h", "i", "j"}}, {idx: 4, toks: []string{"j", "k", "h"}}}
	e.family("dangling@Join", "ways that do not connect are returned as groups of their own and do not disturb the rings next to them", c16Variants(dangling, false))

	// degenerate ways are dropped, two-point ways are not
	compact := []c16Seg{{idx: 0, toks: []string{"a", "b", "c"}}, {idx: 1, toks: []string{}}, {idx: 2, toks: []string{"z"}}, {idx: 3, toks: []string{"p", "q"}}, {idx: 4, toks: []string{"c", "d", "a"}}}
	e.family("compact@Join", "only ways with fewer than two points are dropped before joining", c16Variants(compact, false))
}

func c16J2(r *core.R) {
	e := c16NewEnv(r)
	if !e.ok {
		return
	}
	cases := []struct {
		name  string
		match []string
	}{
		{"attach[group-end=last,way-end=first]", []string{"c", "x", "y"}},
		{"attach[group-end=last,way-end=last]", []string{"y", "x", "c"}},
		{"attach[group-end=first,way-end=last]", []string{"y", "x", "a"}},
		{"attach[group-end=first,way-end=first]", []string{"a", "x", "y"}},
	}
	for _, c := range cases {
		var scs [][]c16Seg
		for _, rev := range []bool{false, true} {
			for _, or := range []int64{0, c16CW, c16CCW} {
				for _, order := range [][2]int{{0, 1}, {1, 0}} {
					pair := []c16Seg{{idx: 0, toks: c.match, orient: or, reversed: rev}, {idx: 1, toks: []string{"a", "b", "c"}, orient: -or, reversed: !rev}}
					scs = append(scs, []c16Seg{pair[order[0]], pair[order[1]]})
				}
			}
		}
		e.family(c.name+"@Join", "the way is compared with the right end of the group, turned round exactly when its other end is the matching one (Reversed toggled with it), attached on the matching side, and the joining point is kept once", scs)
	}
}

func c16J3(r *core.R) {
	e := c16NewEnv(r)
	if !e.ok {
		return
	}
	pos := e.reverse.Decl.Pos()
	for _, rev := range []bool{false, true} {
		construct := fmt.Sprintf("Reverse[Reversed=%v]@Segment", rev)
		in := c16Seg{idx: 7, toks: []string{"a", "b", "c", "d"}, orient: c16CW, reversed: rev}
		var once c16Val
		var s1, s2 c16Seg
		var ok1, ok2 bool
		_, v := e.single(nil, func(m *c16M) c16Val {
			cell := &c16Cell{v: e.segment(in)}
			p := m.newPtr(e.segT, cell)
			m.callFunc(e.reverse, p)
			once = cell.v
			s1, ok1 = c16ReadSeg(cell.v) // read at once: the line is turned round in place
			m.callFunc(e.reverse, p)
			s2, ok2 = c16ReadSeg(cell.v)
			return nil
		})
		if !v.ok() {
			if v.undecided != "" {
				r.Unknown(construct, pos, "(*Segment).Reverse could not be evaluated: %s", v.undecided)
			} else {
				r.Bad(construct, pos, "(*Segment).Reverse: %s", v.bad)
			}
			continue
		}
		switch {
		case !ok1 || !ok2:
			r.Unknown(construct, pos, "the segment after Reverse is not concrete: %s", c16Show(once))
		case !c16SameToks(s1.toks, c16Rev(in.toks)):
			r.Bad(construct, pos, "after Reverse the line is %v, want %v: Join and Group rely on Reverse turning the line round", s1.toks, c16Rev(in.toks))
		case s1.reversed == in.reversed:
			r.Bad(construct, pos, "Reverse leaves Reversed=%v: Ring and annotateOrientation read this flag to know that the way runs against its stored direction", s1.reversed)
		case s1.idx != in.idx || s1.orient != in.orient:
			r.Bad(construct, pos, "Reverse changes Index/Orientation (%d,%d -> %d,%d)", in.idx, in.orient, s1.idx, s1.orient)
		case !c16SameToks(s2.toks, in.toks) || s2.reversed != in.reversed:
			r.Bad(construct, pos, "Reverse twice yields %v Reversed=%v, want the original %v Reversed=%v", s2.toks, s2.reversed, in.toks, in.reversed)
		default:
			r.OK(construct, pos, "line turned round and Reversed toggled, exactly once per call; Index and Orientation kept; twice is the identity")
		}
	}
}
