package rules

import (
	"go/ast"
	"go/types"
	"sort"

	"golang.org/x/tools/go/packages"
)

func (x *c18Exec) call(fr *c18Frame, call *ast.CallExpr) c18Val {
	// conversion
	if tv, ok := x.info.Types[call.Fun]; ok && tv.IsType() {
		if len(call.Args) != 1 {
			return c18Unk("`%s` is not modelled", x.src(call))
		}
		v := x.eval(fr, call.Args[0])
		bt, _ := tv.Type.Underlying().(*types.Basic)
		switch v.k {
		case c18KUnknown:
			return v
		case c18KStr:
			if bt != nil && bt.Info()&types.IsString != 0 {
				return v
			}
		case c18KInt, c18KNodeID:
			if bt != nil && bt.Info()&types.IsInteger != 0 {
				return v
			}
		case c18KTags, c18KNodes, c18KValues:
			if at := x.info.TypeOf(call.Args[0]); at != nil && types.Identical(at.Underlying(), tv.Type.Underlying()) && namedPath(tv.Type) != "sort.StringSlice" {
				return v
			}
		}
		return c18Unk("conversion `%s` is not modelled", x.src(call))
	}
	switch builtinName(x.info, call) {
	case "len":
		if len(call.Args) != 1 {
			break
		}
		v := x.eval(fr, call.Args[0])
		switch v.k {
		case c18KUnknown:
			return v
		case c18KNodes:
			return c18Val{k: c18KInt, i: x.s.n, org: c18ONodeLen}
		case c18KValues:
			return c18Val{k: c18KInt, i: x.s.ll}
		case c18KTable:
			return c18Val{k: c18KInt, org: c18OTableLen}
		case c18KStr:
			switch v.org {
			case c18OConst:
				return c18Val{k: c18KInt, i: int64(len(v.s))}
			case c18OTag, c18OEntryTag:
				n := int64(0)
				if v.s != "" {
					n = 1
				}
				return c18Val{k: c18KInt, i: n, org: c18OStrLen}
			}
		case c18KSlice, c18KNil:
			return c18Val{k: c18KInt, i: int64(len(v.elems))}
		case c18KTags:
			// only emptiness is decided: the tag set is empty (witness), or has at least one tag (a modelled tag
			// is present, or unrelated tags are); any other use of the count is "depends on the length"
			return c18Val{k: c18KInt, i: int64(len(x.tagList(v)))} // the witness list
		}
		return c18Unk("`%s` is not modelled", x.src(call))
	case "panic":
		x.stop("panic", "explicit panic")
	case "":
	default:
		return c18Unk("builtin `%s` is not modelled", x.src(call))
	}
	fn := callee(x.info, call)
	switch {
	case fn != nil && c18IsFind(fn):
		return x.find(fr, call)
	case fn != nil && fn.Pkg() != nil && (fn.Pkg().Path() == "sort" || fn.Pkg().Path() == "slices"):
		return x.search(fr, call, fn)
	case fn != nil:
		if fd := x.funcs[fn]; fd != nil {
			return x.invoke(fr, fd, fn, call)
		}
		return c18Unk("call to %s is not understood", fn.FullName())
	}
	switch fv := x.eval(fr, call.Fun); fv.k {
	case c18KFunc:
		return x.invokeLit(fr, fv, call)
	case c18KFindFn:
		if len(call.Args) == 1 {
			return x.findKey(fr, call, call.Args[0])
		}
	case c18KFuncDecl:
		if fn, _ := x.info.Defs[fv.fdecl.Name].(*types.Func); fn != nil {
			return x.invoke(fr, fv.fdecl, fn, call)
		}
	case c18KNil:
		x.stop("panic", "`%s` calls a nil function value (no entry of the lookup table matches)", x.src(call))
	case c18KUnknown:
		return fv
	}
	return c18Unk("dynamic call `%s` is not understood", x.src(call))
}

// find models <receiver>.Tags.Find(key).
func (x *c18Exec) find(fr *c18Frame, call *ast.CallExpr) c18Val {
	sel, ok := ast.Unparen(call.Fun).(*ast.SelectorExpr)
	if !ok || len(call.Args) != 1 {
		return c18Unk("`%s` is not a direct Find call", x.src(call))
	}
	if rv := x.eval(fr, sel.X); rv.k != c18KTags {
		return c18Unk("`%s` looks up tags other than the receiver's", x.src(call))
	}
	return x.findKey(fr, call, call.Args[0])
}

func (x *c18Exec) findKey(fr *c18Frame, call *ast.CallExpr, key ast.Expr) c18Val {
	k := x.eval(fr, key)
	switch {
	case k.k == c18KStr && k.org == c18OConst:
		if v, ok := x.s.tags[k.s]; ok {
			return c18Val{k: c18KStr, s: v, org: c18OTag}
		}
		x.readViolation(call, "the published algorithm does not consult the tag %q here", k.s)
		return c18Unk("tag %q is not an input of the published algorithm", k.s)
	case k.k == c18KStr && k.org == c18OEntryKey && x.s.inBody:
		return c18Val{k: c18KStr, s: x.s.v, org: c18OEntryTag}
	}
	x.readViolation(call, "tags are looked up under something other than a constant or the entry's key")
	return c18Unk("`%s`: the key is neither a constant nor the entry's key", x.src(call))
}

// search models the lookups of package sort.
func (x *c18Exec) search(fr *c18Frame, call *ast.CallExpr, fn *types.Func) c18Val {
	obs := c18SearchObs{pos: call.Pos(), text: x.src(call), cond: x.s.cond}
	defer func() { x.searches = append(x.searches, obs) }()
	if !isPkgFunc(fn, "sort", "SearchStrings") || len(call.Args) != 2 {
		return c18Unk("call to %s.%s is not among the recognised lookups (sort.SearchStrings(entry.values, value))", fn.Pkg().Path(), fn.Name())
	}
	obs.known = true
	obs.list, obs.needle = x.src(call.Args[0]), x.src(call.Args[1])
	list := x.eval(fr, call.Args[0])
	needle := x.eval(fr, call.Args[1])
	if list.k == c18KSlice || list.k == c18KNil {
		return x.searchConcrete(list, needle, call) // a literal list, not the entry's (L2 reports it for ways)
	}
	obs.listOK = list.k == c18KValues
	obs.needleOK = needle.k == c18KStr && needle.org == c18OEntryTag
	if !obs.listOK {
		return c18Unk("`%s` does not search the value list of the entry the loop is at", x.src(call))
	}
	if !obs.needleOK {
		return c18Unk("`%s` does not search for the tag value found under the entry's key", x.src(call))
	}
	r := c18Val{k: c18KInt, org: c18OSearchIdx}
	r.i = x.s.rk
	return r
}

func (x *c18Exec) enter(body *ast.BlockStmt, depth int, what string) {
	if depth > 8 {
		x.stop("unknown", "call depth exceeded at %s", what)
	}
	for _, b := range x.stack {
		if b == body {
			x.stop("unknown", "%s is recursive", what)
		}
	}
	x.stack = append(x.stack, body)
}

// invoke executes a function of the package that has a body.
func (x *c18Exec) invoke(fr *c18Frame, fd *ast.FuncDecl, fn *types.Func, call *ast.CallExpr) c18Val {
	sig := fn.Type().(*types.Signature)
	if sig.Variadic() {
		return c18Unk("variadic call `%s` is not modelled", x.src(call))
	}
	nf := x.newFrame(fd.Body, nil, fr.depth+1)
	if sig.Recv() != nil {
		sel, ok := ast.Unparen(call.Fun).(*ast.SelectorExpr)
		if !ok || x.info.Selections[sel] == nil || x.info.Selections[sel].Kind() != types.MethodVal {
			return c18Unk("method expression `%s` is not modelled", x.src(call))
		}
		rv := x.eval(fr, sel.X)
		if fd.Recv != nil && len(fd.Recv.List) == 1 && len(fd.Recv.List[0].Names) == 1 {
			if o := x.info.Defs[fd.Recv.List[0].Names[0]]; o != nil {
				nf.env[o] = rv
			}
		}
	}
	var params []types.Object
	for _, fld := range fd.Type.Params.List {
		if len(fld.Names) == 0 {
			params = append(params, nil)
		}
		for _, nm := range fld.Names {
			params = append(params, x.info.Defs[nm])
		}
	}
	if len(params) != len(call.Args) {
		return c18Unk("call `%s` spreads a multi-value result", x.src(call))
	}
	for i, a := range call.Args {
		v := x.eval(fr, a)
		if params[i] != nil {
			nf.env[params[i]] = v
		}
	}
	x.bindResults(nf, fd.Type)
	x.enter(fd.Body, nf.depth, fn.Name())
	save := x.lastPos
	v := x.exec(nf)
	x.stack = x.stack[:len(x.stack)-1]
	x.lastPos = save
	return v
}

func (x *c18Exec) invokeLit(fr *c18Frame, fv c18Val, call *ast.CallExpr) c18Val {
	lit := fv.lit
	nf := x.newFrame(lit.Body, fv.fr, fr.depth+1)
	var params []types.Object
	for _, fld := range lit.Type.Params.List {
		if len(fld.Names) == 0 {
			params = append(params, nil)
		}
		for _, nm := range fld.Names {
			params = append(params, x.info.Defs[nm])
		}
	}
	if len(params) != len(call.Args) {
		return c18Unk("call `%s` does not match the literal's parameters", x.src(call))
	}
	for i, a := range call.Args {
		v := x.eval(fr, a)
		if params[i] != nil {
			nf.env[params[i]] = v
		}
	}
	x.bindResults(nf, lit.Type)
	x.enter(lit.Body, nf.depth, "the function literal")
	save := x.lastPos
	v := x.exec(nf)
	x.stack = x.stack[:len(x.stack)-1]
	x.lastPos = save
	return v
}

// ---- static closure of the functions that take part in the evaluation

// c18Reachable lists root and every function of the package (with a body) it calls statically, transitively,
// except the Tags.Find primitive.
func c18Reachable(pk *packages.Package, funcs map[*types.Func]*ast.FuncDecl, root *ast.FuncDecl) []*ast.FuncDecl {
	seen := map[*ast.FuncDecl]bool{root: true}
	out := []*ast.FuncDecl{root}
	for i := 0; i < len(out); i++ {
		ast.Inspect(out[i].Body, func(n ast.Node) bool {
			add := func(fn *types.Func) {
				if fn == nil || c18IsFind(fn) {
					return
				}
				if fd := funcs[fn]; fd != nil && !seen[fd] {
					seen[fd] = true
					out = append(out, fd)
				}
			}
			switch t := n.(type) {
			case *ast.CallExpr:
				add(callee(pk.TypesInfo, t))
			case *ast.Ident:
				// a function used as a value, or named in the literal of a package-level lookup table that is used
				switch o := pk.TypesInfo.Uses[t].(type) {
				case *types.Func:
					if o.Type().(*types.Signature).Recv() == nil {
						add(o)
					}
				case *types.Var:
					_, isMap := o.Type().Underlying().(*types.Map)
					_, isFunc := o.Type().Underlying().(*types.Signature)
					if o.Parent() == pk.Types.Scope() && (isMap || isFunc) {
						if init := c18VarInit(pk, o); init != nil {
							ast.Inspect(init, func(m ast.Node) bool {
								if id, ok := m.(*ast.Ident); ok {
									if fn, ok := pk.TypesInfo.Uses[id].(*types.Func); ok && fn.Type().(*types.Signature).Recv() == nil {
										add(fn)
									}
								}
								return true
							})
						}
					}
				}
			}
			return true
		})
	}
	return out
}

// c18IsLookupVar: a package-level map or function variable (a lookup table), as opposed to the rule table.
func c18IsLookupVar(v *types.Var) bool {
	switch v.Type().Underlying().(type) {
	case *types.Map, *types.Signature:
		return true
	}
	return false
}

// c18IsLiteralVar: a package-level slice, array or struct whose initialiser is a composite literal (a literal table).
func c18IsLiteralVar(pk *packages.Package, v *types.Var) bool {
	switch v.Type().Underlying().(type) {
	case *types.Slice, *types.Array, *types.Struct:
		if init := c18VarInit(pk, v); init != nil {
			_, ok := ast.Unparen(init).(*ast.CompositeLit)
			return ok
		}
	}
	return false
}

// constStrings collects every constant string mentioned in the evaluated functions (scenario values).
func (x *c18Exec) constStrings() []string {
	m := map[string]bool{}
	for _, fd := range c18Reachable(x.pk, x.funcs, x.fd) {
		ast.Inspect(fd.Body, func(n ast.Node) bool {
			if e, ok := n.(ast.Expr); ok {
				if v, ok := constString(x.info, e); ok {
					m[v] = true
				}
			}
			// the constants of a package-level lookup table the function consults
			if id, ok := n.(*ast.Ident); ok {
				if pv, ok := x.info.Uses[id].(*types.Var); ok && pv.Parent() == x.pk.Types.Scope() && (c18IsLookupVar(pv) || c18IsLiteralVar(x.pk, pv)) {
					if init := c18VarInit(x.pk, pv); init != nil {
						ast.Inspect(init, func(k ast.Node) bool {
							if e, ok := k.(ast.Expr); ok {
								if v, ok := constString(x.info, e); ok && len(v) < 64 {
									m[v] = true
								}
							}
							return true
						})
					}
				}
			}
			return true
		})
	}
	var out []string
	for v := range m {
		out = append(out, v)
	}
	sort.Strings(out)
	return out
}
