package rules

// C11.A7 nonempty@ — "inconsistent or missing child histories produce the documented typed errors unless the
// corresponding ignore option is set": with the option set they must be IGNORED, not crash. A child history
// that is present but EMPTY (zero versions) is such an inconsistency, so in core.Compute and everything it
// reaches (helpers inlined, the ignore options free), every read of the fetched child list at a position that
// exists only in a non-empty list — list[c] for a constant c, list[len(list)-c] — must be preceded, on every
// path, by evidence that the list is long enough:
//   - a decision len(list) > c-1 in any spelling (len(list) > 0, != 0, !(len(list) < 1), len(list) >= c …);
//   - for "non-empty": a child version selector called on that very list (FindVisible, VersionBefore: they
//     return elements of the list) whose result the path has decided non-nil.
// Positions given by a loop variable under its own bound or by a range key are not part of this rule.
// The construct is keyed on the ROLE of the operand (the list fetched by histories.Get is "child") and the
// canonical spelling of the position, not on the function or the local names, so refactorings keep the key.

import (
	"go/token"
	"sort"
	"strings"

	"osmcheck/core"
)

func c11A7(r *core.R) {
	m := c11GetModel(r)
	if m == nil {
		return
	}
	if m.unknownIfNotes("nonempty@Compute") {
		return
	}
	lenC := &c11V{k: "call", name: "len", xs: []*c11V{m.childT}}
	type site struct {
		n, bad int
		pos    token.Pos
		why    string
		fn     string
	}
	sites := map[string]*site{}
	for _, p := range m.paths {
		st := p.st
		for _, ev := range st.ev {
			if ev.kind != "index" || ev.lhs.key() != m.childT.key() || namedPath(ev.t) != c11CorePath+".ChildList" {
				continue
			}
			// the position: a constant c (needs len > c) or len(child)-c (needs len >= c)
			need, spell := 0, ""
			if c, ok := c11ConstIdx(ev.x); ok && c >= 0 {
				need, spell = c+1, itoaC11(c)
			} else if b, k := c11PlusConst(ev.x); b.key() == lenC.key() && k < 0 {
				need, spell = int(-k), "len(child)-"+itoaC11(int(-k))
			} else {
				continue
			}
			c := "nonempty@Compute child[" + spell + "]"
			s := sites[c]
			if s == nil {
				s = &site{}
				sites[c] = s
			}
			s.n++
			s.pos = ev.node.Pos()
			s.fn = ev.fr
			if !m.longEnough(st, ev.nas, need) {
				s.bad++
				if s.why == "" {
					var opts []string
					for _, o := range []string{"IgnoreInconsistency", "IgnoreMissingChildren"} {
						switch m.optIs(st, ev.nas, o) {
						case c11T:
							opts = append(opts, o+" set")
						case c11F:
							opts = append(opts, o+" not set")
						}
					}
					s.why = "`" + src(r.P.Fset, ev.node) + "` (" + r.P.Rel(ev.node.Pos()) + ") is reached on a path (" + strings.Join(opts, ", ") + ") that has neither decided len(child) > " + itoaC11(need-1) + " nor obtained a non-nil version from a selector on the list"
				}
			}
		}
	}
	var keys []string
	for k := range sites {
		keys = append(keys, k)
	}
	sort.Strings(keys)
	if len(keys) == 0 {
		r.OKTrivial("nonempty@Compute", m.fi.Decl.Pos(), "the fetched child list is never read at a constant or length-relative position")
		return
	}
	for _, k := range keys {
		s := sites[k]
		if s.bad > 0 {
			r.Bad(k, s.pos, "%s: a child whose history is present but empty (zero versions) makes Compute panic with an index out of range instead of being ignored / reported as a typed error (%d of %d paths reaching the read)", s.why, s.bad, s.n)
		} else {
			r.OK(k, s.pos, "on all %d paths reaching the read the list is known to be long enough (a length decision or a non-nil selector result precedes it)", s.n)
		}
	}
}

// longEnough: the first upto decisions of the path establish len(child) >= need.
func (m *c11Model) longEnough(st *c11St, upto, need int) bool {
	lenC := &c11V{k: "call", name: "len", xs: []*c11V{m.childT}}
	// len > need-1, in the spellings the normaliser does not unify
	for n := need - 1; n >= 0 && n >= need-1; n-- {
		if st.truthAt(c11Bin(token.LSS, c11Int(int64(n)), lenC), upto, nil) == c11T {
			return true
		}
	}
	if st.truthAt(c11Bin(token.LSS, lenC, c11Int(int64(need))), upto, nil) == c11F {
		return true // !(len < need)
	}
	if need == 1 {
		if st.truthAt(c11Bin(token.EQL, lenC, c11Int(0)), upto, nil) == c11F {
			return true // len != 0
		}
		// a selector on the list returned one of its elements
		for _, ev := range st.ev {
			if ev.kind != "call" || ev.nas > upto {
				continue
			}
			if _, ok := m.selector(ev.call); ok && st.isNil(ev.call, upto) == c11F {
				return true
			}
		}
	}
	return false
}

func itoaC11(n int) string {
	if n == 0 {
		return "0"
	}
	s := ""
	for n > 0 {
		s = string(rune('0'+n%10)) + s
		n /= 10
	}
	return s
}
