package rules

import (
	"fmt"
	"go/ast"
	"go/token"
	"go/types"
	"sort"
	"strings"

	"golang.org/x/tools/go/cfg"
	"golang.org/x/tools/go/packages"

	"osmcheck/core"
)

func init() {
	register(&core.Property{
		ID:    "C07",
		Title: "Close and cancellation stop PBF/XML scans promptly, cleanly and race-free",
		Explanation: "Decided on the pipeline model derived from osmpbf/decode.go (spawner, 3 goroutine roles, channels, cancellable context, wait group) and on both scanners, for every path and every schedule because the rules are about which role can touch what and which operations can block: " +
			"(P1) wg.Add equals the number of goroutines started, every goroutine defers wg.Done, Close cancels before it waits, the serializer's deferred function closes the ordered queue, Scanner.Close sets closed before delegating; " +
			"(P2) every channel operation is cancellable (select with the decoder's Done case) or is a receive/range on a channel closed by a deferred close of a goroutine that itself terminates, or a bare send whose receivers are range loops; " +
			"(P3) the only source loop (the reader) has a condition that is false once the context is cancelled, so at most one further block is read after Close; " +
			"(P4) the input reader is only touched by the reader role (and by the spawner before any goroutine exists); " +
			"(P5) no decoder/Scanner field is written in one role and accessed in another unless it is a sync primitive, only written before the accessing role is started, or only accessed through sync/atomic; " +
			"(P6) Scan returns false before touching the input when an error is stored, the scanner is closed or the context is cancelled, and Err tests EOF, stored error, closed, context in that order, identically in osmpbf and osmxml. " +
			"NOT decided: wall-clock promptness, termination when the user's reader or filter blocks forever, races inside user callbacks or inside libraries.",
		Assumptions: []string{"go/types, go/cfg (x/tools v0.29.0)", "Go memory model: go statement, channel close/receive, sync.WaitGroup, context are synchronising", "static call graph inside package osmpbf (no function values besides the go closures and user filters)"},
		LevelText:   "Structural necessary conditions of clean cancellation and race freedom, decided for all schedules by role/ownership and blocking-operation analysis of the pipeline (lifecycle pairing, cancellable channel operations, cancellation-responsive source loop, reader ownership, per-field role separation, Scan/Err protocol).",
		LevelNote:   "Trusts the type checker, go/cfg, the Go memory model for go/close/WaitGroup/context, and a static intra-package call graph. Does not decide timing or behaviour of user-supplied readers/filters.",
		Technique:   "pipeline-model extraction (goroutine roles, channel classes) + typestate/ownership rules per field and per channel operation + three-valued loop-condition evaluation + CFG dominance",
		DesignRef:   "DESIGN.md §3.1, §5 C07",
		Rules: []*core.Rule{
			{ID: "P1", Floor: 8, Doc: "goroutine lifecycle: Add/Done pairing, cancel before Wait, deferred close of the ordered queue, Close sets closed first", Run: c07P1},
			{ID: "P2", Floor: 7, Doc: "no unguarded blocking channel operation", Run: c07P2},
			{ID: "P3", Floor: 3, Doc: "loops of the goroutines stop once the context is cancelled", Run: c07P3},
			{ID: "P4", Floor: 3, Doc: "the input reader is only used by the reader role / before spawning", Run: c07P4},
			{ID: "P5", Floor: 20, Doc: "per-field role separation of decoder and Scanner state", Run: c07P5},
			{ID: "P6", Floor: 10, Doc: "Scan/Err protocol of both scanners", Run: c07P6},
		},
		Mutants: []core.Mutant{
			{Name: "reader-loop-or", File: "osmpbf/decode.go", Find: "for dec.ctx.Err() == nil && err == nil {", Replace: "for dec.ctx.Err() == nil || err == nil {", ExpectRule: "P3", ExpectConstruct: "reader"},
			{Name: "reader-loop-no-ctx", File: "osmpbf/decode.go", Find: "for dec.ctx.Err() == nil && err == nil {", Replace: "for err == nil {", ExpectRule: "P3", ExpectConstruct: "reader"},
			{Name: "worker-send-unguarded", File: "osmpbf/decode.go", Find: "\t\t\t\tselect {\n\t\t\t\tcase output <- out:\n\t\t\t\tcase <-dec.ctx.Done():\n\t\t\t\t}", Replace: "\t\t\t\toutput <- out", ExpectRule: "P2", ExpectConstruct: "send outputs"},
			// (a bare `input <- pair` in the reader is NOT a mutant: workers drain their input with an unconditional range loop, so that send always completes)
			{Name: "serializer-done-no-return", File: "osmpbf/decode.go", Find: "\t\t\tcase p = <-output:\n\t\t\tcase <-dec.ctx.Done():\n\t\t\t\treturn\n\t\t\t}\n\n\t\t\tselect {\n\t\t\tcase dec.serializer <- p:\n\t\t\tcase <-dec.ctx.Done():\n\t\t\t\treturn\n", Replace: "\t\t\tcase p = <-output:\n\t\t\tcase <-dec.ctx.Done():\n\t\t\t}\n\n\t\t\tselect {\n\t\t\tcase dec.serializer <- p:\n\t\t\tcase <-dec.ctx.Done():\n", ExpectRule: "P3", ExpectConstruct: "serializer"},
			{Name: "worker-no-done", File: "osmpbf/decode.go", Find: "\t\t\tdefer close(output)\n\t\t\tdefer dec.wg.Done()\n", Replace: "\t\t\tdefer close(output)\n", ExpectRule: "P1", ExpectConstruct: "worker"},
			{Name: "add-n-plus-1", File: "osmpbf/decode.go", Find: "dec.wg.Add(n + 2)", Replace: "dec.wg.Add(n + 1)", ExpectRule: "P1", ExpectConstruct: "wg.Add"},
			{Name: "close-without-cancel", File: "osmpbf/decode.go", Find: "\tdec.cancel()\n\tdec.wg.Wait()", Replace: "\tdec.wg.Wait()", ExpectRule: "P1", ExpectConstruct: "Close"},
			{Name: "close-wait-before-cancel", File: "osmpbf/decode.go", Find: "\tdec.cancel()\n\tdec.wg.Wait()", Replace: "\tdec.wg.Wait()\n\tdec.cancel()", ExpectRule: "P1", ExpectConstruct: "Close"},
			{Name: "serializer-no-close", File: "osmpbf/decode.go", Find: "\t\t\tclose(dec.serializer)\n\t\t\tdec.cancel()", Replace: "\t\t\tdec.cancel()", ExpectRule: "P1", ExpectConstruct: "serializer"},
			{Name: "reader-no-close-inputs", File: "osmpbf/decode.go", Find: "\t\t\tfor _, input := range dec.inputs {\n\t\t\t\tclose(input)\n\t\t\t}", Replace: "", ExpectRule: "P2", ExpectConstruct: "range inputs"},
			{Name: "scanner-close-order", File: "osmpbf/scanner.go", Find: "\ts.closed = true\n\treturn s.decoder.Close()", Replace: "\terr := s.decoder.Close()\n\ts.closed = true\n\treturn err", ExpectRule: "P1", ExpectConstruct: "Scanner).Close"},
			{Name: "serializer-writes-cdata", File: "osmpbf/decode.go", Find: "\t\t\tcase p = <-output:\n\t\t\tcase <-dec.ctx.Done():\n\t\t\t\treturn\n", Replace: "\t\t\tcase p = <-output:\n\t\t\tcase <-dec.ctx.Done():\n\t\t\t\tdec.cData.Err = dec.ctx.Err()\n\t\t\t\treturn\n", ExpectRule: "P5", ExpectConstruct: "cData"},
			{Name: "worker-touches-bytesRead", File: "osmpbf/decode.go", Find: "\t\t\t\tvar out oPair\n", Replace: "\t\t\t\tvar out oPair\n\t\t\t\tdec.bytesRead++\n", ExpectRule: "P5", ExpectConstruct: "bytesRead"},
			{Name: "next-reads-input", File: "osmpbf/decode.go", Find: "\t\tdec.pOffset = dec.cOffset\n", Replace: "\t\tdec.readBlobHeaderSize(make([]byte, 4))\n\t\tdec.pOffset = dec.cOffset\n", ExpectRule: "P4", ExpectConstruct: "readBlobHeaderSize"},
			{Name: "scan-ignores-closed", File: "osmpbf/scanner.go", Find: "if s.err != nil || s.closed || s.ctx.Err() != nil {", Replace: "if s.err != nil || s.ctx.Err() != nil {", ExpectRule: "P6", ExpectConstruct: "osmpbf.(*Scanner).Scan"},
			{Name: "err-closed-before-stored", File: "osmpbf/scanner.go", Find: "\tif s.err != nil {\n\t\treturn s.err\n\t}\n\n\tif s.closed {\n\t\treturn osm.ErrScannerClosed\n\t}", Replace: "\tif s.closed {\n\t\treturn osm.ErrScannerClosed\n\t}\n\n\tif s.err != nil {\n\t\treturn s.err\n\t}", ExpectRule: "P6", ExpectConstruct: "osmpbf.(*Scanner).Err"},
			{Name: "xml-scan-ctx-after-token", File: "osmxml/scanner.go", Find: "\t\tif s.ctx.Err() != nil {\n\t\t\treturn false\n\t\t}\n\n\t\tt, err := s.decoder.Token()", Replace: "\t\tt, err := s.decoder.Token()", ExpectRule: "P6", ExpectConstruct: "osmxml.(*Scanner).Scan"},
			{Name: "xml-close-no-cancel", File: "osmxml/scanner.go", Find: "\ts.closed = true\n\ts.done()\n", Replace: "\ts.closed = true\n", ExpectRule: "P1", ExpectConstruct: "osmxml"},
			{Name: "xml-err-eof-reported", File: "osmxml/scanner.go", Find: "\tif s.err == io.EOF {\n\t\treturn nil\n\t}\n\n\tif s.err != nil {\n\t\treturn s.err\n\t}\n\n\tif s.closed {", Replace: "\tif s.err != nil {\n\t\treturn s.err\n\t}\n\n\tif s.closed {", ExpectRule: "P6", ExpectConstruct: "osmxml.(*Scanner).Err"},
		},
	})
}

func modelOrAnchor(r *core.R) *pbfModel {
	m := getPBFModel(r.P)
	for _, e := range m.errs {
		r.Anchor("pipeline model: " + e)
	}
	if len(m.errs) > 0 {
		return nil
	}
	return m
}

// ---------------------------------------------------------------- P1

func c07P1(r *core.R) {
	m := modelOrAnchor(r)
	if m == nil {
		return
	}
	info := m.info
	r.Stat("go_statements", len(m.gos))
	// (a) wg.Add(L*n + K)
	var addCall *ast.CallExpr
	ast.Inspect(m.start.Decl.Body, func(n ast.Node) bool {
		if call, ok := n.(*ast.CallExpr); ok && isMethod(callee(info, call), "sync.WaitGroup", "Add") {
			if s, ok := call.Fun.(*ast.SelectorExpr); ok && fieldOf(info, s.X) == m.wgField {
				if addCall != nil {
					r.Unknown("wg.Add", call.Pos(), "more than one wg.Add in the spawner")
				}
				addCall = call
			}
		}
		return true
	})
	nLoop, nStraight := 0, 0
	var loop *ast.ForStmt
	for _, g := range m.gos {
		if g.inLoop != nil {
			nLoop++
			if loop != nil && loop != g.inLoop {
				r.Unknown("wg.Add", g.stmt.Pos(), "go statements in more than one loop")
			}
			loop = g.inLoop
		} else {
			nStraight++
		}
	}
	if addCall == nil {
		r.Bad("wg.Add@"+m.start.Name(), m.start.Decl.Pos(), "the spawner never calls wg.Add: Close's wg.Wait does not wait for the goroutines")
	} else {
		c := "wg.Add@" + m.start.Name()
		ok, why := false, ""
		var nObj types.Object
		var k int64 = -1
		if be, isBin := ast.Unparen(addCall.Args[0]).(*ast.BinaryExpr); isBin && be.Op == token.ADD {
			if v, isC := constInt(info, be.Y); isC && objOf(info, be.X) != nil {
				nObj, k = objOf(info, be.X), v
			} else if v, isC := constInt(info, be.X); isC && objOf(info, be.Y) != nil {
				nObj, k = objOf(info, be.Y), v
			}
		} else if v, isC := constInt(info, addCall.Args[0]); isC && loop == nil {
			k = v
		}
		switch {
		case loop != nil && nLoop != 1:
			why = fmt.Sprintf("%d go statements per loop iteration; the rule knows `n + K` only", nLoop)
		case loop != nil && nObj == nil:
			why = "argument is not `n + K`"
		case k != int64(nStraight):
			why = fmt.Sprintf("adds a constant %d but %d goroutine(s) are started outside the loop", k, nStraight)
		case loop != nil && !loopRunsNTimes(info, loop, nObj):
			why = "the spawning loop is not `for i := 0; i < " + nObj.Name() + "; i++`"
		case loop != nil && countAssignsTo(info, m.start.Decl.Body, nObj, addCall.Pos(), m.start.Decl.End()) > 0:
			why = nObj.Name() + " is reassigned after wg.Add"
		default:
			ok = true
		}
		for _, g := range m.gos {
			if g.stmt.Pos() < addCall.Pos() {
				ok, why = false, "a go statement precedes wg.Add"
			}
		}
		if ok {
			r.OK(c, addCall.Pos(), "`%s`: %d goroutine per iteration of a loop that runs n times + %d straight-line go statements; Add precedes every go statement", src(r.P.Fset, addCall), nLoop, nStraight)
		} else {
			r.Bad(c, addCall.Pos(), "`%s` does not equal the number of goroutines started (%s): Close either returns while goroutines run or blocks forever", src(r.P.Fset, addCall), why)
		}
	}
	// (b) defer wg.Done() at top level of each closure
	for _, g := range m.gos {
		c := "done@" + m.units[g.lit].name
		n := 0
		for _, st := range g.lit.Body.List {
			if ds, ok := st.(*ast.DeferStmt); ok && isMethod(callee(info, ds.Call), "sync.WaitGroup", "Done") {
				if s, ok := ds.Call.Fun.(*ast.SelectorExpr); ok && fieldOf(info, s.X) == m.wgField {
					n++
				}
			}
		}
		total := 0
		ast.Inspect(g.lit.Body, func(x ast.Node) bool {
			if call, ok := x.(*ast.CallExpr); ok && isMethod(callee(info, call), "sync.WaitGroup", "Done") {
				total++
			}
			return true
		})
		if n == 1 && total == 1 {
			r.OK(c, g.stmt.Pos(), "closure defers wg.Done() unconditionally, exactly once")
		} else {
			r.Bad(c, g.stmt.Pos(), "goroutine has %d unconditional `defer wg.Done()` and %d Done calls in total; exactly one deferred Done is required or Close's Wait never returns / panics", n, total)
		}
	}
	// (c) decoder.Close: cancel dominates Wait
	if closeFi := findFunc(m.pk, "(*"+m.decoderT.Obj().Name()+").Close"); closeFi == nil {
		r.Anchor("decoder Close method")
	} else {
		checkCancelBeforeWait(r, m.pk, closeFi, m.cancelField, m.wgField, "close@osmpbf."+closeFi.Name())
	}
	// (d) serializer: deferred close of the channel the consumer receives from
	ops := m.chanOps()
	consumerRecv := map[string]bool{}
	for _, op := range ops {
		if (op.kind == "recv" || op.kind == "range") && op.u.roles["consumer"] {
			consumerRecv[op.class] = true
		}
	}
	if len(consumerRecv) == 0 {
		r.Anchor("receive of the ordered queue in the consumer")
	}
	for cls := range consumerRecv {
		c := "queue-close@serializer " + cls
		found := false
		for _, op := range ops {
			if op.kind == "close" && op.class == cls {
				if op.defer_ && op.u.roles["serializer"] && len(op.u.roles) == 1 {
					found = true
					r.OK(c, op.pos, "the serializer goroutine closes %s in a deferred function, so the consumer's receive always terminates", cls)
				} else {
					r.Bad(c, op.pos, "%s is closed outside a deferred function of the serializer goroutine", cls)
					found = true
				}
			}
		}
		if !found {
			r.Bad(c, m.start.Decl.Pos(), "the ordered queue %s is never closed: the consumer's receive blocks forever after the pipeline stops", cls)
		}
	}
	// (e) Scanner.Close sets closed before delegating (osmpbf) / cancels (osmxml)
	for _, rel := range []string{"osmpbf", "osmxml"} {
		pk := r.P.Pkg(rel)
		fi := findFunc(pk, "(*Scanner).Close")
		c := "close@" + rel + ".(*Scanner).Close"
		if fi == nil {
			r.Anchor(rel + ".(*Scanner).Close")
			continue
		}
		var setPos, stopPos token.Pos
		stopWhat := ""
		ast.Inspect(fi.Decl.Body, func(n ast.Node) bool {
			switch x := n.(type) {
			case *ast.AssignStmt:
				if len(x.Lhs) == 1 && len(x.Rhs) == 1 {
					if f := fieldOf(pk.TypesInfo, x.Lhs[0]); f != nil && f.Name() == "closed" {
						if id, ok := x.Rhs[0].(*ast.Ident); ok && id.Name == "true" {
							setPos = x.Pos()
						}
					}
				}
			case *ast.CallExpr:
				fn := callee(pk.TypesInfo, x)
				if fn != nil && fn.Name() == "Close" && fn.Pkg() == pk.Types {
					stopPos, stopWhat = x.Pos(), "decoder.Close()"
				}
				// call of a field of func type (cancel func)
				if f := fieldOf(pk.TypesInfo, x.Fun); f != nil {
					if _, ok := f.Type().Underlying().(*types.Signature); ok {
						if cancelPairedWithCtx(pk, f) {
							stopPos, stopWhat = x.Pos(), "cancel func paired with the scanner's context"
						}
					}
				}
			}
			return true
		})
		g := newCFG(pk.TypesInfo, fi.Decl.Body)
		dom := dominators(g)
		switch {
		case !setPos.IsValid():
			r.Bad(c, fi.Decl.Pos(), "Close does not set the closed flag: later Scan calls are not refused and Err cannot report ErrScannerClosed")
		case !stopPos.IsValid():
			r.Bad(c, fi.Decl.Pos(), "Close neither cancels the scanner's context nor closes the decoder: goroutines keep running / a blocked Scan is not released")
		case !posDominates(g, dom, setPos, stopPos):
			r.Bad(c, setPos, "the closed flag is set after %s: an error produced by shutting down would be attributed wrongly and Scan could still run during shutdown", stopWhat)
		default:
			r.OK(c, setPos, "closed = true dominates %s", stopWhat)
		}
	}
}

// cancelPairedWithCtx: field f is assigned as the cancel result of context.WithCancel together with a context field.
func cancelPairedWithCtx(pk *packages.Package, f *types.Var) bool {
	ok := false
	for _, fi := range allFuncs(pk) {
		ast.Inspect(fi.Decl.Body, func(n ast.Node) bool {
			as, isAs := n.(*ast.AssignStmt)
			if !isAs || len(as.Lhs) != 2 || len(as.Rhs) != 1 {
				return true
			}
			call, isCall := as.Rhs[0].(*ast.CallExpr)
			if !isCall || !isPkgFunc(callee(pk.TypesInfo, call), "context", "WithCancel") {
				return true
			}
			if fieldOf(pk.TypesInfo, as.Lhs[1]) == f {
				if cf := fieldOf(pk.TypesInfo, as.Lhs[0]); cf != nil && namedPath(cf.Type()) == "context.Context" {
					ok = true
				}
			}
			return true
		})
	}
	return ok
}

func loopRunsNTimes(info *types.Info, loop *ast.ForStmt, n types.Object) bool {
	init, ok := loop.Init.(*ast.AssignStmt)
	if !ok || len(init.Lhs) != 1 || len(init.Rhs) != 1 {
		return false
	}
	i := objOf(info, init.Lhs[0])
	if v, ok := constInt(info, init.Rhs[0]); !ok || v != 0 || i == nil {
		return false
	}
	cond, ok := loop.Cond.(*ast.BinaryExpr)
	if !ok || cond.Op != token.LSS || objOf(info, cond.X) != i || objOf(info, cond.Y) != n {
		return false
	}
	post, ok := loop.Post.(*ast.IncDecStmt)
	if !ok || post.Tok != token.INC || objOf(info, post.X) != i {
		return false
	}
	// neither i nor n assigned in the body
	bad := false
	ast.Inspect(loop.Body, func(x ast.Node) bool {
		switch s := x.(type) {
		case *ast.AssignStmt:
			for _, l := range s.Lhs {
				if o := objOf(info, l); o == i || o == n {
					bad = true
				}
			}
		case *ast.IncDecStmt:
			if o := objOf(info, s.X); o == i || o == n {
				bad = true
			}
		case *ast.BranchStmt:
			if s.Tok == token.BREAK || s.Tok == token.GOTO {
				bad = true
			}
		case *ast.FuncLit:
			return false
		}
		return true
	})
	return !bad
}

func checkCancelBeforeWait(r *core.R, pk *packages.Package, fi *FuncInfo, cancelField, wgField *types.Var, c string) {
	info := pk.TypesInfo
	var cancelPos, waitPos token.Pos
	ast.Inspect(fi.Decl.Body, func(n ast.Node) bool {
		call, ok := n.(*ast.CallExpr)
		if !ok {
			return true
		}
		if f := fieldOf(info, call.Fun); f != nil && f == cancelField {
			cancelPos = call.Pos()
		}
		if isMethod(callee(info, call), "sync.WaitGroup", "Wait") {
			if s, ok := call.Fun.(*ast.SelectorExpr); ok && fieldOf(info, s.X) == wgField {
				waitPos = call.Pos()
			}
		}
		return true
	})
	g := newCFG(info, fi.Decl.Body)
	dom := dominators(g)
	switch {
	case !waitPos.IsValid():
		r.Bad(c, fi.Decl.Pos(), "Close does not wait for the goroutines (no wg.Wait): goroutines may outlive Close")
	case !cancelPos.IsValid():
		r.Bad(c, fi.Decl.Pos(), "Close waits without cancelling the context: it blocks until the whole input has been read")
	case !posDominates(g, dom, cancelPos, waitPos):
		r.Bad(c, waitPos, "wg.Wait is not dominated by the cancel call: Close blocks until the whole input has been read")
	default:
		r.OK(c, cancelPos, "cancel() dominates wg.Wait()")
	}
}

// ---------------------------------------------------------------- P2

func c07P2(r *core.R) {
	m := modelOrAnchor(r)
	if m == nil {
		return
	}
	ops := m.chanOps()
	r.Stat("channel_operations", len(ops))
	// per class: closes, receivers, senders
	byClass := map[string][]*chanOp{}
	for _, op := range ops {
		byClass[op.class] = append(byClass[op.class], op)
	}
	// a class is "closed by a terminating goroutine" when it has close sites, all deferred, all inside go closures
	closedByDefer := func(cls string) (bool, string) {
		n := 0
		for _, op := range byClass[cls] {
			if op.kind != "close" {
				continue
			}
			n++
			if !op.defer_ {
				return false, "close at " + r.P.Rel(op.pos) + " is not deferred"
			}
			if _, isLit := op.u.node.(*ast.FuncLit); !isLit {
				return false, "close at " + r.P.Rel(op.pos) + " is not in a pipeline goroutine"
			}
		}
		if n == 0 {
			return false, "the channel is never closed"
		}
		return true, ""
	}
	for _, op := range ops {
		if op.kind == "close" || op.kind == "done" {
			continue
		}
		c := fmt.Sprintf("%s %s@%s", op.kind, op.class, op.u.name)
		if strings.HasPrefix(op.class, "?") {
			r.Unknown(c, op.pos, "channel expression `%s` could not be tied to a decoder channel field", src(r.P.Fset, op.expr))
			continue
		}
		if op.sel != nil {
			if m.doneCase(op.sel) != nil {
				r.OK(c, op.pos, "in a select with a `<-dec.ctx.Done()` case on the decoder's cancellable context")
			} else {
				r.Bad(c, op.pos, "select has no `<-dec.ctx.Done()` case: the operation blocks forever once the peer has stopped after Close/cancel")
			}
			continue
		}
		switch op.kind {
		case "recv", "range":
			if ok, why := closedByDefer(op.class); ok {
				r.OK(c, op.pos, "bare %s on %s, which is closed by a deferred close in the producing goroutine (whose own termination is P2/P3)", op.kind, op.class)
			} else {
				r.Bad(c, op.pos, "bare %s on %s can block forever: %s", op.kind, op.class, why)
			}
		case "send":
			// every receiver of the class must be a range loop in a go closure
			okRecv, n := true, 0
			for _, o2 := range byClass[op.class] {
				if o2.kind == "recv" || o2.kind == "range" {
					n++
					if o2.kind != "range" {
						okRecv = false
					}
					if _, isLit := o2.u.node.(*ast.FuncLit); !isLit {
						okRecv = false
					}
				}
			}
			if okRecv && n > 0 {
				r.OK(c, op.pos, "bare send on %s whose only receivers are `for range` loops of worker goroutines that outlive the sender (the sender closes the channel on exit)", op.class)
			} else {
				r.Bad(c, op.pos, "bare send on %s is not cancellable and its receivers are not unconditional range loops: it can block forever after Close/cancel", op.class)
			}
		}
	}
}

// ---------------------------------------------------------------- P3

// tri is a three-valued truth value.
type tri int

const (
	triF tri = iota
	triT
	triU
)

func triNot(a tri) tri {
	switch a {
	case triF:
		return triT
	case triT:
		return triF
	}
	return triU
}
func triAnd(a, b tri) tri {
	if a == triF || b == triF {
		return triF
	}
	if a == triT && b == triT {
		return triT
	}
	return triU
}
func triOr(a, b tri) tri { return triNot(triAnd(triNot(a), triNot(b))) }

// evalTri evaluates a boolean expression with an oracle for atoms.
func evalTri(e ast.Expr, atom func(ast.Expr) tri) tri {
	e = ast.Unparen(e)
	switch x := e.(type) {
	case *ast.BinaryExpr:
		switch x.Op {
		case token.LAND:
			return triAnd(evalTri(x.X, atom), evalTri(x.Y, atom))
		case token.LOR:
			return triOr(evalTri(x.X, atom), evalTri(x.Y, atom))
		}
	case *ast.UnaryExpr:
		if x.Op == token.NOT {
			return triNot(evalTri(x.X, atom))
		}
	}
	return atom(e)
}

// cancelledAtom gives the value of an atom under "the decoder's context is cancelled".
func (m *pbfModel) cancelledAtom(e ast.Expr) tri {
	be, ok := ast.Unparen(e).(*ast.BinaryExpr)
	if !ok {
		return triU
	}
	isNil := func(x ast.Expr) bool { id, ok := ast.Unparen(x).(*ast.Ident); return ok && id.Name == "nil" }
	var other ast.Expr
	switch {
	case isNil(be.Y):
		other = be.X
	case isNil(be.X):
		other = be.Y
	default:
		return triU
	}
	if !m.isCtxErrCall(other) {
		return triU
	}
	switch be.Op {
	case token.EQL:
		return triF // ctx.Err() == nil is false once cancelled
	case token.NEQ:
		return triT
	}
	return triU
}

func c07P3(r *core.R) {
	m := modelOrAnchor(r)
	if m == nil {
		return
	}
	for _, g := range m.gos {
		u := m.units[g.lit]
		nloops := 0
		m.walkUnit(u, func(n ast.Node) bool {
			switch l := n.(type) {
			case *ast.RangeStmt:
				t := m.info.TypeOf(l.X)
				if _, isChan := t.Underlying().(*types.Chan); isChan {
					nloops++
					// relay loop over an upstream channel: terminates when upstream closes (P2 proves the close)
					r.OK("loop@"+u.name+" range "+m.chanClass(u, l.X), l.Pos(), "relay loop ends when the upstream channel is closed by its producer's deferred close")
				}
				// ranges over slices are bounded
			case *ast.ForStmt:
				nloops++
				c := "loop@" + u.name + " for"
				// does every iteration pass a select with a Done case that leaves the goroutine?
				if l.Cond != nil {
					v := evalTri(l.Cond, m.cancelledAtom)
					if v == triF {
						r.OK(c, l.Pos(), "loop condition `%s` is false once the decoder's context is cancelled: at most the block being read is consumed after Close/cancel", src(r.P.Fset, l.Cond))
						return true
					}
				}
				if ok, why := m.everyCycleLeavesOnDone(u, l); ok {
					r.OK(c, l.Pos(), "every cycle passes a select whose `<-dec.ctx.Done()` case leaves the goroutine (%s)", why)
					return true
				}
				cond := "<none>"
				if l.Cond != nil {
					cond = src(r.P.Fset, l.Cond)
				}
				r.Bad(c, l.Pos(), "loop condition `%s` stays possibly true after cancellation (substituting ctx.Err()==nil := false does not make it false) and no cycle is forced out by a Done case that returns: the goroutine keeps running (and, in the reader, keeps consuming input) after Close/cancel", cond)
			}
			return true
		})
		r.Stat("goroutine_loops", nloops)
	}
}

// everyCycleLeavesOnDone: in the CFG of the closure, every cycle through the loop body passes a block that
// belongs to a select with a Done clause whose body always returns.
func (m *pbfModel) everyCycleLeavesOnDone(u *unit, loop *ast.ForStmt) (bool, string) {
	// collect selects directly in the loop body (not nested in conditionals) whose Done clause ends in return
	n := 0
	for _, st := range loop.Body.List {
		sel, ok := st.(*ast.SelectStmt)
		if !ok {
			continue
		}
		cc := m.doneCase(sel)
		if cc == nil {
			continue
		}
		if len(cc.Body) > 0 {
			if _, isRet := cc.Body[len(cc.Body)-1].(*ast.ReturnStmt); isRet {
				n++
			}
		}
	}
	if n > 0 {
		// no `continue` may bypass the selects: conservatively require that no continue statement precedes the first such select
		bypass := false
		first := token.NoPos
		for _, st := range loop.Body.List {
			if sel, ok := st.(*ast.SelectStmt); ok && m.doneCase(sel) != nil {
				first = sel.Pos()
				break
			}
		}
		ast.Inspect(loop.Body, func(x ast.Node) bool {
			if b, ok := x.(*ast.BranchStmt); ok && b.Tok == token.CONTINUE && b.Pos() < first {
				bypass = true
			}
			return true
		})
		if !bypass {
			return true, fmt.Sprintf("%d unconditional select(s) at the top level of the loop body", n)
		}
	}
	return false, ""
}

// ---------------------------------------------------------------- P4

func c07P4(r *core.R) {
	m := modelOrAnchor(r)
	if m == nil {
		return
	}
	// units that use a decoder field of type io.Reader
	var rField *types.Var
	st := m.decoderT.Underlying().(*types.Struct)
	for i := 0; i < st.NumFields(); i++ {
		if namedPath(st.Field(i).Type()) == "io.Reader" {
			rField = st.Field(i)
		}
	}
	if rField == nil {
		r.Anchor("decoder field of type io.Reader")
		return
	}
	// consumer reachability that does not go through the spawner
	noStart := map[*unit]bool{}
	var rec func(u *unit)
	rec = func(u *unit) {
		if u == nil || noStart[u] || u.node == m.start.Decl {
			return
		}
		noStart[u] = true
		for _, fn := range u.calls {
			rec(m.unitOfFunc(fn))
		}
	}
	for _, u := range m.units {
		if fd, ok := u.node.(*ast.FuncDecl); ok {
			obj := m.info.Defs[fd.Name].(*types.Func)
			if obj.Exported() && u.roles["consumer"] {
				rec(u)
			}
		}
	}
	firstGo := token.Pos(1 << 40)
	for _, g := range m.gos {
		if g.stmt.Pos() < firstGo {
			firstGo = g.stmt.Pos()
		}
	}
	n := 0
	for _, u := range m.sortedUnits() {
		uses := false
		m.walkUnit(u, func(x ast.Node) bool {
			if sel, ok := x.(*ast.SelectorExpr); ok {
				if s := m.info.Selections[sel]; s != nil && s.Obj() == rField {
					uses = true
				}
			}
			return true
		})
		if !uses {
			continue
		}
		n++
		c := "reader-use@" + u.name
		switch {
		case u.roles["worker"] || u.roles["serializer"]:
			r.Bad(c, u.node.Pos(), "the input reader is used in role(s) %v: reads race with the reader goroutine and blocks are consumed out of order", rolesOf(u))
		case noStart[u]:
			r.Bad(c, u.node.Pos(), "%s reads the input and is reachable from the consumer API without going through the spawner: it runs concurrently with the reader goroutine", u.name)
		default:
			r.OK(c, u.node.Pos(), "uses dec.%s; reachable only from the reader goroutine and from the spawner (roles %v)", rField.Name(), rolesOf(u))
		}
	}
	// the spawner's own calls that reach a reader-using unit must precede every go statement
	startU := m.units[m.start.Decl]
	m.walkUnit(startU, func(x ast.Node) bool {
		call, ok := x.(*ast.CallExpr)
		if !ok {
			return true
		}
		fn := callee(m.info, call)
		if fn == nil || fn.Pkg() != m.pk.Types {
			return true
		}
		tu := m.unitOfFunc(fn)
		if tu == nil || !m.unitReaches(tu, func(y *unit) bool { return m.unitCalls(y, "io", "ReadFull") }) {
			return true
		}
		n++
		c := "prespawn-read@" + m.start.Name() + " " + fn.Name()
		if call.Pos() < firstGo {
			r.OK(c, call.Pos(), "synchronous read in the spawner precedes every go statement")
		} else {
			r.Bad(c, call.Pos(), "the spawner reads the input after goroutines were started: concurrent with the reader goroutine")
		}
		return true
	})
	r.Stat("units_using_input_reader", n)
}

// ---------------------------------------------------------------- P5

type fieldAccess struct {
	f      *types.Var
	u      *unit
	write  bool
	atomic bool
	method string // method called on the field (sync primitives)
	pos    token.Pos
}

// fieldAccesses collects accesses to fields of the given struct types in package pk's units.
func (m *pbfModel) fieldAccesses(owners map[string]bool) []fieldAccess {
	var out []fieldAccess
	for _, u := range m.sortedUnits() {
		u := u
		par := parentsOf(m.p, u.fi)
		m.walkUnit(u, func(n ast.Node) bool {
			sel, ok := n.(*ast.SelectorExpr)
			if !ok {
				return true
			}
			s := m.info.Selections[sel]
			if s == nil || s.Kind() != types.FieldVal {
				return true
			}
			if !owners[namedPath(s.Recv())] {
				return true
			}
			f := s.Obj().(*types.Var)
			fa := fieldAccess{f: f, u: u, pos: sel.Pos()}
			// climb to the top of the access path
			var top ast.Node = sel
			for {
				p := par[top]
				if ps, ok := p.(*ast.SelectorExpr); ok && ps.X == top {
					if ms := m.info.Selections[ps]; ms != nil && ms.Kind() == types.MethodVal {
						fa.method = ms.Obj().Name()
						break
					}
					top = ps
					continue
				}
				if pi, ok := p.(*ast.IndexExpr); ok && pi.X == top {
					top = pi
					continue
				}
				if pp, ok := p.(*ast.ParenExpr); ok {
					top = pp
					continue
				}
				break
			}
			switch p := par[top].(type) {
			case *ast.AssignStmt:
				for _, l := range p.Lhs {
					if l == top {
						fa.write = true
					}
				}
			case *ast.IncDecStmt:
				fa.write = true
			case *ast.UnaryExpr:
				if p.Op == token.AND {
					if call, ok := par[p].(*ast.CallExpr); ok {
						if fn := callee(m.info, call); fn != nil && fn.Pkg() != nil && fn.Pkg().Path() == "sync/atomic" {
							fa.atomic = true
							if strings.HasPrefix(fn.Name(), "Store") || strings.HasPrefix(fn.Name(), "Add") || strings.HasPrefix(fn.Name(), "Swap") || strings.HasPrefix(fn.Name(), "CompareAndSwap") {
								fa.write = true
							}
						} else {
							fa.write = true // address escapes: treat as write
						}
					} else {
						fa.write = true
					}
				}
			}
			out = append(out, fa)
			return true
		})
	}
	return out
}

func c07P5(r *core.R) {
	m := modelOrAnchor(r)
	if m == nil {
		return
	}
	pbfRoleSeparation(r, m, false)
}

// pbfRoleSeparation is the per-field role analysis shared by C07.P5 and C02.Q5. With skipDone the accesses that are
// control-dependent on a `<-ctx.Done()` case are ignored (C02 quantifies over schedules of an uncancelled scan).
func pbfRoleSeparation(r *core.R, m *pbfModel, skipDone bool) {
	owners := map[string]bool{namedPath(m.decoderT): true, namedPath(m.scannerT): true}
	acc := m.fieldAccesses(owners)
	if skipDone {
		var kept []fieldAccess
		for _, a := range acc {
			if !m.underDoneCase(a) {
				kept = append(kept, a)
			}
		}
		acc = kept
	}
	r.Stat("field_accesses", len(acc))
	// consumer units reachable without passing the spawner (i.e. possibly concurrent with the goroutines)
	noStart := map[*unit]bool{}
	var rec func(u *unit)
	rec = func(u *unit) {
		if u == nil || noStart[u] || u.node == m.start.Decl {
			return
		}
		noStart[u] = true
		for _, fn := range u.calls {
			rec(m.unitOfFunc(fn))
		}
	}
	for _, u := range m.units {
		if fd, ok := u.node.(*ast.FuncDecl); ok && u.roles["consumer"] {
			if obj, _ := m.info.Defs[fd.Name].(*types.Func); obj != nil && obj.Exported() {
				rec(u)
			}
		}
	}
	startU := m.units[m.start.Decl]
	par := parentsOf(r.P, m.start)
	// role instances of an access: goroutine roles plus "consumer" (concurrent) or "init" (spawner body / reached only via spawner)
	type inst struct {
		role string
		pos  token.Pos // for init: position in the spawner
	}
	// positions in the spawner from which a unit is reached
	initSites := map[*unit][]token.Pos{}
	m.walkUnit(startU, func(x ast.Node) bool {
		if call, ok := x.(*ast.CallExpr); ok {
			if fn := callee(m.info, call); fn != nil && fn.Pkg() == m.pk.Types {
				seen := map[*unit]bool{}
				var mark func(u *unit)
				mark = func(u *unit) {
					if u == nil || seen[u] {
						return
					}
					seen[u] = true
					initSites[u] = append(initSites[u], call.Pos())
					for _, f2 := range u.calls {
						mark(m.unitOfFunc(f2))
					}
				}
				mark(m.unitOfFunc(fn))
			}
		}
		return true
	})
	instances := func(a fieldAccess) []inst {
		var out []inst
		for _, role := range []string{"worker", "reader", "serializer"} {
			if a.u.roles[role] {
				out = append(out, inst{role: role})
			}
		}
		if a.u.roles["consumer"] {
			if a.u == startU {
				out = append(out, inst{role: "init", pos: a.pos})
			} else {
				if noStart[a.u] {
					out = append(out, inst{role: "consumer"})
				}
				for _, p := range initSites[a.u] {
					out = append(out, inst{role: "init", pos: p})
				}
			}
		}
		return out
	}
	// init access at pos happens-before role's goroutine iff pos precedes its go statement and no loop encloses both
	preSpawn := func(pos token.Pos, role string) bool {
		for _, g := range m.gos {
			if g.role != role {
				continue
			}
			if pos >= g.stmt.Pos() {
				return false
			}
			if g.inLoop != nil && g.inLoop.Pos() <= pos && pos <= g.inLoop.End() {
				return false
			}
		}
		_ = par
		return true
	}
	byField := map[*types.Var][]fieldAccess{}
	var fields []*types.Var
	for _, a := range acc {
		if _, ok := byField[a.f]; !ok {
			fields = append(fields, a.f)
		}
		byField[a.f] = append(byField[a.f], a)
	}
	// also list fields never accessed (for completeness of the table)
	for _, nt := range []*types.Named{m.decoderT, m.scannerT} {
		st := nt.Underlying().(*types.Struct)
		for i := 0; i < st.NumFields(); i++ {
			if _, ok := byField[st.Field(i)]; !ok {
				fields = append(fields, st.Field(i))
			}
		}
	}
	sort.Slice(fields, func(i, j int) bool { return fields[i].Pos() < fields[j].Pos() })
	for _, f := range fields {
		owner := "decoder"
		if stS := m.scannerT.Underlying().(*types.Struct); func() bool {
			for i := 0; i < stS.NumFields(); i++ {
				if stS.Field(i) == f {
					return true
				}
			}
			return false
		}() {
			owner = "Scanner"
		}
		c := "field " + owner + "." + f.Name()
		as := byField[f]
		if len(as) == 0 {
			r.OKTrivial(c, f.Pos(), "never accessed through a selector after construction")
			continue
		}
		if tp := namedPath(f.Type()); tp == "sync.WaitGroup" || tp == "sync.Mutex" || tp == "sync.RWMutex" || tp == "sync.Once" {
			// must not be assigned as a whole
			w := false
			for _, a := range as {
				if a.write && a.method == "" {
					w = true
				}
			}
			if w {
				r.Bad(c, f.Pos(), "sync primitive is copied or overwritten")
			} else {
				r.OKTrivial(c, f.Pos(), "sync primitive (%s), used only through its methods", tp)
			}
			continue
		}
		type ri struct {
			a fieldAccess
			i inst
		}
		var all []ri
		roles := map[string]bool{}
		nw := 0
		for _, a := range as {
			if a.write {
				nw++
			}
			for _, i := range instances(a) {
				all = append(all, ri{a, i})
				roles[i.role] = true
			}
		}
		var rl []string
		for k := range roles {
			rl = append(rl, k)
		}
		sort.Strings(rl)
		if nw == 0 {
			r.OKTrivial(c, f.Pos(), "read-only after construction (roles %v)", rl)
			continue
		}
		conflict := ""
		var cpos token.Pos
		for i := 0; i < len(all) && conflict == ""; i++ {
			for j := 0; j < len(all); j++ {
				x, y := all[i], all[j]
				if !x.a.write {
					continue
				}
				if x.a.atomic && y.a.atomic {
					continue
				}
				same := x.i.role == y.i.role
				if same && x.i.role != "worker" {
					continue // one goroutine per role (consumer: the caller's goroutine)
				}
				if same && x.i.role == "worker" && i == j {
					// several workers run the same code concurrently
					conflict = fmt.Sprintf("written at %s by the worker role, of which several instances run concurrently", r.P.Rel(x.a.pos))
					cpos = x.a.pos
					break
				}
				if same {
					continue
				}
				// init vs goroutine role: ordered when init precedes the spawn
				if x.i.role == "init" && y.i.role != "consumer" && y.i.role != "init" && preSpawn(x.i.pos, y.i.role) {
					continue
				}
				if y.i.role == "init" && x.i.role != "consumer" && x.i.role != "init" && preSpawn(y.i.pos, x.i.role) {
					continue
				}
				if (x.i.role == "init" || x.i.role == "consumer") && (y.i.role == "init" || y.i.role == "consumer") {
					continue // both on the caller's goroutine
				}
				conflict = fmt.Sprintf("written at %s in role %s and accessed at %s in role %s with no synchronisation between them (not a sync primitive, not written only before that role is started, not accessed through sync/atomic)",
					r.P.Rel(x.a.pos), x.i.role, r.P.Rel(y.a.pos), y.i.role)
				cpos = x.a.pos
				break
			}
		}
		if conflict != "" {
			r.Bad(c, cpos, "%s: a data race when the context is cancelled (or the schedule differs) while the consumer is scanning", conflict)
		} else {
			r.OK(c, f.Pos(), "%d accesses (%d writes) in roles %v: all cross-role pairs are ordered by spawn order or confined to one goroutine", len(as), nw, rl)
		}
	}
}

// underDoneCase: the access sits in the body of a select clause whose communication is `<-ctx.Done()`.
func (m *pbfModel) underDoneCase(a fieldAccess) bool {
	par := parentsOf(m.p, a.u.fi)
	var n ast.Node
	ast.Inspect(a.u.body, func(x ast.Node) bool {
		if x != nil && x.Pos() == a.pos {
			if _, ok := x.(*ast.SelectorExpr); ok && n == nil {
				n = x
			}
		}
		return true
	})
	for p := n; p != nil; p = par[p] {
		if cc, ok := p.(*ast.CommClause); ok && cc.Comm != nil {
			isDone := false
			ast.Inspect(cc.Comm, func(y ast.Node) bool {
				if call, ok := y.(*ast.CallExpr); ok && isMethod(callee(m.info, call), "context.Context", "Done") {
					isDone = true
				}
				return true
			})
			if isDone && n.Pos() > cc.Colon {
				return true
			}
		}
	}
	return false
}

// ---------------------------------------------------------------- P6

// errStep is one `if COND { return V }` of an Err method.
type errStep struct{ cond, ret string }

func c07P6(r *core.R) {
	var chains [][]errStep
	var names []string
	for _, rel := range []string{"osmpbf", "osmxml"} {
		pk := r.P.Pkg(rel)
		if pk == nil {
			r.Anchor("package " + rel)
			continue
		}
		info := pk.TypesInfo
		// ---- Err
		errFi := findFunc(pk, "(*Scanner).Err")
		if errFi == nil {
			r.Anchor(rel + ".(*Scanner).Err")
		} else {
			chain, why := parseErrChain(pk, errFi)
			c := rel + ".(*Scanner).Err"
			if why != "" {
				r.Unknown(c, errFi.Decl.Pos(), "Err is not a chain of `if COND { return V }` statements: %s", why)
			} else {
				want := []errStep{{"err==EOF", "nil"}, {"err!=nil", "err"}, {"closed", "ErrScannerClosed"}, {"", "ctx.Err()"}}
				ok := len(chain) == len(want)
				for i := 0; ok && i < len(want); i++ {
					if chain[i] != want[i] {
						ok = false
					}
				}
				if ok {
					r.OK(c, errFi.Decl.Pos(), "tests in order: stored EOF → nil, stored error → it, closed → ErrScannerClosed, else the context's error")
				} else {
					r.Bad(c, errFi.Decl.Pos(), "Err evaluates %v; the documented precedence is %v (an earlier recorded error wins over closed, closed over the context's error, nil only for a complete scan)", chain, want)
				}
				chains = append(chains, chain)
				names = append(names, c)
			}
		}
		// ---- Scan
		scanFi := findFunc(pk, "(*Scanner).Scan")
		if scanFi == nil {
			r.Anchor(rel + ".(*Scanner).Scan")
			continue
		}
		g := newCFG(info, scanFi.Decl.Body)
		dom := dominators(g)
		// input-touching calls: decoder method calls other than the spawner (osmpbf), Token/DecodeElement (osmxml)
		type touch struct {
			pos  token.Pos
			what string
		}
		var touches []touch
		ast.Inspect(scanFi.Decl.Body, func(n ast.Node) bool {
			call, ok := n.(*ast.CallExpr)
			if !ok {
				return true
			}
			fn := callee(info, call)
			if fn == nil {
				return true
			}
			if rel == "osmpbf" {
				m := getPBFModel(r.P)
				if m.next != nil && fn == m.next.Obj {
					touches = append(touches, touch{call.Pos(), "decoder." + fn.Name()})
				}
			} else if isMethod(fn, "encoding/xml.Decoder", "Token") || isMethod(fn, "encoding/xml.Decoder", "DecodeElement") || isMethod(fn, "encoding/xml.Decoder", "Decode") || isMethod(fn, "encoding/xml.Decoder", "RawToken") || isMethod(fn, "encoding/xml.Decoder", "Skip") {
				touches = append(touches, touch{call.Pos(), "xml.Decoder." + fn.Name()})
			}
			return true
		})
		if len(touches) == 0 {
			r.Anchor(rel + ".(*Scanner).Scan input-consuming call")
			continue
		}
		// guards: blocks ending in a condition whose true edge returns false, with their atoms
		need := []string{"err!=nil", "ctxErr"}
		if rel == "osmpbf" {
			need = []string{"err!=nil", "closed", "ctxErr"}
		}
		for _, t := range touches {
			c := rel + ".(*Scanner).Scan guard before " + t.what
			tb, _ := blockOf(g, t.pos)
			got := map[string]token.Pos{}
			for _, b := range g.Blocks {
				if !b.Live || len(b.Succs) != 2 || b == tb || !dom[tb][b] {
					continue
				}
				cond := lastExpr(b)
				if cond == nil {
					continue
				}
				// true edge must return false without reaching the touch
				tr := reachableFrom([]*cfg.Block{b.Succs[0]}, nil)
				if tr[tb] {
					continue
				}
				for _, a := range scanAtoms(info, cond) {
					// atom must be a disjunct: making it true makes the condition true
					if evalTri(cond, func(e ast.Expr) tri {
						if scanAtomName(info, e) == a {
							return triT
						}
						return triU
					}) == triT {
						got[a] = cond.Pos()
					}
				}
			}
			var missing []string
			for _, nd := range need {
				if _, ok := got[nd]; !ok {
					missing = append(missing, nd)
				}
			}
			// for the xml scanner the context test must be inside the token loop (on every cycle): it must be
			// dominated by the loop head, which holds when its block is in the loop body.
			if len(missing) == 0 {
				r.OK(c, t.pos, "dominated by tests of %v whose true edges return without reaching it", need)
			} else {
				r.Bad(c, t.pos, "the input is touched without first testing %v: Scan does work (and may block) after Close/cancel or after an error", missing)
			}
		}
		// osmxml: the ctx test must be re-evaluated on every cycle of the token loop
		if rel == "osmxml" {
			c := "osmxml.(*Scanner).Scan ctx test on every cycle"
			okCycle := false
			var loopPos token.Pos
			ast.Inspect(scanFi.Decl.Body, func(n ast.Node) bool {
				fs, ok := n.(*ast.ForStmt)
				if !ok {
					return true
				}
				loopPos = fs.Pos()
				// first statement of the loop body is the ctx test returning false
				if len(fs.Body.List) > 0 {
					if ifs, ok := fs.Body.List[0].(*ast.IfStmt); ok {
						for _, a := range scanAtoms(info, ifs.Cond) {
							if a == "ctxErr" && len(ifs.Body.List) == 1 {
								if _, isRet := ifs.Body.List[0].(*ast.ReturnStmt); isRet {
									okCycle = true
								}
							}
						}
					}
				}
				return false
			})
			if okCycle {
				r.OK(c, loopPos, "the token loop starts every cycle with `if s.ctx.Err() != nil { return false }`")
			} else {
				r.Bad(c, loopPos, "the token loop does not re-test the context at the start of every cycle: a cancelled scan keeps consuming tokens until the next element")
			}
		}
		// the scanner's ctx used in Scan and Err is the one Close cancels (osmxml) — covered by P1(e); here: Scan and Err use the same field
	}
	if len(chains) == 2 {
		same := len(chains[0]) == len(chains[1])
		for i := 0; same && i < len(chains[0]); i++ {
			same = chains[0][i] == chains[1][i]
		}
		r.Check(same, "sibling Err osmpbf~osmxml", token.NoPos, "both scanners' Err methods are structurally identical", fmt.Sprintf("the two scanners disagree: %s=%v vs %s=%v", names[0], chains[0], names[1], chains[1]))
	}
}

// scanAtomName classifies an atom of a Scan guard.
func scanAtomName(info *types.Info, e ast.Expr) string {
	e = ast.Unparen(e)
	if f := fieldOf(info, e); f != nil && f.Name() == "closed" {
		return "closed"
	}
	be, ok := e.(*ast.BinaryExpr)
	if !ok || be.Op != token.NEQ {
		return ""
	}
	id, ok := ast.Unparen(be.Y).(*ast.Ident)
	if !ok || id.Name != "nil" {
		return ""
	}
	if f := fieldOf(info, be.X); f != nil && f.Name() == "err" {
		return "err!=nil"
	}
	if call, ok := ast.Unparen(be.X).(*ast.CallExpr); ok && isMethod(callee(info, call), "context.Context", "Err") {
		if s, ok := call.Fun.(*ast.SelectorExpr); ok {
			if f := fieldOf(info, s.X); f != nil && namedPath(f.Type()) == "context.Context" {
				return "ctxErr"
			}
		}
	}
	return ""
}

func scanAtoms(info *types.Info, cond ast.Expr) []string {
	var out []string
	var rec func(e ast.Expr)
	rec = func(e ast.Expr) {
		e = ast.Unparen(e)
		if be, ok := e.(*ast.BinaryExpr); ok && (be.Op == token.LOR || be.Op == token.LAND) {
			rec(be.X)
			rec(be.Y)
			return
		}
		if a := scanAtomName(info, e); a != "" {
			out = append(out, a)
		}
	}
	rec(cond)
	return out
}

func parseErrChain(pk *packages.Package, fi *FuncInfo) ([]errStep, string) {
	info := pk.TypesInfo
	retName := func(e ast.Expr) string {
		e = ast.Unparen(e)
		if id, ok := e.(*ast.Ident); ok && id.Name == "nil" {
			return "nil"
		}
		if f := fieldOf(info, e); f != nil && f.Name() == "err" {
			return "err"
		}
		if sel, ok := e.(*ast.SelectorExpr); ok {
			if o := info.Uses[sel.Sel]; o != nil && o.Pkg() != nil && o.Pkg().Path() == core.ModulePath && o.Name() == "ErrScannerClosed" {
				return "ErrScannerClosed"
			}
		}
		if call, ok := e.(*ast.CallExpr); ok && isMethod(callee(info, call), "context.Context", "Err") {
			if s, ok := call.Fun.(*ast.SelectorExpr); ok {
				if f := fieldOf(info, s.X); f != nil && namedPath(f.Type()) == "context.Context" {
					return "ctx.Err()"
				}
			}
		}
		return "?" + types.ExprString(e)
	}
	condName := func(e ast.Expr) string {
		e = ast.Unparen(e)
		if a := scanAtomName(info, e); a != "" {
			return a
		}
		if be, ok := e.(*ast.BinaryExpr); ok && be.Op == token.EQL {
			if f := fieldOf(info, be.X); f != nil && f.Name() == "err" {
				if sel, ok := ast.Unparen(be.Y).(*ast.SelectorExpr); ok {
					if o := info.Uses[sel.Sel]; o != nil && o.Pkg() != nil && o.Pkg().Path() == "io" && o.Name() == "EOF" {
						return "err==EOF"
					}
				}
			}
		}
		return "?" + types.ExprString(e)
	}
	var chain []errStep
	for i, st := range fi.Decl.Body.List {
		switch s := st.(type) {
		case *ast.IfStmt:
			if s.Init != nil || s.Else != nil || len(s.Body.List) != 1 {
				return nil, "unrecognised if form"
			}
			ret, ok := s.Body.List[0].(*ast.ReturnStmt)
			if !ok || len(ret.Results) != 1 {
				return nil, "if body is not a single return"
			}
			chain = append(chain, errStep{condName(s.Cond), retName(ret.Results[0])})
		case *ast.ReturnStmt:
			if i != len(fi.Decl.Body.List)-1 || len(s.Results) != 1 {
				return nil, "return in the middle"
			}
			chain = append(chain, errStep{"", retName(s.Results[0])})
		default:
			return nil, "unrecognised statement"
		}
	}
	return chain, ""
}
