package rules

import (
	"go/ast"
	"go/token"
)

// switchStmt executes a tagged or tagless expression switch: cases in source order, default last.
func (x *c20SX) switchStmt(s *ast.SwitchStmt, st *c20St) []*c20St {
	cur := []*c20St{st}
	if s.Init != nil {
		cur = x.block([]ast.Stmt{s.Init}, cur)
	}
	type pend struct {
		st  *c20St
		tag c20V
	}
	var pending []pend
	var out []*c20St
	for _, c := range cur {
		if c.ctl != c20cRun {
			out = append(out, c)
			continue
		}
		if s.Tag == nil {
			pending = append(pending, pend{c, c20V{k: c20kBool, b: true}})
			continue
		}
		for _, r := range x.ev(s.Tag, c) {
			if r.st.ctl != c20cRun {
				out = append(out, r.st)
			} else {
				pending = append(pending, pend{r.st, r.v})
			}
		}
	}
	runBody := func(cc *ast.CaseClause, c *c20St) {
		for _, b := range cc.Body {
			if br, ok := b.(*ast.BranchStmt); ok && br.Tok == token.FALLTHROUGH {
				out = append(out, c.abort(br, "fallthrough"))
				return
			}
		}
		for _, o := range x.block(cc.Body, []*c20St{c}) {
			if o.ctl == c20cBrk && o.lbl == "" {
				o.ctl = c20cRun
			}
			out = append(out, o)
		}
	}
	var dflt *ast.CaseClause
	for _, cl := range s.Body.List {
		cc := cl.(*ast.CaseClause)
		if cc.List == nil {
			dflt = cc
			continue
		}
		for _, ce := range cc.List {
			var still []pend
			for _, p := range pending {
				var cvs []c20CV
				if s.Tag == nil {
					cvs = x.cond(ce, p.st)
				} else {
					for _, r := range x.ev(ce, p.st) {
						if r.st.ctl != c20cRun {
							cvs = append(cvs, c20CV{r.st, false})
							continue
						}
						cvs = append(cvs, x.compare(token.EQL, p.tag, r.v, r.st, ce)...)
					}
				}
				for _, cv := range cvs {
					switch {
					case cv.st.ctl != c20cRun:
						out = append(out, cv.st)
					case cv.val:
						runBody(cc, cv.st)
					default:
						still = append(still, pend{cv.st, p.tag})
					}
				}
			}
			pending = still
		}
	}
	for _, p := range pending {
		if dflt != nil {
			runBody(dflt, p.st)
		} else {
			out = append(out, p.st)
		}
	}
	return out
}
