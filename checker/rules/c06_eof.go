package rules

import (
	"go/ast"
	"go/token"
	"go/types"

	"golang.org/x/tools/go/cfg"

	"osmcheck/core"
)

// ---------------------------------------------------------------- E2

// isEOFMapper reports whether fn is a function `func(err error) error` of package osmpbf that never returns io.EOF
// when given io.EOF (decided by evaluating its body on the abstract input io.EOF).
func isEOFMapper(r *core.R, fn *types.Func) bool {
	pk := r.P.Pkg("osmpbf")
	if fn == nil || pk == nil || fn.Pkg() != pk.Types {
		return false
	}
	fi := c01FuncInfo(pk, fn)
	if fi == nil {
		return false
	}
	sig := fn.Type().(*types.Signature)
	if sig.Params().Len() != 1 || !isErrorType(sig.Params().At(0).Type()) || sig.Results().Len() != 1 || !isErrorType(sig.Results().At(0).Type()) {
		return false
	}
	po := c01Param(pk.TypesInfo, fi, 0)
	if po == nil {
		return false
	}
	f := c01FnOf(r.P, fi)
	return !c06CanReturnEOF(r, f, f.g.Blocks[0], 0, po, 0)
}

func isIOVar(info *types.Info, e ast.Expr, name string) bool {
	sel, ok := ast.Unparen(e).(*ast.SelectorExpr)
	if !ok {
		return false
	}
	o := info.Uses[sel.Sel]
	return o != nil && o.Pkg() != nil && o.Pkg().Path() == "io" && o.Name() == name
}

// c06CanReturnEOF walks f from (b0,i0) with the abstract fact "errObj holds io.EOF" and reports whether some
// reachable return statement yields that io.EOF unchanged. Conditions are evaluated on the finite domain
// {io.EOF, another non-nil error}; assignments of io.ErrUnexpectedEOF, of a mapper's result or of a wrapped error
// end the fact; any other overwrite of errObj ends the path (the value is no longer the read's error).
func c06CanReturnEOF(r *core.R, f *c01Fn, b0 *cfg.Block, i0 int, errObj types.Object, depth int) bool {
	info := f.info
	if depth > 3 {
		return true
	}
	isErr := func(e ast.Expr) bool { return objOf(info, ast.Unparen(e)) == errObj }
	// mapped(e): expression e, computed while errObj holds io.EOF, is certainly not io.EOF itself
	var valueIsEOF func(e ast.Expr) c01Tri
	valueIsEOF = func(e ast.Expr) c01Tri {
		e = ast.Unparen(e)
		if isErr(e) {
			return c01T
		}
		if !usesObj(info, e, errObj) {
			if isIOVar(info, e, "EOF") {
				return c01T
			}
			return c01F
		}
		if call, ok := e.(*ast.CallExpr); ok {
			fn := callee(info, call)
			if isPkgFunc(fn, "fmt", "Errorf") || isPkgFunc(fn, "errors", "Join") {
				return c01F // a wrapping error is a different value (Err compares with ==)
			}
			if len(call.Args) == 1 && isErr(call.Args[0]) {
				if isEOFMapper(r, fn) {
					return c01F
				}
				return c01T
			}
		}
		return c01U
	}
	type st struct {
		b *cfg.Block
		i int
	}
	seen := map[*cfg.Block]bool{}
	work := []st{{b0, i0}}
	for len(work) > 0 {
		cur := work[len(work)-1]
		work = work[:len(work)-1]
		dead := false
		for i := cur.i; i < len(cur.b.Nodes) && !dead; i++ {
			n := cur.b.Nodes[i]
			switch s := n.(type) {
			case *ast.ReturnStmt:
				if len(s.Results) > 0 {
					if v := valueIsEOF(s.Results[len(s.Results)-1]); v != c01F {
						return true
					}
				} else if sig := f.fi.Obj.Type().(*types.Signature); sig.Results().Len() > 0 && sig.Results().At(sig.Results().Len()-1) == errObj {
					return true // named result
				}
				dead = true
			case *ast.AssignStmt:
				for li, l := range s.Lhs {
					if !isErr(l) {
						continue
					}
					if len(s.Rhs) != len(s.Lhs) {
						dead = true // overwritten by the result of another call
						continue
					}
					switch valueIsEOF(s.Rhs[li]) {
					case c01F:
						dead = true // mapped, wrapped or replaced: no longer the bare io.EOF
					case c01T:
					default:
						return true
					}
				}
			}
		}
		if dead {
			continue
		}
		cond := f.condOf(cur.b)
		for si, nb := range cur.b.Succs {
			if cond != nil && len(cur.b.Succs) == 2 {
				v := c01Eval(info, cond, func(a ast.Expr) c01Tri {
					if x, neq, ok := c01NilCmp(a); ok && isErr(x) {
						return c01Bool(neq) // the read's error is non-nil on this walk
					}
					if x, y, neq, ok := c01EqCmp(a); ok {
						for _, pr := range [][2]ast.Expr{{x, y}, {y, x}} {
							if isErr(pr[0]) && isIOVar(info, pr[1], "EOF") {
								return c01Bool(!neq)
							}
							if isErr(pr[0]) && isIOVar(info, pr[1], "ErrUnexpectedEOF") {
								return c01Bool(neq)
							}
						}
					}
					if call, ok := ast.Unparen(a).(*ast.CallExpr); ok && isPkgFunc(callee(info, call), "errors", "Is") && len(call.Args) == 2 && isErr(call.Args[0]) && isIOVar(info, call.Args[1], "EOF") {
						return c01T
					}
					return c01U
				})
				if (si == 0 && v == c01F) || (si == 1 && v == c01T) {
					continue
				}
			}
			if !seen[nb] {
				seen[nb] = true
				work = append(work, st{nb, 0})
			}
		}
	}
	return false
}

// inlineEOFMapping is kept for other rule files: `if err == io.EOF { err = io.ErrUnexpectedEOF }` somewhere in body.
func inlineEOFMapping(info *types.Info, body *ast.BlockStmt, eo types.Object) bool {
	found := false
	ast.Inspect(body, func(n ast.Node) bool {
		ifs, ok := n.(*ast.IfStmt)
		if !ok {
			return true
		}
		be, ok := ast.Unparen(ifs.Cond).(*ast.BinaryExpr)
		if !ok || be.Op != token.EQL || objOf(info, be.X) != eo || !isIOVar(info, be.Y, "EOF") || len(ifs.Body.List) != 1 {
			return true
		}
		if as, ok := ifs.Body.List[0].(*ast.AssignStmt); ok && len(as.Lhs) == 1 && objOf(info, as.Lhs[0]) == eo && isIOVar(info, as.Rhs[0], "ErrUnexpectedEOF") {
			found = true
		}
		return true
	})
	return found
}

// c06ReadSite is a CFG node of a function that reads from the input stream: directly through io.ReadFull or by
// calling a function of the package that (transitively) does.
type c06ReadSite struct {
	node   ast.Node
	call   *ast.CallExpr // the io.ReadFull call or the call of the helper
	direct bool
	helper *FuncInfo
}

func c06E2(r *core.R) {
	m := c01PBFModel(r)
	if m == nil {
		return
	}
	info := m.info
	isReadFull := func(f *c01Fn, n ast.Node) bool {
		return c01ContainsCall(n, func(call *ast.CallExpr) bool { return c06IsBlockRead(info, call) })
	}
	sum := c01NewSum(r.P, isReadFull)
	sitesOf := func(fi *FuncInfo) []c06ReadSite {
		var out []c06ReadSite
		f := c01FnOf(r.P, fi)
		for _, b := range f.g.Blocks {
			if !b.Live {
				continue
			}
			for _, n := range b.Nodes {
				ast.Inspect(n, func(x ast.Node) bool {
					if _, ok := x.(*ast.FuncLit); ok {
						return false
					}
					call, ok := x.(*ast.CallExpr)
					if !ok {
						return true
					}
					if c06IsBlockRead(info, call) {
						out = append(out, c06ReadSite{node: n, call: call, direct: true})
					} else if tf := c01Callee(m.pk, call); tf != nil && sum.May(tf) {
						out = append(out, c06ReadSite{node: n, call: call, helper: tf})
					}
					return true
				})
			}
		}
		return out
	}
	// the block reader: the function with at least two read sites that does not reach another such function
	var cands []*FuncInfo
	for _, fi := range allFuncs(m.pk) {
		if isGenerated(r.P, fi.Decl.Pos()) {
			continue
		}
		if len(sitesOf(fi)) >= 2 {
			cands = append(cands, fi)
		}
	}
	var blockReader *FuncInfo
	for _, c := range cands {
		inner := false
		for _, g := range c01Reachable(r.P, c) {
			if g.Obj == c.Obj {
				continue
			}
			for _, o := range cands {
				if o.Obj == g.Obj {
					inner = true
				}
			}
		}
		if !inner {
			if blockReader != nil {
				r.Unknown("block reader", c.Decl.Pos(), "both %s and %s read a file block in several steps", blockReader.Name(), c.Name())
			}
			blockReader = c
		}
	}
	if blockReader == nil {
		r.Anchor("function that reads one file block in several io.ReadFull steps")
		return
	}
	// escSites(fi, firstAllowed): the direct io.ReadFull sites (of fi or of helpers it reads through) whose io.EOF can
	// reach fi's caller although the read is not the first one of a block. firstAllowed: fi is executed as the first
	// read step of a block, so the read of fi that dominates its other reads may legitimately yield io.EOF.
	type siteInfo struct {
		site  c06ReadSite
		in    *FuncInfo
		first bool
	}
	all := map[token.Pos]*siteInfo{}
	var order []token.Pos
	unknown := false
	var escSites func(fi *FuncInfo, firstAllowed bool, depth int) map[token.Pos]bool
	escSites = func(fi *FuncInfo, firstAllowed bool, depth int) map[token.Pos]bool {
		out := map[token.Pos]bool{}
		f := c01FnOf(r.P, fi)
		sites := sitesOf(fi)
		first := -1
		if firstAllowed {
			for i := range sites {
				dominatesAll := true
				for j := range sites {
					if i != j && !f.dominatesPos(sites[i].call.Pos(), sites[j].call.Pos()) {
						dominatesAll = false
					}
				}
				if dominatesAll {
					first = i
				}
			}
			if first < 0 && len(sites) > 0 {
				r.Unknown("first-read@"+fi.Name(), fi.Decl.Pos(), "no read dominates all the others in %s", fi.Name())
				unknown = true
			}
		}
		for i, s := range sites {
			isFirst := i == first
			// does fi hand the error of this site on unchanged?
			passesOn := func() bool {
				b, bi := blockOf(f.g, s.call.Pos())
				if b == nil {
					return true
				}
				if as, ok := s.node.(*ast.AssignStmt); ok && len(as.Rhs) == 1 && ast.Unparen(as.Rhs[0]) == s.call {
					if idx, nres := c06ErrIndex(info, s.call); idx >= 0 && len(as.Lhs) == nres {
						if eo := objOf(info, as.Lhs[idx]); eo != nil {
							return c06CanReturnEOF(r, f, b, bi+1, eo, 0)
						}
					}
				}
				return true // returned directly, or not stored in a variable
			}
			if s.direct {
				si := all[s.call.Pos()]
				if si == nil {
					si = &siteInfo{site: s, in: fi}
					all[s.call.Pos()] = si
					order = append(order, s.call.Pos())
				}
				if isFirst {
					si.first = true
					continue
				}
				if passesOn() {
					out[s.call.Pos()] = true
				}
				continue
			}
			if depth > 4 {
				unknown = true
				continue
			}
			inner := escSites(s.helper, isFirst, depth+1)
			if len(inner) > 0 && passesOn() {
				for k := range inner {
					out[k] = true
				}
			}
		}
		return out
	}
	bad := escSites(blockReader, true, 0)
	for _, pos := range order {
		si := all[pos]
		c := "readfull@" + si.in.Name()
		switch {
		case bad[pos]:
			r.Bad(c, pos, "the error of this read, which is not the first read of a block, reaches the caller of %s without an io.EOF→io.ErrUnexpectedEOF mapping: when the stream is cut exactly before this read io.ReadFull yields io.EOF, which the scanner reports as a successful end", blockReader.Name())
		case si.first:
			r.OK(c, pos, "first read of a block (it dominates the other reads of %s): io.EOF here means the stream ended on a block boundary", blockReader.Name())
		default:
			r.OK(c, pos, "not the first read of a block: its error only reaches the caller of %s through an io.EOF→io.ErrUnexpectedEOF mapping", blockReader.Name())
		}
	}
	if len(order) == 0 && !unknown {
		r.Anchor("io.ReadFull calls below " + blockReader.Name())
	}
}

// c06IsBlockRead: call is one of the read primitives of package io that fill a buffer and report io.EOF only when no
// byte at all could be read (io.ErrUnexpectedEOF when the stream ends inside): io.ReadFull, io.ReadAtLeast.
func c06IsBlockRead(info *types.Info, call *ast.CallExpr) bool {
	fn := callee(info, call)
	return isPkgFunc(fn, "io", "ReadFull") || isPkgFunc(fn, "io", "ReadAtLeast")
}
