package rules

import (
	"go/ast"
	"go/token"

	"golang.org/x/tools/go/cfg"

	"osmcheck/core"
)

// ---------------------------------------------------------------- U5: no success exit before the scan has completed

// completion describes, for one function, the program points after which the scan of the update list is complete:
// the normal exits of the loops over Updates in the function, and the calls of unexported helpers that are
// themselves "carriers" (contain the scan and return successfully only after completing it).
type c15Completion struct {
	f     *c15Fn
	dones []*cfg.Block
	calls []*ast.CallExpr
}

func (w *c15World) completionOf(f *c15Fn) *c15Completion {
	c := &c15Completion{f: f}
	for _, l := range w.loopsIn(f) {
		// a pure counting pass does not complete the scan: it only sizes what the real pass fills
		if l.done != nil && !w.isCountingLoop(w.rootEnv(f), l) {
			c.dones = append(c.dones, l.done)
		}
	}
	inspectNoLit(f.fi.Decl.Body, func(n ast.Node) bool {
		call, ok := n.(*ast.CallExpr)
		if !ok {
			return true
		}
		if g := w.samePkgCallee(call); g != nil && g != f && !g.fi.Obj.Exported() && w.isCarrier(g) {
			c.calls = append(c.calls, call)
		}
		return true
	})
	return c
}

// isCarrier: unexported g contains (or delegates to) the scan, and all its success exits come after it.
func (w *c15World) isCarrier(g *c15Fn) bool {
	switch w.carrierMemo[g.fi.Obj] {
	case 1:
		return true
	case 2, 3:
		return false
	}
	w.carrierMemo[g.fi.Obj] = 3
	c := w.completionOf(g)
	ok := (len(c.dones) > 0 || len(c.calls) > 0) && len(w.incomplete(w.rootEnv(g), c, nil)) == 0
	if ok {
		w.carrierMemo[g.fi.Obj] = 1
	} else {
		w.carrierMemo[g.fi.Obj] = 2
	}
	return ok
}

type c15Early struct {
	pos  token.Pos
	what string
}

// incomplete lists the success exits of c.f that can be taken before the scan has completed. vacuous lists the
// paths (rooted in the API function) of the scanned lists: an exit under `len(X) == 0` / `X == nil` is allowed,
// since the scan would have had nothing to do.
func (w *c15World) incomplete(env *c15Env, c *c15Completion, vacuous []*c15Path) []c15Early {
	f := c.f
	var out []c15Early
	after := func(b *cfg.Block, pos token.Pos) bool {
		for _, d := range c.dones {
			if b == d || f.dom[b][d] {
				return true
			}
		}
		for _, call := range c.calls {
			if call.Pos() <= pos && pos < call.End() {
				return true // `return helper(…)`: delegated
			}
			if posDominates(f.g, f.dom, call.Pos(), pos) {
				cb, _ := blockOf(f.g, call.Pos())
				if cb != b || call.End() <= pos {
					return true
				}
			}
		}
		return false
	}
	isVacuous := func(pos token.Pos) bool { return w.vacuousAt(env, pos, vacuous) || w.nothingDueAt(env, pos) }
	inspectNoLit(f.fi.Decl.Body, func(n ast.Node) bool {
		ret, ok := n.(*ast.ReturnStmt)
		if !ok || w.retKind(f, ret) == c15RetFailure {
			return true
		}
		b, _ := blockOf(f.g, ret.Pos())
		if b == nil || !b.Live {
			return true
		}
		// a return whose results contain a carrier call is delegated
		for _, call := range c.calls {
			if c15Within(ret, call) {
				return true
			}
		}
		if after(b, ret.Pos()) || isVacuous(ret.Pos()) {
			return true
		}
		out = append(out, c15Early{pos: ret.Pos(), what: "`" + src(w.r.P.Fset, ret) + "`"})
		return true
	})
	// falling off the end of a function without results
	for _, b := range f.g.Blocks {
		if !b.Live || len(b.Succs) != 0 {
			continue
		}
		if len(b.Nodes) > 0 {
			last := b.Nodes[len(b.Nodes)-1]
			if _, isRet := last.(*ast.ReturnStmt); isRet || c15IsPanic(w.info, last) {
				continue
			}
		}
		if !after(b, f.fi.Decl.Body.End()-1) {
			out = append(out, c15Early{pos: f.fi.Decl.Body.End() - 1, what: "the end of the function"})
		}
	}
	return out
}

// vacuousAt: a controlling test at pos (in env.fn) establishes that one of the lists in vacuous is empty or nil.
func (w *c15World) vacuousAt(env *c15Env, pos token.Pos, vacuous []*c15Path) bool {
	for _, fact := range w.factsFor(env, pos) {
		l, op, r, ok := cmpNorm(fact.expr)
		if !ok {
			continue
		}
		var X ast.Expr
		switch {
		case op == token.EQL && fact.val, op == token.NEQ && !fact.val:
			// len(X) == 0, 0 == len(X), X == nil
			if k, ok := constInt(w.info, r); ok && k == 0 {
				X = lenCallArg(w.info, l)
			} else if k, ok := constInt(w.info, l); ok && k == 0 {
				X = lenCallArg(w.info, r)
			} else if isNilIdent(r) {
				X = l
			} else if isNilIdent(l) {
				X = r
			}
		case op == token.LSS && !fact.val:
			// !(0 < len(X))
			if k, ok := constInt(w.info, l); ok && k == 0 {
				X = lenCallArg(w.info, r)
			}
		case op == token.LSS && fact.val:
			// len(X) < 1
			if k, ok := constInt(w.info, r); ok && k == 1 {
				X = lenCallArg(w.info, l)
			}
		case op == token.LEQ && fact.val:
			// len(X) <= 0
			if k, ok := constInt(w.info, r); ok && k == 0 {
				X = lenCallArg(w.info, l)
			}
		}
		if X == nil {
			continue
		}
		xp := w.pathOf(fact.env, X, false)
		for _, v := range vacuous {
			if xp.eq(v) {
				return true
			}
		}
	}
	return false
}

// errorExit: the loop was left early, but only with an error variable known to be non-nil (a guard `err == nil` of
// the loop condition turned false, or a break controlled by `err != nil`), and from the exit every path ends in a
// return that returns that variable: the early exit is an error exit, not a shortcut.
func (w *c15World) errorExit(f *c15Fn, wk *c15Walk) bool {
	a := wk.after
	if a == nil || a.exitErr == nil || a.implicit || len(a.returns) == 0 {
		return false
	}
	for _, ret := range a.returns {
		if !w.retFails(f, ret, a.exitErr) {
			return false
		}
	}
	return true
}

func c15U5(r *core.R) {
	w := c15NewWorld(r)
	if w.pk == nil {
		r.Anchor("package osm")
		return
	}
	roots := w.roots()
	for _, name := range c15APIs {
		if w.rootByName(roots, name) == nil {
			r.Anchor(name)
		}
	}
	for _, rt := range roots {
		c := "complete@" + rt.f.name()
		comp := w.completionOf(rt.f)
		if len(comp.dones) == 0 && len(comp.calls) == 0 {
			r.Unknown(c, rt.f.fi.Decl.Pos(), "the loop over the update list is reached only through helpers that can return successfully before completing it")
			continue
		}
		var vac []*c15Path
		for _, site := range rt.sites {
			if w.filteredSource(site) == nil {
				if xp := w.pathOf(site.env, site.loop.x, false); xp != nil {
					vac = append(vac, xp)
				}
			}
		}
		early := w.incomplete(w.rootEnv(rt.f), comp, vac)
		// leaving a loop by break (any update, any order) ends the scan early
		var brk *c15LoopSite
		for i := range rt.sites {
			site := rt.sites[i]
			if site.loop.entry == nil {
				continue
			}
			wk := w.walk(site.loop.entry, 0, c15WalkOpt{env: site.env, loop: site.loop, oracle: &c15Oracle{w: w, loop: site.loop, lenv: site.env}, follow: true})
			if wk.escape != nil || (wk.done && !w.errorExit(site.loop.fn, wk)) {
				brk = &rt.sites[i]
			}
		}
		switch {
		case len(early) > 0:
			r.Bad(c, early[0].pos, "%s can be reached with a nil error / normal result before the loop over the update list has completed (and not under an empty-list test): updates stamped at or before t are then neither applied nor removed from the pending list, so the result differs from scanning the whole list", early[0].what)
		case brk != nil:
			r.Unknown(c, brk.loop.pos(), "the loop over %s in %s can be left by break / a jump before all updates were classified; the list is stored in index order, so the remaining updates cannot be assumed irrelevant", src(r.P.Fset, brk.loop.x), brk.loop.fn.name())
		default:
			r.OK(c, rt.f.fi.Decl.Pos(), "every return with a nil error / normal result is dominated by the normal exit of the loop over the update list (%d loop exit(s), %d completing helper call(s)); no break out of the loop", len(comp.dones), len(comp.calls))
		}
	}
}
