package rules

import (
	"fmt"
	"go/types"
	"sort"

	"osmcheck/core"
)

// c05HelperRules: a codec helper performs, on every path, exactly one operation of its direction with its parameters
// handed on unchanged and in order: through encoding/json when no codec is installed, through the installed codec
// otherwise. Observed under both configurations; the form of the nil test (if / switch, inverted branches, a local
// alias of the variable) does not matter.
func c05HelperRules(r *core.R, helpers map[*types.Func]string) {
	cx := c05NewCodec(r.P)
	var fns []*types.Func
	for fn := range helpers {
		fns = append(fns, fn)
	}
	sort.Slice(fns, func(i, j int) bool { return fns[i].Pos() < fns[j].Pos() })
	for _, fn := range fns {
		dir := helpers[fn]
		fi := c03FuncInfoOf(r.P, fn)
		c := "helper@" + fn.Name()
		if fi == nil {
			r.Anchor("declaration of codec helper " + fn.Name())
			continue
		}
		varName := map[string]string{"marshal": "CustomJSONMarshaler", "unmarshal": "CustomJSONUnmarshaler"}[dir]
		sig := fn.Type().(*types.Signature)
		bad := ""
		for _, installed := range []tri{triF, triT} {
			want := map[tri]string{triF: "std", triT: "custom"}[installed]
			cfgText := map[tri]string{triF: varName + " is nil", triT: "a codec is installed in " + varName}[installed]
			x, paths := cx.run(fi, c05Scen{Custom: installed, Tag: cfgText})
			if x.Aborted != "" || len(paths) == 0 {
				bad = "the helper could not be explored: " + x.Aborted
				break
			}
			for _, pa := range paths {
				ops := cx.ops(pa)
				for _, e := range pa.St.Trace {
					if e.Kind == "nilderef" {
						bad = fmt.Sprintf("when %s the helper calls a method on the nil variable: with the default configuration every JSON operation of the package panics with a nil dereference", cfgText)
					}
				}
				switch {
				case bad != "":
				case pa.End != "return":
					bad = fmt.Sprintf("when %s a path ends with %s", cfgText, pa.End)
				case len(ops) != 1:
					bad = fmt.Sprintf("when %s a path performs %d codec operations instead of one", cfgText, len(ops))
				case ops[0].dir != dir:
					bad = fmt.Sprintf("`%s` is a %s operation inside the %s helper", src(r.P.Fset, ops[0].ev.Call), ops[0].dir, dir)
				case ops[0].via != want && installed == triT:
					bad = fmt.Sprintf("when %s the helper still performs `%s` (%s): the installed codec is ignored", cfgText, src(r.P.Fset, ops[0].ev.Call), ops[0].via)
				case ops[0].via != want:
					bad = fmt.Sprintf("when %s the helper performs `%s`: with the default configuration every JSON operation of the package panics with a nil dereference", cfgText, src(r.P.Fset, ops[0].ev.Call))
				default:
					args := ops[0].ev.Args
					okArgs := len(args) == sig.Params().Len()
					for i := 0; okArgs && i < sig.Params().Len(); i++ {
						if !(args[i].IsInit("param") && args[i].Root.Obj == sig.Params().At(i) && len(args[i].Path) == 0) {
							okArgs = false
						}
					}
					if !okArgs {
						bad = fmt.Sprintf("`%s` does not hand on the helper's parameters unchanged", src(r.P.Fset, ops[0].ev.Call))
					}
					// the results are the operation's results
					for i, rv := range pa.Ret {
						if i < len(ops[0].ev.Results) && rv != ops[0].ev.Results[i] && bad == "" {
							bad = fmt.Sprintf("the helper does not return the results of `%s` unchanged", src(r.P.Fset, ops[0].ev.Call))
						}
					}
				}
				if bad != "" {
					break
				}
			}
			if bad != "" {
				break
			}
		}
		if bad != "" {
			r.Bad(c, fi.Decl.Pos(), "%s", bad)
		} else {
			r.OK(c, fi.Decl.Pos(), "%s == nil -> encoding/json, otherwise %s; exactly one operation per path, parameters handed on and results returned unchanged", varName, varName)
		}
	}
}
