package rules

import (
	"go/ast"
	"go/token"
	"go/types"
	"sort"
	"strings"

	"golang.org/x/tools/go/cfg"

	"osmcheck/core"
)

func init() {
	register(&core.Property{
		ID:    "C15",
		Title: "Applying updates is exact, composable and agrees with geometry-at-time",
		Explanation: "Structural necessary conditions, decided for every path of every loop over an osm.Updates value in package osm: " +
			"(U1) an update stamped after t is skipped and never ends the scan (stored order is index order, not time order); " +
			"(U2) ApplyUpdatesUpTo keeps skipped updates, in loop order, as the new pending list and applies every other update through applyUpdate with its error propagated; " +
			"(U3) every X[u.Index] is dominated by a `u.Index >= len(X)` test whose true edge leaves without reaching the use; " +
			"(U4) applyUpdate copies exactly Version, ChangesetID, Lat, Lon from same-named update fields, flips Orientation only under u.Reverse, and LineStringAt writes lon/lat into the same point slots WayNode.Point uses. " +
			"NOT decided: composability t1 then t2 and geometry equality as values; negative update indices.",
		Assumptions: []string{"go/types, go/cfg (x/tools v0.29.0)", "time.Time.After semantics", "orb.Point is [2]float64"},
		LevelText:   "Structural necessary conditions of the update-application semantics, decided on every path of every loop over osm.Updates and at every X[u.Index] site: skip-not-stop on too-late updates, pending list kept in order, index guard dominance, field copy agreement. Value-level composability and geometry equality are not decided.",
		LevelNote:   "Trusts the Go type checker and go/cfg; semantics of time.Time.After; rules cover package osm only (the loops the property names).",
		Technique:   "per-function CFG path rules (go/cfg dominators, edge regions) + type-resolved field-copy tables",
		DesignRef:   "DESIGN.md §5 C15",
		Rules: []*core.Rule{
			{ID: "U1", Floor: 4, Doc: "too-late updates are skipped and never terminate the scan", Run: c15U1},
			{ID: "U2", Floor: 4, Doc: "ApplyUpdatesUpTo keeps pending updates in order, applies the rest, propagates errors", Run: c15U2},
			{ID: "U3", Floor: 10, Doc: "every X[u.Index] is guarded by u.Index >= len(X)", Run: c15U3},
			{ID: "U4", Floor: 5, Doc: "applyUpdate / LineStringAt copy agreement", Run: c15U4},
		},
		Mutants: []core.Mutant{
			{Name: "way-apply-break", File: "way.go", Find: "notApplied = append(notApplied, u)\n\t\t\tcontinue", Replace: "notApplied = append(notApplied, u)\n\t\t\tbreak", ExpectRule: "U1", ExpectConstruct: "(*Way).ApplyUpdatesUpTo"},
			{Name: "upto-break", File: "update.go", Find: "if u.Timestamp.After(t) {\n\t\t\tcontinue", Replace: "if u.Timestamp.After(t) {\n\t\t\tbreak", ExpectRule: "U1", ExpectConstruct: "Updates.UpTo"},
			{Name: "rel-drop-pending", File: "relation.go", Find: "\t\t\tnotApplied = append(notApplied, u)\n", Replace: "", ExpectRule: "U2", ExpectConstruct: "(*Relation).ApplyUpdatesUpTo"},
			{Name: "way-guard-gt", File: "way.go", Find: "if u.Index >= len(w.Nodes) {", Replace: "if u.Index > len(w.Nodes) {", ExpectRule: "U3", ExpectConstruct: "(*Way).applyUpdate"},
			{Name: "lsat-guard-dropped", File: "way.go", Find: "if u.Index >= len(ls) {\n\t\t\tcontinue\n\t\t}\n", Replace: "", ExpectRule: "U3", ExpectConstruct: "(*Way).LineStringAt"},
			{Name: "rel-latlon-swapped", File: "relation.go", Find: "r.Members[u.Index].Lat = u.Lat", Replace: "r.Members[u.Index].Lat = u.Lon", ExpectRule: "U4", ExpectConstruct: "(*Relation).applyUpdate"},
			{Name: "lsat-latlon-swapped", File: "way.go", Find: "ls[u.Index][0] = u.Lon", Replace: "ls[u.Index][0] = u.Lat", ExpectRule: "U4", ExpectConstruct: "LineStringAt"},
			{Name: "rel-reverse-unconditional", File: "relation.go", Find: "if u.Reverse {\n\t\tr.Members[u.Index].Orientation *= -1\n\t}", Replace: "r.Members[u.Index].Orientation *= -1", ExpectRule: "U4", ExpectConstruct: "Orientation"},
			{Name: "way-drop-changeset", File: "way.go", Find: "\tw.Nodes[u.Index].ChangesetID = u.ChangesetID\n", Replace: "", ExpectRule: "U4", ExpectConstruct: "(*Way).applyUpdate"},
			{Name: "upto-before", File: "update.go", Find: "if u.Timestamp.After(t) {\n\t\t\tcontinue", Replace: "if u.Timestamp.Before(t) {\n\t\t\tcontinue", ExpectRule: "U1", ExpectConstruct: "Updates.UpTo"},
		},
	})
}

// updatesLoop is a range loop over a value of type osm.Updates.
type updatesLoop struct {
	fi    *FuncInfo
	rs    *ast.RangeStmt
	uvar  types.Object // loop value variable
	g     *cfg.CFG
	head  *cfg.Block // KindRangeLoop block
	cond  *cfg.Block // block ending in the too-late test (nil if none)
	late  *cfg.Block // successor taken when u.Timestamp.After(t)
	early *cfg.Block
	condE ast.Expr
}

func isUpdatesType(t types.Type) bool {
	if t == nil {
		return false
	}
	if namedPath(t) == core.ModulePath+".Updates" {
		return true
	}
	if sl, ok := t.Underlying().(*types.Slice); ok {
		return namedPath(sl.Elem()) == core.ModulePath+".Update"
	}
	return false
}

// findUpdatesLoops finds every range loop over an Updates value in package osm.
func findUpdatesLoops(p *core.Program) []*updatesLoop {
	pk := p.Pkg("")
	var out []*updatesLoop
	for _, fi := range allFuncs(pk) {
		fi := fi
		var g *cfg.CFG
		ast.Inspect(fi.Decl.Body, func(n ast.Node) bool {
			rs, ok := n.(*ast.RangeStmt)
			if !ok {
				return true
			}
			if !isUpdatesType(pk.TypesInfo.TypeOf(rs.X)) {
				return true
			}
			if g == nil {
				g = newCFG(pk.TypesInfo, fi.Decl.Body)
			}
			ul := &updatesLoop{fi: fi, rs: rs, g: g}
			if rs.Value != nil {
				ul.uvar = objOf(pk.TypesInfo, rs.Value)
			}
			for _, b := range g.Blocks {
				if b.Kind == cfg.KindRangeLoop && b.Stmt == rs {
					ul.head = b
				}
			}
			out = append(out, ul)
			return true
		})
	}
	return out
}

// lateTest classifies a condition as the too-late test on loop variable u against time parameter t.
// It returns +1 when cond is true iff the update is too late, -1 when negated, 0 when it is not such a test.
func lateTest(info *types.Info, cond ast.Expr, uvar types.Object) (int, ast.Expr) {
	cond = ast.Unparen(cond)
	if ue, ok := cond.(*ast.UnaryExpr); ok && ue.Op == token.NOT {
		s, arg := lateTest(info, ue.X, uvar)
		return -s, arg
	}
	call, ok := cond.(*ast.CallExpr)
	if !ok || len(call.Args) != 1 {
		return 0, nil
	}
	fn := callee(info, call)
	sel, ok := ast.Unparen(call.Fun).(*ast.SelectorExpr)
	if !ok {
		return 0, nil
	}
	isUTS := func(e ast.Expr) bool {
		f := fieldOf(info, e)
		if f == nil || f.Name() != "Timestamp" {
			return false
		}
		s := ast.Unparen(e).(*ast.SelectorExpr)
		return uvar != nil && objOf(info, s.X) == uvar
	}
	switch {
	case isMethod(fn, "time.Time", "After") && isUTS(sel.X):
		return +1, call.Args[0] // u.Timestamp.After(t)
	case isMethod(fn, "time.Time", "Before") && isUTS(call.Args[0]):
		return +1, sel.X // t.Before(u.Timestamp)
	}
	return 0, nil
}

func (ul *updatesLoop) locate(info *types.Info) {
	if ul.head == nil {
		return
	}
	inLoop := func(n ast.Node) bool { return ul.rs.Body.Pos() <= n.Pos() && n.End() <= ul.rs.Body.End() }
	for _, b := range ul.g.Blocks {
		if !b.Live || len(b.Succs) != 2 || len(b.Nodes) == 0 {
			continue
		}
		c, ok := b.Nodes[len(b.Nodes)-1].(ast.Expr)
		if !ok || !inLoop(c) {
			continue
		}
		s, arg := lateTest(info, c, ul.uvar)
		if s == 0 {
			continue
		}
		ul.cond, ul.condE = b, arg
		if s > 0 {
			ul.late, ul.early = b.Succs[0], b.Succs[1]
		} else {
			ul.late, ul.early = b.Succs[1], b.Succs[0]
		}
		return
	}
}

// timeParam reports whether e is a parameter of the function of type time.Time.
func timeParam(info *types.Info, fi *FuncInfo, e ast.Expr) bool {
	o := objOf(info, e)
	if o == nil || namedPath(o.Type()) != "time.Time" {
		return false
	}
	sig := fi.Obj.Type().(*types.Signature)
	for i := 0; i < sig.Params().Len(); i++ {
		if sig.Params().At(i) == o {
			return true
		}
	}
	return false
}

func blockHasReturn(b *cfg.Block) bool {
	for _, n := range b.Nodes {
		if _, ok := n.(*ast.ReturnStmt); ok {
			return true
		}
	}
	return false
}

func c15U1(r *core.R) {
	pk := r.P.Pkg("")
	info := pk.TypesInfo
	loops := findUpdatesLoops(r.P)
	r.Stat("loops_over_Updates", len(loops))
	want := map[string]bool{"(*Way).ApplyUpdatesUpTo": false, "(*Relation).ApplyUpdatesUpTo": false, "Updates.UpTo": false, "(*Way).LineStringAt": false}
	for _, ul := range loops {
		name := ul.fi.Name()
		if _, ok := want[name]; ok {
			want[name] = true
		}
		c := "loop@" + name
		ul.locate(info)
		if ul.head == nil {
			r.Unknown(c, ul.rs.Pos(), "range loop not found in the control-flow graph")
			continue
		}
		if ul.cond == nil {
			r.Bad(c, ul.rs.Pos(), "loop over %s has no `u.Timestamp.After(t)` test on its loop variable: updates stamped after t are not excluded", src(r.P.Fset, ul.rs.X))
			continue
		}
		if !timeParam(info, ul.fi, ul.condE) {
			r.Bad(c, ul.cond.Nodes[len(ul.cond.Nodes)-1].Pos(), "the too-late test compares against %s, which is not the function's time parameter", src(r.P.Fset, ul.condE))
			continue
		}
		// region reached on the too-late edge before coming back to the loop head
		lateReg := reachableFrom([]*cfg.Block{ul.late}, func(b *cfg.Block) bool { return b == ul.head })
		earlyReg := reachableFrom([]*cfg.Block{ul.early}, func(b *cfg.Block) bool { return b == ul.head })
		bad := ""
		for b := range lateReg {
			if b == ul.head {
				continue
			}
			if b.Kind == cfg.KindRangeDone && b.Stmt == ul.rs {
				bad = "leaves the loop (break)"
			} else if blockHasReturn(b) || len(b.Succs) == 0 {
				bad = "leaves the function"
			} else if !(ul.rs.Body.Pos() <= blockPos(b) && blockPos(b) <= ul.rs.Body.End()) && len(b.Nodes) > 0 {
				bad = "leaves the loop"
			} else if earlyReg[b] && len(b.Nodes) > 0 {
				bad = "falls through into the code that handles in-time updates (" + r.P.Rel(b.Nodes[0].Pos()) + ")"
			}
			if bad != "" {
				break
			}
		}
		if bad == "" && !lateReg[ul.head] {
			bad = "never returns to the loop head"
		}
		if bad != "" {
			r.Bad(c, ul.cond.Nodes[len(ul.cond.Nodes)-1].Pos(), "when `%s` holds the path %s; later entries of the list (stored in index order, not time order) stamped at or before t are then not handled",
				src(r.P.Fset, ul.cond.Nodes[len(ul.cond.Nodes)-1]), bad)
			continue
		}
		r.OK(c, ul.cond.Nodes[len(ul.cond.Nodes)-1].Pos(), "every path from the true edge of `%s` returns to the loop head without break/return and without touching the in-time handling (%d block(s) on the edge)",
			src(r.P.Fset, ul.cond.Nodes[len(ul.cond.Nodes)-1]), len(lateReg)-1)
	}
	for n, ok := range want {
		if !ok {
			r.Anchor("loop over osm.Updates in " + n)
		}
	}
}

func blockPos(b *cfg.Block) token.Pos {
	if len(b.Nodes) == 0 {
		return token.NoPos
	}
	return b.Nodes[0].Pos()
}

func c15U2(r *core.R) {
	pk := r.P.Pkg("")
	info := pk.TypesInfo
	for _, ul := range findUpdatesLoops(r.P) {
		if ul.fi.Obj.Name() != "ApplyUpdatesUpTo" {
			continue
		}
		name := ul.fi.Name()
		ul.locate(info)
		if ul.cond == nil {
			r.Bad("pending@"+name, ul.rs.Pos(), "no too-late test, cannot identify the pending edge")
			continue
		}
		lateReg := reachableFrom([]*cfg.Block{ul.late}, func(b *cfg.Block) bool { return b == ul.head })
		earlyReg := reachableFrom([]*cfg.Block{ul.early}, func(b *cfg.Block) bool { return b == ul.head })
		// 1. on the late edge: X = append(X, u)
		var pend types.Object
		var pendPos token.Pos
		for b := range lateReg {
			if b == ul.head {
				continue
			}
			for _, n := range b.Nodes {
				as, ok := n.(*ast.AssignStmt)
				if !ok || len(as.Lhs) != 1 || len(as.Rhs) != 1 {
					continue
				}
				call, ok := as.Rhs[0].(*ast.CallExpr)
				if !ok || builtinName(info, call) != "append" || len(call.Args) != 2 || call.Ellipsis.IsValid() {
					continue
				}
				if objOf(info, as.Lhs[0]) != nil && objOf(info, as.Lhs[0]) == objOf(info, call.Args[0]) && objOf(info, call.Args[1]) == ul.uvar {
					pend = objOf(info, as.Lhs[0])
					pendPos = as.Pos()
				}
			}
		}
		if pend == nil {
			r.Bad("pending@"+name, ul.cond.Nodes[len(ul.cond.Nodes)-1].Pos(), "the too-late edge does not append the update to a pending list (`X = append(X, u)`): later updates are lost")
			continue
		}
		// 2. X assigned nowhere else; recv.Updates = X after the loop
		nAssign := 0
		var storePos token.Pos
		ast.Inspect(ul.fi.Decl.Body, func(n ast.Node) bool {
			as, ok := n.(*ast.AssignStmt)
			if !ok {
				return true
			}
			for i, l := range as.Lhs {
				if objOf(info, l) == pend {
					nAssign++
				}
				if f := fieldOf(info, l); f != nil && f.Name() == "Updates" && i < len(as.Rhs) && objOf(info, as.Rhs[i]) == pend && as.Pos() > ul.rs.End() {
					storePos = as.Pos()
				}
			}
			return true
		})
		switch {
		case nAssign != 1:
			r.Bad("pending@"+name, pendPos, "pending list %s is assigned at %d sites; exactly one (`%s = append(%s, u)` on the too-late edge) keeps it equal to the skipped updates in loop order", pend.Name(), nAssign, pend.Name(), pend.Name())
		case !storePos.IsValid():
			r.Bad("pending@"+name, pendPos, "pending list %s is never stored back into the receiver's Updates after the loop", pend.Name())
		default:
			r.OK("pending@"+name, pendPos, "too-late edge appends u to %s (only assignment), stored into .Updates at %s after the loop", pend.Name(), r.P.Rel(storePos))
		}
		// 3. in-time edge calls recv.applyUpdate(u) and returns its error when non-nil
		okApply := false
		var applyPos token.Pos
		for b := range earlyReg {
			if b == ul.head {
				continue
			}
			for _, n := range b.Nodes {
				ast.Inspect(n, func(x ast.Node) bool {
					call, ok := x.(*ast.CallExpr)
					if !ok {
						return true
					}
					if fn := callee(info, call); fn != nil && fn.Name() == "applyUpdate" && len(call.Args) == 1 && objOf(info, call.Args[0]) == ul.uvar {
						applyPos = call.Pos()
					}
					return true
				})
			}
		}
		if applyPos.IsValid() {
			// error propagation: the call is the init of an `if err := ...; err != nil { return err }`
			par := parentsOf(r.P, ul.fi)
			var callNode ast.Node
			ast.Inspect(ul.fi.Decl.Body, func(n ast.Node) bool {
				if c, ok := n.(*ast.CallExpr); ok && c.Pos() == applyPos {
					callNode = c
				}
				return true
			})
			okApply = errReturnedAfter(info, par, callNode)
		}
		if !applyPos.IsValid() {
			r.Bad("apply@"+name, ul.rs.Pos(), "the in-time edge does not call applyUpdate(u)")
		} else if !okApply {
			r.Bad("apply@"+name, applyPos, "the error of applyUpdate(u) is not returned when non-nil")
		} else {
			r.OK("apply@"+name, applyPos, "in-time edge calls applyUpdate(u); `err != nil` returns it")
		}
	}
}

// errReturnedAfter recognises the idioms
//
//	if err := CALL; err != nil { return ..., err }
//	err := CALL (or =) ; if err != nil { return ..., err }
//
// for the call node.
func errReturnedAfter(info *types.Info, par map[ast.Node]ast.Node, call ast.Node) bool {
	if call == nil {
		return false
	}
	as, ok := par[call].(*ast.AssignStmt)
	if !ok {
		return false
	}
	var errObj types.Object
	for _, l := range as.Lhs {
		if o := objOf(info, l); o != nil && types.Identical(o.Type(), types.Universe.Lookup("error").Type()) {
			errObj = o
		}
	}
	if errObj == nil {
		return false
	}
	isErrTest := func(ifs *ast.IfStmt) bool {
		be, ok := ast.Unparen(ifs.Cond).(*ast.BinaryExpr)
		if !ok || be.Op != token.NEQ {
			return false
		}
		if objOf(info, be.X) != errObj {
			return false
		}
		if id, ok := ast.Unparen(be.Y).(*ast.Ident); !ok || id.Name != "nil" {
			return false
		}
		if len(ifs.Body.List) == 0 {
			return false
		}
		ret, ok := ifs.Body.List[len(ifs.Body.List)-1].(*ast.ReturnStmt)
		if !ok || len(ret.Results) == 0 {
			return false
		}
		last := ret.Results[len(ret.Results)-1]
		return usesObj(info, last, errObj)
	}
	switch p := par[as].(type) {
	case *ast.IfStmt:
		if p.Init == as {
			return isErrTest(p)
		}
	case *ast.BlockStmt:
		for i, s := range p.List {
			if s == as && i+1 < len(p.List) {
				if ifs, ok := p.List[i+1].(*ast.IfStmt); ok {
					return isErrTest(ifs)
				}
			}
		}
	}
	return false
}

// sameExpr compares two side-effect-free expressions structurally through the objects they mention.
func sameExpr(info *types.Info, a, b ast.Expr) bool {
	a, b = ast.Unparen(a), ast.Unparen(b)
	switch x := a.(type) {
	case *ast.Ident:
		y, ok := b.(*ast.Ident)
		return ok && objOf(info, x) != nil && objOf(info, x) == objOf(info, y)
	case *ast.SelectorExpr:
		y, ok := b.(*ast.SelectorExpr)
		if !ok {
			return false
		}
		sx, sy := info.Selections[x], info.Selections[y]
		if sx == nil || sy == nil || sx.Obj() != sy.Obj() {
			return false
		}
		return sameExpr(info, x.X, y.X)
	case *ast.IndexExpr:
		y, ok := b.(*ast.IndexExpr)
		return ok && sameExpr(info, x.X, y.X) && sameExpr(info, x.Index, y.Index)
	case *ast.BasicLit:
		y, ok := b.(*ast.BasicLit)
		return ok && x.Value == y.Value
	case *ast.StarExpr:
		y, ok := b.(*ast.StarExpr)
		return ok && sameExpr(info, x.X, y.X)
	}
	return false
}

// rootObj returns the variable at the root of a selector/index chain.
func rootObj(info *types.Info, e ast.Expr) types.Object {
	for {
		switch x := ast.Unparen(e).(type) {
		case *ast.Ident:
			return objOf(info, x)
		case *ast.SelectorExpr:
			e = x.X
		case *ast.IndexExpr:
			e = x.X
		case *ast.StarExpr:
			e = x.X
		case *ast.SliceExpr:
			e = x.X
		default:
			return nil
		}
	}
}

// isUpdateIndex reports whether e is `<v>.Index` with v of type osm.Update.
func isUpdateIndex(info *types.Info, e ast.Expr) bool {
	f := fieldOf(info, e)
	if f == nil || f.Name() != "Index" {
		return false
	}
	sel := ast.Unparen(e).(*ast.SelectorExpr)
	return namedPath(info.TypeOf(sel.X)) == core.ModulePath+".Update"
}

func c15U3(r *core.R) {
	pk := r.P.Pkg("")
	info := pk.TypesInfo
	nfun := 0
	for _, fi := range allFuncs(pk) {
		var uses []*ast.IndexExpr
		ast.Inspect(fi.Decl.Body, func(n ast.Node) bool {
			if ix, ok := n.(*ast.IndexExpr); ok && isUpdateIndex(info, ix.Index) {
				uses = append(uses, ix)
			}
			return true
		})
		if len(uses) == 0 {
			continue
		}
		nfun++
		g := newCFG(info, fi.Decl.Body)
		dom := dominators(g)
		for _, ix := range uses {
			c := "index@" + fi.Name() + " " + src(r.P.Fset, ix)
			ub, _ := blockOf(g, ix.Pos())
			if ub == nil {
				r.Unknown(c, ix.Pos(), "use not located in the control-flow graph")
				continue
			}
			proved := false
			var why string
			for _, b := range g.Blocks {
				if !b.Live || len(b.Succs) != 2 || len(b.Nodes) == 0 || !dom[ub][b] || b == ub {
					continue
				}
				be, ok := ast.Unparen(lastExpr(b)).(*ast.BinaryExpr)
				if !ok {
					continue
				}
				// idx >= len(X)   or   len(X) <= idx
				var idx, lenArg ast.Expr
				if be.Op == token.GEQ {
					idx, lenArg = be.X, lenCallArg(info, be.Y)
				} else if be.Op == token.LEQ {
					idx, lenArg = be.Y, lenCallArg(info, be.X)
				}
				if lenArg == nil || !sameExpr(info, idx, ix.Index) || !sameExpr(info, lenArg, ix.X) {
					continue
				}
				// the use must not be reachable from the true (out-of-range) edge without passing the test again
				tr := reachableFrom([]*cfg.Block{b.Succs[0]}, func(x *cfg.Block) bool { return x == b })
				if tr[ub] {
					why = "the use is reachable from the out-of-range edge of `" + src(r.P.Fset, be) + "`"
					continue
				}
				// no reassignment of the indexed container or the update between guard and use
				if n := countAssignsTo(info, fi.Decl.Body, rootObj(info, ix.X), be.Pos(), ix.Pos()); n > 0 {
					why = "the indexed value is reassigned between the guard and the use"
					continue
				}
				proved = true
				r.OK(c, ix.Pos(), "dominated by `%s` (%s); the out-of-range edge does not reach the use", src(r.P.Fset, be), r.P.Rel(be.Pos()))
				break
			}
			if !proved {
				if why == "" {
					why = "no dominating test of the form `" + src(r.P.Fset, ix.Index) + " >= len(" + src(r.P.Fset, ix.X) + ")`"
				}
				r.Bad(c, ix.Pos(), "%s: an update index beyond the child list indexes memory instead of being reported", why)
			}
		}
	}
	r.Stat("functions_indexing_by_update_index", nfun)
}

func lastExpr(b *cfg.Block) ast.Expr {
	if len(b.Nodes) == 0 {
		return nil
	}
	e, _ := b.Nodes[len(b.Nodes)-1].(ast.Expr)
	return e
}

func lenCallArg(info *types.Info, e ast.Expr) ast.Expr {
	call, ok := ast.Unparen(e).(*ast.CallExpr)
	if !ok || builtinName(info, call) != "len" || len(call.Args) != 1 {
		return nil
	}
	return call.Args[0]
}

// countAssignsTo counts assignments whose LHS root is obj between two positions.
func countAssignsTo(info *types.Info, body ast.Node, obj types.Object, from, to token.Pos) int {
	n := 0
	ast.Inspect(body, func(x ast.Node) bool {
		as, ok := x.(*ast.AssignStmt)
		if !ok || as.Pos() < from || as.Pos() > to {
			return true
		}
		for _, l := range as.Lhs {
			if id, ok := ast.Unparen(l).(*ast.Ident); ok && objOf(info, id) == obj {
				n++
			}
		}
		return true
	})
	return n
}

// fieldCopies collects assignments `<...>.F = src.G` / `<...>.F op= ...` in a function whose LHS
// selects a field of the named target type. Returned map: F -> source field name ("" when the RHS is not a plain field of srcObj).
type fieldCopy struct {
	dst, src string
	pos      token.Pos
	tok      token.Token
	stmt     *ast.AssignStmt
}

func collectFieldCopies(info *types.Info, body ast.Node, targetTypes map[string]bool, srcObj types.Object) []fieldCopy {
	var out []fieldCopy
	ast.Inspect(body, func(n ast.Node) bool {
		as, ok := n.(*ast.AssignStmt)
		if !ok {
			return true
		}
		for i, l := range as.Lhs {
			f := fieldOf(info, l)
			if f == nil {
				continue
			}
			sel := ast.Unparen(l).(*ast.SelectorExpr)
			if !targetTypes[namedPath(info.TypeOf(sel.X))] {
				continue
			}
			fc := fieldCopy{dst: f.Name(), pos: as.Pos(), tok: as.Tok, stmt: as}
			if i < len(as.Rhs) {
				if sf := fieldOf(info, as.Rhs[i]); sf != nil {
					rs := ast.Unparen(as.Rhs[i]).(*ast.SelectorExpr)
					if srcObj == nil || rootObj(info, rs.X) == srcObj {
						fc.src = sf.Name()
					}
				}
			}
			out = append(out, fc)
		}
		return true
	})
	return out
}

func c15U4(r *core.R) {
	pk := r.P.Pkg("")
	info := pk.TypesInfo
	expect := []string{"ChangesetID", "Lat", "Lon", "Version"}
	for _, spec := range []struct{ fn, target string }{
		{"(*Way).applyUpdate", core.ModulePath + ".WayNode"},
		{"(*Relation).applyUpdate", core.ModulePath + ".Member"},
	} {
		fi := findFunc(pk, spec.fn)
		if fi == nil {
			r.Anchor(spec.fn)
			continue
		}
		sig := fi.Obj.Type().(*types.Signature)
		if sig.Params().Len() != 1 {
			r.Anchor(spec.fn + " (single Update parameter)")
			continue
		}
		u := sig.Params().At(0)
		copies := collectFieldCopies(info, fi.Decl.Body, map[string]bool{spec.target: true}, u)
		got := map[string]fieldCopy{}
		c := "copy@" + spec.fn
		bad := false
		par := parentsOf(r.P, fi)
		for _, fc := range copies {
			if fc.dst == "Orientation" {
				// must be `*= -1` under `if u.Reverse`
				ifs, _ := enclosing(par, fc.stmt, func(n ast.Node) bool { _, ok := n.(*ast.IfStmt); return ok }).(*ast.IfStmt)
				okRev := false
				if ifs != nil {
					if f := fieldOf(info, ifs.Cond); f != nil && f.Name() == "Reverse" && rootObj(info, ifs.Cond) == u && fc.stmt.Pos() >= ifs.Body.Pos() && fc.stmt.End() <= ifs.Body.End() {
						okRev = true
					}
				}
				neg := false
				if fc.tok == token.MUL_ASSIGN && len(fc.stmt.Rhs) == 1 {
					if v, ok := constInt(info, fc.stmt.Rhs[0]); ok && v == -1 {
						neg = true
					}
				}
				if okRev && neg {
					r.OK("flip@"+spec.fn+" Orientation", fc.pos, "Orientation *= -1 only under `if u.Reverse`")
				} else {
					r.Bad("flip@"+spec.fn+" Orientation", fc.pos, "Orientation is changed by `%s`; it must be multiplied by -1 exactly when u.Reverse holds", src(r.P.Fset, fc.stmt))
				}
				continue
			}
			if fc.tok != token.ASSIGN || fc.src != fc.dst {
				r.Bad(c+" "+fc.dst, fc.pos, "`%s`: child field %s must be copied from the same-named update field", src(r.P.Fset, fc.stmt), fc.dst)
				bad = true
				continue
			}
			if _, dup := got[fc.dst]; dup {
				r.Bad(c+" "+fc.dst, fc.pos, "field %s assigned twice", fc.dst)
				bad = true
			}
			got[fc.dst] = fc
		}
		var names []string
		for k := range got {
			names = append(names, k)
		}
		sort.Strings(names)
		if !bad {
			if strings.Join(names, ",") == strings.Join(expect, ",") {
				r.OK(c, fi.Decl.Pos(), "assigns exactly {%s} of the indexed child, each from the same-named field of the update", strings.Join(names, ","))
			} else {
				r.Bad(c, fi.Decl.Pos(), "assigns {%s}; the update carries {%s} for the child", strings.Join(names, ","), strings.Join(expect, ","))
			}
		}
		if spec.target == core.ModulePath+".Member" {
			seen := false
			for _, fc := range copies {
				if fc.dst == "Orientation" {
					seen = true
				}
			}
			if !seen {
				r.Bad("flip@"+spec.fn+" Orientation", fi.Decl.Pos(), "no orientation flip for reversed way members")
			}
		}
	}
	// LineStringAt: ls[u.Index][k] = u.F where Point() puts F at slot k
	slots := pointSlots(r, "WayNode.Point")
	fi := findFunc(pk, "(*Way).LineStringAt")
	if fi == nil {
		r.Anchor("(*Way).LineStringAt")
		return
	}
	if slots == nil {
		return
	}
	found := map[int64]string{}
	ast.Inspect(fi.Decl.Body, func(n ast.Node) bool {
		as, ok := n.(*ast.AssignStmt)
		if !ok || len(as.Lhs) != 1 || len(as.Rhs) != 1 {
			return true
		}
		outer, ok := ast.Unparen(as.Lhs[0]).(*ast.IndexExpr)
		if !ok {
			return true
		}
		inner, ok := ast.Unparen(outer.X).(*ast.IndexExpr)
		if !ok || !isUpdateIndex(info, inner.Index) {
			return true
		}
		k, ok := constInt(info, outer.Index)
		if !ok {
			r.Unknown("slot@LineStringAt", as.Pos(), "non-constant point slot in `%s`", src(r.P.Fset, as))
			return true
		}
		sf := fieldOf(info, as.Rhs[0])
		name := ""
		if sf != nil && namedPath(info.TypeOf(ast.Unparen(as.Rhs[0]).(*ast.SelectorExpr).X)) == core.ModulePath+".Update" &&
			sameExpr(info, ast.Unparen(as.Rhs[0]).(*ast.SelectorExpr).X, ast.Unparen(inner.Index).(*ast.SelectorExpr).X) {
			name = sf.Name()
		}
		found[k] = name
		c := "slot@(*Way).LineStringAt [" + src(r.P.Fset, outer.Index) + "]"
		if name == slots[k] {
			r.OK(c, as.Pos(), "point slot %d receives u.%s, the field WayNode.Point() stores in slot %d", k, name, k)
		} else {
			r.Bad(c, as.Pos(), "`%s`: WayNode.Point() stores %s in slot %d, so geometry-at-time disagrees with applying the update", src(r.P.Fset, as), slots[k], k)
		}
		return true
	})
	for k, f := range slots {
		if _, ok := found[k]; !ok {
			r.Bad("slot@(*Way).LineStringAt ["+string(rune('0'+k))+"]", fi.Decl.Pos(), "LineStringAt never writes point slot %d (%s) from the update", k, f)
		}
	}
}

// pointSlots derives slot -> field name from the composite literal returned by a Point() method.
func pointSlots(r *core.R, fn string) map[int64]string {
	pk := r.P.Pkg("")
	fi := findFunc(pk, fn)
	if fi == nil {
		r.Anchor(fn)
		return nil
	}
	var res map[int64]string
	ast.Inspect(fi.Decl.Body, func(n ast.Node) bool {
		ret, ok := n.(*ast.ReturnStmt)
		if !ok || len(ret.Results) != 1 {
			return true
		}
		cl, ok := ast.Unparen(ret.Results[0]).(*ast.CompositeLit)
		if !ok {
			return true
		}
		res = map[int64]string{}
		for i, e := range cl.Elts {
			if f := fieldOf(pk.TypesInfo, e); f != nil {
				res[int64(i)] = f.Name()
			}
		}
		return true
	})
	if len(res) != 2 {
		r.Anchor(fn + " returning orb.Point{a.X, a.Y}")
		return nil
	}
	return res
}
