package rules

import (
	"osmcheck/core"
)

// C15: applying updates is exact, composable and agrees with geometry-at-time.
//
// Files: c15.go (registration, sensitivity and robustness suites), c15_model.go (paths, call environments, oracle,
// CFG walks), c15_u1.go … c15_u5.go (one rule each), c15_shared.go (syntactic helpers other rule files call).
//
// Anchors are exported API only: (*Way).ApplyUpdatesUpTo, (*Relation).ApplyUpdatesUpTo, Updates.UpTo,
// (*Way).LineStringAt, WayNode.Point, the types Update / Updates / WayNode / Member and their fields. Unexported
// functions (applyUpdate today) are found by role: "called from the scanning loop with the loop's element",
// "assigns to a field of <receiver>.<children>[<update>.Index]".

func init() {
	register(&core.Property{
		ID:    "C15",
		Title: "Applying updates is exact, composable and agrees with geometry-at-time",
		Explanation: "Structural necessary conditions, decided by finite-domain evaluation of the control-flow graphs of every exported function of package osm that has a time parameter t and reaches (itself or through unexported helpers) a loop over an osm.Updates value: " +
			"(U1) each such loop, evaluated for the element's Timestamp before / equal to / after t, treats an update after t by paths that all return to the loop head (no break, return, panic) with effects disjoint from the in-time effects, and treats `before` and `equal` alike (stored order is index order, not time order); a loop over the result of a function verified to return exactly the in-time elements of its input in order (Updates.UpTo, or one result of a splitter helper), called with t, counts as already classified; " +
			"(U2) in ApplyUpdatesUpTo the only effect for an update after t is `P = append(P, u)` on every path, P has no other non-empty assignment and is stored back into the scanned Updates field before every success return and never on a path that returns an error (a list that a helper returns together with an error is stored exactly when that error is nil); every update at or before t reaches the call that applies it, and a non-nil error of that call always reaches a return that carries it; " +
			"(U3) every X[u.Index] is controlled by tests that establish 0 <= u.Index < len(X) — both sides, because Update.Index is a signed int read from xml/json and a negative index panics; one unsigned comparison `uint(u.Index) >= uint(len(X))` counts for both sides, `uint(u.Index) <= uint(len(X)-1)` for neither (it passes every index when X is empty) — in the function or at every call site of an unexported function; and for an in-time update whose Index is at or beyond the length, or negative, ApplyUpdatesUpTo ends in a return with a non-nil error on every path; " +
			"(U4) the code reached from ApplyUpdatesUpTo assigns exactly Version, ChangesetID, Lat, Lon of <receiver>.<children>[u.Index] from the same-named fields of the scanned update on every success path of an in-range update, negates Orientation exactly when u.Reverse holds, and LineStringAt writes the update's coordinates into the point slots WayNode.Point uses; " +
			"(U5) every return with a nil error / normal result of these functions is dominated by the normal exit of the loop over the update list (or is taken under an empty-list test), and the loop has no break: no shortcut skips the scan. " +
			"The rules look through unexported helpers, predicate helpers, boolean locals, pointer aliases, merged / inverted / switch-form guards, index loops and renamed locals, and through calls of function values: a function-typed parameter (or single-definition local) is followed to the method value, function name or function literal bound at the call site, and the callee is evaluated with that value bound (receiver / captured variables read where the value was formed). " +
			"Also understood: loops left through a condition variable or a break with the error pending (`err = X; leave; … return err` is read as `return X`, and the store of the pending list is then decided for err == nil / err != nil); partition-then-apply (a helper that returns the in-time and the later list, each verified by the partition rule, whichever way `not after` is spelled); element updates as field stores through the index, through an element pointer, or as copy / modify / store-back of the whole element (the copy must start from the very element, every field assignment must precede the store, the store must be unconditional); range tests over converted operands and `len-1` (an unsigned comparison with len-1 is recognised and rejected: it passes every index for an empty list). " +
			"Allocation-motivated forms are understood too: the pending / result list allocated on first use (`X = <empty list>` only where X is known to be still empty) or sized by a counting pre-pass (a loop whose only effect is an increment handles nothing: it is no candidate for the pending / apply roles and its exit does not complete the scan; an early return under `count == 0` is accepted when the count — a counter, a counting helper, or len minus such a count — is the number of updates at or before t). " +
			"NOT decided: composability t1 then t2 and geometry equality as values; which error type reports an out-of-range index; pending lists filled by index (`X[k] = u; k++`) or carved from a shared backing array with three-index slices (reported as not `X = append(X, u)`), callback iterators whose callback itself classifies the update by time (the classification is then inside the callee of a loop that does not test t: reported, not passed), partition results carried in a struct instead of a tuple, `for {}` loops with a hand-written index test; function values that are stored in fields, returned from calls or assigned more than once (the call is then opaque: an effect whose callee is unknown, and the API anchor or the apply obligation fails instead of passing); which children were already changed when ApplyUpdatesUpTo returns an error; behaviour of callers outside package osm.",
		Assumptions: []string{"go/types, go/cfg (x/tools v0.29.0)", "semantics of time.Time.After/Before/Equal/Compare", "orb.Point is [2]float64", "static calls inside package osm resolve to the declared function; a function-typed parameter holds the value bound at the call site being followed"},
		LevelText:   "Structural necessary conditions of the update-application semantics, decided by evaluating the CFG of every time-bounded scan of an osm.Updates list for the abstract inputs {Timestamp before, equal, after t} x {Index in range, out of range} x {Reverse true, false}: skip-not-stop on too-late updates, inclusive bound, pending list kept in order and stored back, in-time updates applied with error propagation, index guard, out-of-range reported, field copy agreement, orientation flip, geometry slots, no success exit before the scan completed. Value-level composability and geometry equality are not decided.",
		LevelNote:   "Trusts the Go type checker and go/cfg; semantics of time.Time comparisons; rules cover package osm only (the loops the property names). Helpers are followed through static calls to depth 4; anything else is reported as undecided.",
		Technique:   "finite-domain evaluation of per-function CFGs (go/cfg) under three-valued oracles, with interprocedural parameter binding, alias-resolved access paths and guard facts",
		DesignRef:   "DESIGN.md §5 C15",
		Rules: []*core.Rule{
			{ID: "U1", Floor: 4, Doc: "every time-bounded loop over Updates skips (never stops at) an update after t, keeps its handling disjoint from the in-time handling, and treats `equal to t` as in time", Run: c15U1},
			{ID: "U2", Floor: 4, Doc: "ApplyUpdatesUpTo keeps exactly the updates after t, in order, as the new pending list; applies every other update; propagates the error", Run: c15U2},
			{ID: "U3", Floor: 5, Doc: "every X[u.Index] is controlled by 0 <= u.Index < len(X) (both sides); an in-time update with an index outside [0, len) makes ApplyUpdatesUpTo return a non-nil error", Run: c15U3},
			{ID: "U4", Floor: 5, Doc: "child field copies / orientation flip reached from ApplyUpdatesUpTo and point slots in LineStringAt agree, unconditionally for in-range in-time updates", Run: c15U4},
			{ID: "U5", Floor: 4, Doc: "no success exit of a time-bounded scan before the loop over the update list has completed", Run: c15U5},
		},
		Mutants: append([]core.Mutant{
			{Name: "way-apply-break", File: "way.go", Find: "notApplied = append(notApplied, u)\n\t\t\tcontinue", Replace: "notApplied = append(notApplied, u)\n\t\t\tbreak", ExpectRule: "U1", ExpectConstruct: "(*Way).ApplyUpdatesUpTo"},
			{Name: "upto-break", File: "update.go", Find: "if u.Timestamp.After(t) {\n\t\t\tcontinue", Replace: "if u.Timestamp.After(t) {\n\t\t\tbreak", ExpectRule: "U1", ExpectConstruct: "Updates.UpTo"},
			{Name: "upto-before", File: "update.go", Find: "if u.Timestamp.After(t) {\n\t\t\tcontinue", Replace: "if u.Timestamp.Before(t) {\n\t\t\tcontinue", ExpectRule: "U1", ExpectConstruct: "Updates.UpTo"},
			{Name: "upto-exclusive", File: "update.go", Find: "if u.Timestamp.After(t) {\n\t\t\tcontinue", Replace: "if !u.Timestamp.Before(t) {\n\t\t\tcontinue", ExpectRule: "U1", ExpectConstruct: "Updates.UpTo"},
			{Name: "lsat-no-test", File: "way.go", Find: "\t\tif u.Timestamp.After(t) {\n\t\t\tcontinue\n\t\t}\n\n\t\tif u.Index < 0 || u.Index >= len(ls)", Replace: "\t\tif u.Index < 0 || u.Index >= len(ls)", ExpectRule: "U1", ExpectConstruct: "(*Way).LineStringAt"},
			{Name: "lsat-return-on-late", File: "way.go", Find: "\t\tif u.Timestamp.After(t) {\n\t\t\tcontinue\n\t\t}\n\n\t\tif u.Index < 0 || u.Index >= len(ls)", Replace: "\t\tif u.Timestamp.After(t) {\n\t\t\treturn ls\n\t\t}\n\n\t\tif u.Index < 0 || u.Index >= len(ls)", ExpectRule: "U1", ExpectConstruct: "(*Way).LineStringAt"},
			{Name: "rel-drop-pending", File: "relation.go", Find: "\t\t\tnotApplied = append(notApplied, u)\n", Replace: "", ExpectRule: "U2", ExpectConstruct: "pending@(*Relation).ApplyUpdatesUpTo"},
			{Name: "way-drop-store", File: "way.go", Find: "\tw.Updates = notApplied\n", Replace: "", ExpectRule: "U2", ExpectConstruct: "pending@(*Way).ApplyUpdatesUpTo"},
			{Name: "rel-pending-prepend", File: "relation.go", Find: "notApplied = append(notApplied, u)", Replace: "notApplied = append([]Update{u}, notApplied...)", ExpectRule: "U2", ExpectConstruct: "pending@(*Relation).ApplyUpdatesUpTo"},
			{Name: "way-error-swallowed", File: "way.go", Find: "if err := w.applyUpdate(u); err != nil {\n\t\t\treturn err\n\t\t}", Replace: "if err := w.applyUpdate(u); err != nil {\n\t\t\tcontinue\n\t\t}", ExpectRule: "U2", ExpectConstruct: "apply@(*Way).ApplyUpdatesUpTo"},
			{Name: "rel-error-dropped", File: "relation.go", Find: "if err := r.applyUpdate(u); err != nil {\n\t\t\treturn err\n\t\t}", Replace: "_ = r.applyUpdate(u)", ExpectRule: "U2", ExpectConstruct: "apply@(*Relation).ApplyUpdatesUpTo"},
			{Name: "way-guard-gt", File: "way.go", Find: "if u.Index < 0 || u.Index >= len(w.Nodes) {", Replace: "if u.Index < 0 || u.Index > len(w.Nodes) {", ExpectRule: "U3", ExpectConstruct: "index@Way.Nodes"},
			{Name: "lsat-guard-dropped", File: "way.go", Find: "if u.Index < 0 || u.Index >= len(ls) {\n\t\t\tcontinue\n\t\t}\n", Replace: "", ExpectRule: "U3", ExpectConstruct: "(*Way).LineStringAt"},
			{Name: "rel-guard-other-list", File: "relation.go", Find: "if u.Index < 0 || u.Index >= len(r.Members) {", Replace: "if u.Index < 0 || u.Index >= len(r.Updates) {", ExpectRule: "U3", ExpectConstruct: "index@Relation.Members"},
			{Name: "rel-oob-silent", File: "relation.go", Find: "return &UpdateIndexOutOfRangeError{Index: u.Index}", Replace: "return nil", ExpectRule: "U3", ExpectConstruct: "oob@(*Relation).ApplyUpdatesUpTo"},
			{Name: "rel-latlon-swapped", File: "relation.go", Find: "r.Members[u.Index].Lat = u.Lat", Replace: "r.Members[u.Index].Lat = u.Lon", ExpectRule: "U4", ExpectConstruct: "copy@Relation.Members"},
			{Name: "lsat-latlon-swapped", File: "way.go", Find: "ls[u.Index][0] = u.Lon", Replace: "ls[u.Index][0] = u.Lat", ExpectRule: "U4", ExpectConstruct: "LineStringAt"},
			{Name: "rel-reverse-unconditional", File: "relation.go", Find: "if u.Reverse {\n\t\tr.Members[u.Index].Orientation *= -1\n\t}", Replace: "r.Members[u.Index].Orientation *= -1", ExpectRule: "U4", ExpectConstruct: "Orientation"},
			{Name: "rel-reverse-inverted", File: "relation.go", Find: "if u.Reverse {\n\t\tr.Members[u.Index].Orientation *= -1", Replace: "if !u.Reverse {\n\t\tr.Members[u.Index].Orientation *= -1", ExpectRule: "U4", ExpectConstruct: "Orientation"},
			{Name: "way-drop-changeset", File: "way.go", Find: "\tw.Nodes[u.Index].ChangesetID = u.ChangesetID\n", Replace: "", ExpectRule: "U4", ExpectConstruct: "copy@Way.Nodes"},
			{Name: "way-lat-conditional", File: "way.go", Find: "\tw.Nodes[u.Index].Lat = u.Lat\n", Replace: "\tif u.Lat != 0 {\n\t\tw.Nodes[u.Index].Lat = u.Lat\n\t}\n", ExpectRule: "U4", ExpectConstruct: "copy@Way.Nodes"},
			{Name: "way-copy-to-local", File: "way.go", Find: "\tw.Nodes[u.Index].Version = u.Version\n\tw.Nodes[u.Index].ChangesetID = u.ChangesetID\n\tw.Nodes[u.Index].Lat = u.Lat\n\tw.Nodes[u.Index].Lon = u.Lon\n", Replace: "\tn := w.Nodes[u.Index]\n\tn.Version = u.Version\n\tn.ChangesetID = u.ChangesetID\n\tn.Lat = u.Lat\n\tn.Lon = u.Lon\n", ExpectRule: "U4", ExpectConstruct: "copy@"},
			{Name: "way-early-success", File: "way.go", Find: "func (w *Way) ApplyUpdatesUpTo(t time.Time) error {\n", Replace: "func (w *Way) ApplyUpdatesUpTo(t time.Time) error {\n\tif t.Before(w.Timestamp) {\n\t\treturn nil\n\t}\n", ExpectRule: "U5", ExpectConstruct: "complete@(*Way).ApplyUpdatesUpTo"},
			{Name: "rel-early-success", File: "relation.go", Find: "func (r *Relation) ApplyUpdatesUpTo(t time.Time) error {\n", Replace: "func (r *Relation) ApplyUpdatesUpTo(t time.Time) error {\n\tif t.Before(r.Timestamp) {\n\t\treturn nil\n\t}\n", ExpectRule: "U5", ExpectConstruct: "complete@(*Relation).ApplyUpdatesUpTo"},
			{Name: "lsat-early-result", File: "way.go", Find: "func (w *Way) LineStringAt(t time.Time) orb.LineString {\n", Replace: "func (w *Way) LineStringAt(t time.Time) orb.LineString {\n\tif t.Before(w.Timestamp) {\n\t\treturn w.LineString()\n\t}\n", ExpectRule: "U5", ExpectConstruct: "complete@(*Way).LineStringAt"},
			{Name: "way-first-only", File: "way.go", Find: "\t\tif err := w.applyUpdate(u); err != nil {\n\t\t\treturn err\n\t\t}\n\t}", Replace: "\t\treturn w.applyUpdate(u)\n\t}", ExpectRule: "U5", ExpectConstruct: "complete@(*Way).ApplyUpdatesUpTo"},
		}, append(append(append(append([]core.Mutant{}, c15Mutants2...), c15Mutants3...), c15Mutants4...), c15Mutants5...)...),
		Benign: append(append(append(append(append([]core.Mutant{}, c15Benign...), c15Benign2...), c15Benign3...), c15Benign4...), c15Benign5...),
	})
}

// c15Benign: behaviour-preserving rewrites of the anchored code (one overlay edit each); the rules must stay silent.
var c15Benign = []core.Mutant{
	// 1 extract: predicate helper for the too-late test
	{Name: "upto-predicate-helper", File: "update.go",
		Find:    "func (us Updates) UpTo(t time.Time) Updates {\n\tvar result Updates\n\n\tfor _, u := range us {\n\t\tif u.Timestamp.After(t) {",
		Replace: "func (u Update) laterThan(cutoff time.Time) bool { return cutoff.Before(u.Timestamp) }\n\nfunc (us Updates) UpTo(t time.Time) Updates {\n\tvar result Updates\n\n\tfor _, u := range us {\n\t\tif u.laterThan(t) {"},
	// 1 extract: the whole scan moves into an unexported helper that returns the pending list
	{Name: "way-scan-extracted", File: "way.go",
		Find:    "func (w *Way) ApplyUpdatesUpTo(t time.Time) error {\n\tvar notApplied []Update\n\tfor _, u := range w.Updates {\n\t\tif u.Timestamp.After(t) {\n\t\t\tnotApplied = append(notApplied, u)\n\t\t\tcontinue\n\t\t}\n\n\t\tif err := w.applyUpdate(u); err != nil {\n\t\t\treturn err\n\t\t}\n\t}\n\n\tw.Updates = notApplied\n\treturn nil\n}",
		Replace: "func (w *Way) ApplyUpdatesUpTo(t time.Time) error {\n\tlater, err := w.applyDue(t)\n\tif err != nil {\n\t\treturn err\n\t}\n\n\tw.Updates = later\n\treturn nil\n}\n\nfunc (w *Way) applyDue(limit time.Time) ([]Update, error) {\n\tvar later []Update\n\tfor _, up := range w.Updates {\n\t\tif up.Timestamp.After(limit) {\n\t\t\tlater = append(later, up)\n\t\t\tcontinue\n\t\t}\n\n\t\tif err := w.applyUpdate(up); err != nil {\n\t\t\treturn nil, err\n\t\t}\n\t}\n\n\treturn later, nil\n}"},
	// 1 inline: applyUpdate inlined into the loop
	{Name: "way-apply-inlined", File: "way.go",
		Find:    "\t\tif err := w.applyUpdate(u); err != nil {\n\t\t\treturn err\n\t\t}\n\t}\n\n\tw.Updates = notApplied",
		Replace: "\t\tif u.Index < 0 || u.Index >= len(w.Nodes) {\n\t\t\treturn &UpdateIndexOutOfRangeError{Index: u.Index}\n\t\t}\n\n\t\tnode := &w.Nodes[u.Index]\n\t\tnode.Version = u.Version\n\t\tnode.ChangesetID = u.ChangesetID\n\t\tnode.Lat = u.Lat\n\t\tnode.Lon = u.Lon\n\t}\n\n\tw.Updates = notApplied"},
	// 1 extract: range test of applyUpdate moves into a helper returning the error
	{Name: "rel-guard-helper", File: "relation.go",
		Find:    "func (r *Relation) applyUpdate(u Update) error {\n\tif u.Index < 0 || u.Index >= len(r.Members) {\n\t\treturn &UpdateIndexOutOfRangeError{Index: u.Index}\n\t}\n",
		Replace: "func (r *Relation) hasMember(i int) bool { return 0 <= i && i < len(r.Members) }\n\nfunc (r *Relation) applyUpdate(u Update) error {\n\tif !r.hasMember(u.Index) {\n\t\treturn &UpdateIndexOutOfRangeError{Index: u.Index}\n\t}\n"},
	// 2 if -> tagless switch
	{Name: "rel-switch-form", File: "relation.go",
		Find:    "\t\tif u.Timestamp.After(t) {\n\t\t\tnotApplied = append(notApplied, u)\n\t\t\tcontinue\n\t\t}\n\n\t\tif err := r.applyUpdate(u); err != nil {\n\t\t\treturn err\n\t\t}\n",
		Replace: "\t\tswitch {\n\t\tcase u.Timestamp.After(t):\n\t\t\tnotApplied = append(notApplied, u)\n\t\tdefault:\n\t\t\tif err := r.applyUpdate(u); err != nil {\n\t\t\t\treturn err\n\t\t\t}\n\t\t}\n"},
	// 2 inverted branch + nesting instead of early continue, merged guards
	{Name: "lsat-nested", File: "way.go",
		Find:    "\t\tif u.Timestamp.After(t) {\n\t\t\tcontinue\n\t\t}\n\n\t\tif u.Index < 0 || u.Index >= len(ls) {\n\t\t\tcontinue\n\t\t}\n\n\t\tls[u.Index][0] = u.Lon\n\t\tls[u.Index][1] = u.Lat\n",
		Replace: "\t\tif !u.Timestamp.After(t) && u.Index >= 0 && u.Index < len(ls) {\n\t\t\tls[u.Index][0] = u.Lon\n\t\t\tls[u.Index][1] = u.Lat\n\t\t}\n"},
	// 2 Before||Equal spelling of "not after", if/else
	{Name: "upto-before-or-equal", File: "update.go",
		Find:    "\t\tif u.Timestamp.After(t) {\n\t\t\tcontinue\n\t\t}\n\n\t\tresult = append(result, u)\n",
		Replace: "\t\tif u.Timestamp.Before(t) || u.Timestamp.Equal(t) {\n\t\t\tresult = append(result, u)\n\t\t} else {\n\t\t\tcontinue\n\t\t}\n"},
	// 3 pointer alias + boolean local
	{Name: "lsat-pointer-alias", File: "way.go",
		Find:    "\t\tif u.Timestamp.After(t) {\n\t\t\tcontinue\n\t\t}\n\n\t\tif u.Index < 0 || u.Index >= len(ls) {\n\t\t\tcontinue\n\t\t}\n\n\t\tls[u.Index][0] = u.Lon\n\t\tls[u.Index][1] = u.Lat\n",
		Replace: "\t\ttooLate := u.Timestamp.After(t)\n\t\tif tooLate {\n\t\t\tcontinue\n\t\t}\n\n\t\tidx := u.Index\n\t\tif idx < 0 || idx >= len(ls) {\n\t\t\tcontinue\n\t\t}\n\n\t\tpt := &ls[idx]\n\t\tpt[0] = u.Lon\n\t\tpt[1] = u.Lat\n"},
	// 3 named constants for the slots, whole-point assignment
	{Name: "lsat-whole-point", File: "way.go",
		Find:    "\t\tls[u.Index][0] = u.Lon\n\t\tls[u.Index][1] = u.Lat\n",
		Replace: "\t\tls[u.Index] = orb.Point{u.Lon, u.Lat}\n"},
	{Name: "lsat-named-slots", File: "way.go",
		Find:    "\t\tls[u.Index][0] = u.Lon\n\t\tls[u.Index][1] = u.Lat\n",
		Replace: "\t\tconst (\n\t\t\tlonSlot = iota\n\t\t\tlatSlot\n\t\t)\n\t\tls[u.Index][latSlot] = u.Lat\n\t\tls[u.Index][lonSlot] = u.Lon\n"},
	// 3 renamed locals + index loop with element pointer
	{Name: "rel-index-loop", File: "relation.go",
		Find:    "\tvar notApplied []Update\n\tfor _, u := range r.Updates {\n\t\tif u.Timestamp.After(t) {\n\t\t\tnotApplied = append(notApplied, u)\n\t\t\tcontinue\n\t\t}\n\n\t\tif err := r.applyUpdate(u); err != nil {\n\t\t\treturn err\n\t\t}\n\t}\n\n\tr.Updates = notApplied\n",
		Replace: "\tvar keep []Update\n\tfor i := range r.Updates {\n\t\tup := &r.Updates[i]\n\t\tif up.Timestamp.After(t) {\n\t\t\tkeep = append(keep, *up)\n\t\t\tcontinue\n\t\t}\n\n\t\tif err := r.applyUpdate(*up); err != nil {\n\t\t\treturn err\n\t\t}\n\t}\n\n\tr.Updates = keep\n"},
	{Name: "upto-classic-for", File: "update.go",
		Find:    "\tfor _, u := range us {\n\t\tif u.Timestamp.After(t) {\n\t\t\tcontinue\n\t\t}\n\n\t\tresult = append(result, u)\n\t}\n",
		Replace: "\tfor i := 0; i < len(us); i++ {\n\t\tif t.Before(us[i].Timestamp) {\n\t\t\tcontinue\n\t\t}\n\n\t\tresult = append(result, us[i])\n\t}\n"},
	// 2 if-init split, err variable, inverted error test
	{Name: "way-err-else", File: "way.go",
		Find:    "\t\tif err := w.applyUpdate(u); err != nil {\n\t\t\treturn err\n\t\t}\n\t}\n\n\tw.Updates = notApplied",
		Replace: "\t\terr := w.applyUpdate(u)\n\t\tif err == nil {\n\t\t\tcontinue\n\t\t}\n\n\t\treturn err\n\t}\n\n\tw.Updates = notApplied"},
	// 4 reordered independent statements
	{Name: "rel-copies-reordered", File: "relation.go",
		Find:    "\tr.Members[u.Index].Version = u.Version\n\tr.Members[u.Index].ChangesetID = u.ChangesetID\n\tr.Members[u.Index].Lat = u.Lat\n\tr.Members[u.Index].Lon = u.Lon\n\n\tif u.Reverse {\n\t\tr.Members[u.Index].Orientation *= -1\n\t}\n",
		Replace: "\tmembers := r.Members\n\tif u.Reverse {\n\t\tmembers[u.Index].Orientation = -members[u.Index].Orientation\n\t}\n\n\tmembers[u.Index].Lon = u.Lon\n\tmembers[u.Index].Lat = u.Lat\n\tmembers[u.Index].ChangesetID = u.ChangesetID\n\tmembers[u.Index].Version = u.Version\n"},
	{Name: "lsat-guards-swapped", File: "way.go",
		Find:    "\t\tif u.Timestamp.After(t) {\n\t\t\tcontinue\n\t\t}\n\n\t\tif u.Index < 0 || u.Index >= len(ls) {\n\t\t\tcontinue\n\t\t}\n",
		Replace: "\t\tif u.Index < 0 || len(ls) <= u.Index {\n\t\t\tcontinue\n\t\t}\n\n\t\tif u.Timestamp.After(t) {\n\t\t\tcontinue\n\t\t}\n"},
	// reuse of the verified filter as the source of the scan
	{Name: "lsat-filtered-source", File: "way.go",
		Find:    "\tfor _, u := range w.Updates {\n\t\tif u.Timestamp.After(t) {\n\t\t\tcontinue\n\t\t}\n\n\t\tif u.Index < 0 || u.Index >= len(ls) {",
		Replace: "\tfor _, u := range w.Updates.UpTo(t) {\n\t\tif u.Index < 0 || u.Index >= len(ls) {"},
	// early exit when there is nothing to scan; preallocated-empty pending list is NOT used (changes nil-ness)
	{Name: "way-empty-shortcut", File: "way.go",
		Find:    "func (w *Way) ApplyUpdatesUpTo(t time.Time) error {\n",
		Replace: "func (w *Way) ApplyUpdatesUpTo(t time.Time) error {\n\tif len(w.Updates) == 0 {\n\t\treturn nil\n\t}\n\n"},
	// guard of applyUpdate inverted: success path nested
	{Name: "way-guard-inverted", File: "way.go",
		Find:    "\tif u.Index < 0 || u.Index >= len(w.Nodes) {\n\t\treturn &UpdateIndexOutOfRangeError{Index: u.Index}\n\t}\n\n\tw.Nodes[u.Index].Version = u.Version\n\tw.Nodes[u.Index].ChangesetID = u.ChangesetID\n\tw.Nodes[u.Index].Lat = u.Lat\n\tw.Nodes[u.Index].Lon = u.Lon\n\n\treturn nil\n",
		Replace: "\tif i := u.Index; i >= 0 && i < len(w.Nodes) {\n\t\tw.Nodes[i].Version = u.Version\n\t\tw.Nodes[i].ChangesetID = u.ChangesetID\n\t\tw.Nodes[i].Lat = u.Lat\n\t\tw.Nodes[i].Lon = u.Lon\n\t\treturn nil\n\t}\n\n\treturn &UpdateIndexOutOfRangeError{Index: u.Index}\n"},
	// named error result with bare returns
	{Name: "rel-named-result", File: "relation.go",
		Find:    "func (r *Relation) ApplyUpdatesUpTo(t time.Time) error {\n\tvar notApplied []Update\n\tfor _, u := range r.Updates {\n\t\tif u.Timestamp.After(t) {\n\t\t\tnotApplied = append(notApplied, u)\n\t\t\tcontinue\n\t\t}\n\n\t\tif err := r.applyUpdate(u); err != nil {\n\t\t\treturn err\n\t\t}\n\t}\n\n\tr.Updates = notApplied\n\treturn nil\n}",
		Replace: "func (r *Relation) ApplyUpdatesUpTo(t time.Time) (err error) {\n\tvar notApplied []Update\n\tfor _, u := range r.Updates {\n\t\tif u.Timestamp.After(t) {\n\t\t\tnotApplied = append(notApplied, u)\n\t\t\tcontinue\n\t\t}\n\n\t\tif err = r.applyUpdate(u); err != nil {\n\t\t\treturn\n\t\t}\n\t}\n\n\tr.Updates = notApplied\n\treturn nil\n}"},
	// the update is handed over by pointer
	{Name: "way-apply-by-pointer", File: "way.go",
		Find:    "\t\tif err := w.applyUpdate(u); err != nil {\n\t\t\treturn err\n\t\t}\n\t}\n\n\tw.Updates = notApplied\n\treturn nil\n}\n\n// applyUpdate will modify the current way and dictated by the given update.\n// Will return UpdateIndexOutOfRangeError if the update index is too large.\nfunc (w *Way) applyUpdate(u Update) error {",
		Replace: "\t\tif err := w.applyUpdate(&u); err != nil {\n\t\t\treturn err\n\t\t}\n\t}\n\n\tw.Updates = notApplied\n\treturn nil\n}\n\n// applyUpdate will modify the current way and dictated by the given update.\n// Will return UpdateIndexOutOfRangeError if the update index is too large.\nfunc (w *Way) applyUpdate(u *Update) error {"},
	// two-argument predicate helper taking the timestamp by value
	{Name: "way-late-helper", File: "way.go",
		Find:    "func (w *Way) ApplyUpdatesUpTo(t time.Time) error {\n\tvar notApplied []Update\n\tfor _, u := range w.Updates {\n\t\tif u.Timestamp.After(t) {",
		Replace: "func laterThan(stamp, limit time.Time) bool { return stamp.After(limit) }\n\nfunc (w *Way) ApplyUpdatesUpTo(t time.Time) error {\n\tvar notApplied []Update\n\tfor _, u := range w.Updates {\n\t\tif laterThan(u.Timestamp, t) {"},
	// two passes: apply the filtered list, then collect the later updates
	{Name: "way-two-passes", File: "way.go",
		Find:    "\tvar notApplied []Update\n\tfor _, u := range w.Updates {\n\t\tif u.Timestamp.After(t) {\n\t\t\tnotApplied = append(notApplied, u)\n\t\t\tcontinue\n\t\t}\n\n\t\tif err := w.applyUpdate(u); err != nil {\n\t\t\treturn err\n\t\t}\n\t}\n",
		Replace: "\tfor _, u := range w.Updates.UpTo(t) {\n\t\tif err := w.applyUpdate(u); err != nil {\n\t\t\treturn err\n\t\t}\n\t}\n\n\tvar notApplied []Update\n\tfor _, u := range w.Updates {\n\t\tif u.Timestamp.After(t) {\n\t\t\tnotApplied = append(notApplied, u)\n\t\t}\n\t}\n"},
	// range test extracted into an error-returning helper over plain ints, field copies into a setter helper
	{Name: "way-check-and-set-helpers", File: "way.go",
		Find:    "\tif u.Index < 0 || u.Index >= len(w.Nodes) {\n\t\treturn &UpdateIndexOutOfRangeError{Index: u.Index}\n\t}\n\n\tw.Nodes[u.Index].Version = u.Version\n\tw.Nodes[u.Index].ChangesetID = u.ChangesetID\n\tw.Nodes[u.Index].Lat = u.Lat\n\tw.Nodes[u.Index].Lon = u.Lon\n\n\treturn nil\n}\n",
		Replace: "\tif err := checkIndex(u.Index, len(w.Nodes)); err != nil {\n\t\treturn err\n\t}\n\n\tsetNode(&w.Nodes[u.Index], u)\n\treturn nil\n}\n\nfunc checkIndex(i, n int) error {\n\tif i < 0 || i >= n {\n\t\treturn &UpdateIndexOutOfRangeError{Index: i}\n\t}\n\treturn nil\n}\n\nfunc setNode(n *WayNode, u Update) {\n\tn.Version = u.Version\n\tn.ChangesetID = u.ChangesetID\n\tn.Lat, n.Lon = u.Lat, u.Lon\n}\n"},
	// orientation flip extracted into a method of the member
	{Name: "rel-flip-helper", File: "relation.go",
		Find:    "\tif u.Reverse {\n\t\tr.Members[u.Index].Orientation *= -1\n\t}\n\n\treturn nil\n}\n",
		Replace: "\tif u.Reverse {\n\t\tr.Members[u.Index].flip()\n\t}\n\n\treturn nil\n}\n\nfunc (m *Member) flip() { m.Orientation *= -1 }\n"},
	// classification extracted into a two-result splitter; the API applies one list and stores the other
	{Name: "way-splitter", File: "way.go",
		Find:    "func (w *Way) ApplyUpdatesUpTo(t time.Time) error {\n\tvar notApplied []Update\n\tfor _, u := range w.Updates {\n\t\tif u.Timestamp.After(t) {\n\t\t\tnotApplied = append(notApplied, u)\n\t\t\tcontinue\n\t\t}\n\n\t\tif err := w.applyUpdate(u); err != nil {\n\t\t\treturn err\n\t\t}\n\t}\n\n\tw.Updates = notApplied\n",
		Replace: "func splitUpdates(us Updates, t time.Time) (due, later Updates) {\n\tfor _, u := range us {\n\t\tif u.Timestamp.After(t) {\n\t\t\tlater = append(later, u)\n\t\t} else {\n\t\t\tdue = append(due, u)\n\t\t}\n\t}\n\n\treturn due, later\n}\n\nfunc (w *Way) ApplyUpdatesUpTo(t time.Time) error {\n\tdue, later := splitUpdates(w.Updates, t)\n\tfor _, u := range due {\n\t\tif err := w.applyUpdate(u); err != nil {\n\t\t\treturn err\n\t\t}\n\t}\n\n\tw.Updates = later\n"},
}
