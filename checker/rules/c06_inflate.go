package rules

import (
	"go/ast"
	"go/types"
	"sort"
	"strings"

	"osmcheck/core"
)

// C06.E12 — the decompressor behind the blob data is one that is known to stop at the end of the compressed stream.
//
// The readers that the blob-data function (and what it calls) drains with ReadFrom / io.ReadAll / io.Copy are traced
// back through locals, parameters, results of functions of the package and the standard wrappers (bufio, io.LimitReader,
// io.TeeReader, io.NopCloser ...) to the calls that construct them outside the module. A constructor of a
// decompressor must be in the table of implementations whose Read is known to terminate when the compressed stream
// has ended and input is left over (damage class "corrupt compressed data" must end in an error or a short read, not
// in a hang inside a single Read call). The construct names the function that holds the constructor call, the build
// configuration and the resolved constructor, not the position of the call, so it is stable under refactorings of the
// blob-data function; the rule runs once per build configuration because the constructor is selected by build tags.

// c06InflateOK: constructors of decompressors that are trusted, which means both of: (a) Read terminates at the end of
// the compressed stream whatever follows it in the input (io.EOF or an error, never a loop without progress); (b) a
// stream whose input ends before the final block and the checksum is reported as an error (io.ErrUnexpectedEOF), not
// as a clean io.EOF, so that truncated or checksum-less data is not accepted on the strength of its length alone.
var c06InflateOK = map[string]bool{
	"compress/zlib.NewReader":      true,
	"compress/zlib.NewReaderDict":  true,
	"compress/flate.NewReader":     true,
	"compress/flate.NewReaderDict": true,
}

// c06ReaderWrappers: functions that return a reader which reads through (some of) their reader arguments.
var c06ReaderWrappers = map[string]bool{
	"bufio.NewReader": true, "bufio.NewReaderSize": true, "io.LimitReader": true, "io.TeeReader": true, "io.NopCloser": true,
	"io/ioutil.NopCloser": true, "io.MultiReader": true, "io.NewSectionReader": true,
}

// c06ByteSources: readers over bytes already in memory (not decompressors).
var c06ByteSources = map[string]bool{
	"bytes.NewReader": true, "bytes.NewBuffer": true, "bytes.NewBufferString": true, "strings.NewReader": true,
}

type c06Ctor struct {
	name   string // pkgpath.Name
	holder string // function holding the call
	call   *ast.CallExpr
}

func c06E12(r *core.R) {
	m := c01PBFModel(r)
	if m == nil {
		return
	}
	info := m.info
	bd := c01BlobDataFunc(r.P, m)
	if bd == nil {
		r.Anchor("function that turns a blob into its data (touches both raw and zlib_data)")
		return
	}
	cfgName := r.P.Config.Name
	if i := strings.Index(cfgName, "("); i >= 0 && strings.HasSuffix(cfgName, ")") {
		cfgName = cfgName[i+1 : len(cfgName)-1]
	}
	var ctors []c06Ctor
	unknown := ""
	seen := map[string]bool{}
	var origins func(f *c01Fn, e ast.Expr, idx, depth int)
	origins = func(f *c01Fn, e ast.Expr, idx, depth int) {
		if e == nil || depth > 8 {
			return
		}
		e = ast.Unparen(e)
		switch x := e.(type) {
		case *ast.Ident:
			o := objOf(info, x)
			if o == nil || isNilIdent(x) {
				return
			}
			key := f.fi.Name() + "/" + o.Name() + "/" + r.P.Rel(o.Pos())
			if seen[key] {
				return
			}
			seen[key] = true
			if pi := c01ParamIndex(info, f.fi, o); pi >= 0 {
				for _, caller := range allFuncs(m.pk) {
					cf := c01FnOf(r.P, caller)
					ast.Inspect(caller.Decl.Body, func(y ast.Node) bool {
						if call, ok := y.(*ast.CallExpr); ok && callee(info, call) == f.fi.Obj && pi < len(call.Args) {
							origins(cf.innermost(call), call.Args[pi], 0, depth+1)
						}
						return true
					})
				}
				return
			}
			for _, d := range c01Defs(info, f.body, o) {
				if d.rhs == nil {
					continue
				}
				di := 0
				if d.index >= 0 {
					di = d.index
				}
				origins(f, d.rhs, di, depth+1)
			}
		case *ast.TypeAssertExpr:
			origins(f, x.X, 0, depth+1)
		case *ast.UnaryExpr:
			origins(f, x.X, 0, depth+1)
		case *ast.CallExpr:
			if c01IsConversion(info, x) && len(x.Args) == 1 {
				origins(f, x.Args[0], 0, depth+1)
				return
			}
			fn := callee(info, x)
			if fn == nil {
				unknown = "`" + src(r.P.Fset, x) + "` is a call through a function value"
				return
			}
			if tf := c01Callee(m.pk, x); tf != nil {
				g := c01FnOf(r.P, tf)
				ast.Inspect(tf.Decl.Body, func(y ast.Node) bool {
					if _, isLit := y.(*ast.FuncLit); isLit {
						return false
					}
					if ret, ok := y.(*ast.ReturnStmt); ok {
						switch {
						case idx < len(ret.Results) && len(ret.Results) > 1, len(ret.Results) == 1 && idx == 0:
							origins(g, ret.Results[idx], 0, depth+1)
						case len(ret.Results) == 1:
							origins(g, ret.Results[0], idx, depth+1)
						}
					}
					return true
				})
				return
			}
			name := fn.Name()
			if fn.Pkg() != nil {
				name = fn.Pkg().Path() + "." + fn.Name()
			}
			if recv := c01RecvTypeOf(fn); recv != nil {
				// a method that hands the reader on (Reset-style APIs are not followed)
				unknown = "`" + src(r.P.Fset, x) + "`: reader obtained from a method of " + namedPath(recv)
				return
			}
			switch {
			case c06ByteSources[name]:
			case c06ReaderWrappers[name]:
				for _, a := range x.Args {
					if t := info.TypeOf(a); t != nil {
						if _, isIface := t.Underlying().(*types.Interface); isIface {
							origins(f, a, 0, depth+1)
						}
					}
				}
			default:
				ctors = append(ctors, c06Ctor{name: name, holder: f.fi.Name(), call: x})
			}
		default:
			unknown = "`" + src(r.P.Fset, e) + "`: reader expression not followed"
		}
	}
	ndrain := 0
	for _, fi := range c01Reachable(r.P, bd) {
		if isGenerated(r.P, fi.Decl.Pos()) {
			continue
		}
		f0 := c01FnOf(r.P, fi)
		ast.Inspect(fi.Decl.Body, func(n ast.Node) bool {
			call, ok := n.(*ast.CallExpr)
			if !ok {
				return true
			}
			var rd ast.Expr
			switch c06DrainKind(info, call) {
			case "ReadFrom", "ReadAll":
				rd = call.Args[0]
			case "Copy", "CopyN":
				rd = call.Args[1]
			case "ReadFull", "ReadAtLeast":
				rd = call.Args[0]
			default:
				return true
			}
			ndrain++
			origins(f0.innermost(call), rd, 0, 0)
			return true
		})
	}
	if ndrain == 0 {
		r.Anchor("call that drains the decompressor below " + bd.Name())
		return
	}
	sort.Slice(ctors, func(i, j int) bool { return ctors[i].holder+ctors[i].name < ctors[j].holder+ctors[j].name })
	done := map[string]bool{}
	for _, ct := range ctors {
		c := "inflate@" + ct.holder + "[" + cfgName + "] " + ct.name
		if done[c] {
			continue
		}
		done[c] = true
		if c06InflateOK[ct.name] {
			r.OK(c, ct.call.Pos(), "the blob data is inflated by a reader from %s, whose Read ends with io.EOF (or an error) at the end of the compressed stream whatever follows it", ct.name)
		} else {
			r.Bad(c, ct.call.Pos(), "in build configuration %s the blob data is inflated by a reader from %s, which is not in the table of decompressors known to behave like compress/zlib: to terminate when the compressed stream has ended and input is left over (otherwise trailing bytes after the zlib stream make a single Read call spin forever and corrupt compressed data hangs the decoder goroutine), and to report a stream whose input ends before the final block and checksum as an error (otherwise truncated or checksum-less data of the right length is accepted). Trusted: compress/zlib, compress/flate", cfgName, ct.name)
		}
	}
	switch {
	case len(ctors) == 0 && unknown != "":
		r.Unknown("inflate@"+bd.Name()+"["+cfgName+"]", bd.Decl.Pos(), "the constructor of the decompressor drained below %s was not found: %s", bd.Name(), unknown)
	case len(ctors) == 0:
		r.Anchor("constructor of the decompressor drained below " + bd.Name())
	}
	_ = core.ModulePath
}
