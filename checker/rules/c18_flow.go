package rules

import (
	"go/ast"
	"go/types"
	"sort"

	"golang.org/x/tools/go/cfg"
)

// isLitCall: call is the json.Unmarshal of the literal, reached through the call sites that bind its parameters.
func (env *c18FlowEnv) isLitCall(call *ast.CallExpr) bool {
	if call != env.lit.call {
		return false
	}
	via := env.lit.via
	if len(env.stack) < len(via) {
		return false
	}
	tail := env.stack[len(env.stack)-len(via):]
	for i := range via {
		if tail[i] != via[i] {
			return false
		}
	}
	return true
}

// c18FlowRun is the fixpoint of one function.
type c18FlowRun struct {
	env    *c18FlowEnv
	fd     *ast.FuncDecl
	loops  []*c18Loop
	preds  map[*cfg.Block][]*cfg.Block
	sortIn map[*cfg.Block]*ast.CallExpr
	retVal map[*ast.CallExpr]c18Ret // what a package function returned at this call
}

func (fr *c18FlowRun) onlyHead(l *c18Loop) bool {
	for _, p := range fr.preds[l.done] {
		if p != l.head {
			return false
		}
	}
	return true
}

func (fr *c18FlowRun) edge(p, b *cfg.Block, st c18Flow) c18Flow {
	for _, l := range fr.loops {
		if b == l.head && !l.in[p] {
			st.e = true // no iteration has been left unsorted yet
		}
		if p == l.head {
			switch b {
			case l.body:
				st.e = false
			case l.done:
				if st.e && fr.onlyHead(l) {
					g := st.grpOf(l.over)
					for k, uf := range st.f {
						if k != l.over && st.grpOf(k) == g {
							uf.s = true
							st = st.with(k, uf)
						}
					}
					uf := st.f[l.over]
					uf.s = true
					st = st.with(l.over, uf)
				}
				st.e = false
			}
		}
	}
	return st
}

// value gives the facts of the slice an expression evaluates to: a tracked variable, the result of a package
// function analysed at this call, or a conversion of those. Anything else has no facts.
func (fr *c18FlowRun) value(e ast.Expr, st c18Flow) c18UF {
	e = ast.Unparen(e)
	if v := fr.env.slot(fr.fd, e); v != nil {
		uf := st.f[v]
		uf.grp = st.grpOf(v) // the destination shares the entries of v from now on
		return uf
	}
	if call, ok := e.(*ast.CallExpr); ok {
		if rv, ok := fr.retVal[call]; ok && !rv.errPath {
			return rv.uf
		}
		if tv, ok := fr.env.c.info.Types[call.Fun]; ok && tv.IsType() && len(call.Args) == 1 {
			return fr.value(call.Args[0], st)
		}
	}
	return c18UF{}
}

// storeMulti handles `v, err := load(...)`: the slice component gets the facts of the callee's value returns,
// conditional on err being nil when the callee also has error returns (`return nil, err`).
func (fr *c18FlowRun) storeMulti(n ast.Node, lhs []ast.Expr, rhs ast.Expr, st c18Flow) c18Flow {
	env := fr.env
	call, ok := ast.Unparen(rhs).(*ast.CallExpr)
	if !ok {
		return st
	}
	rv := fr.retVal[call] // zero when the callee was not analysed
	var errv types.Object
	for _, l := range lhs {
		if id, ok := ast.Unparen(l).(*ast.Ident); ok && id.Name != "_" {
			if o := objOf(env.c.info, id); o != nil && types.Identical(o.Type(), types.Universe.Lookup("error").Type()) {
				errv = o
			}
		}
	}
	for _, l := range lhs {
		id, ok := ast.Unparen(l).(*ast.Ident)
		if !ok {
			continue
		}
		v := env.slot(fr.fd, id)
		if v == nil || v != objOf(env.c.info, id) {
			continue
		}
		uf := rv.uf
		if rv.errPath {
			if errv == nil {
				uf = c18UF{} // the error is discarded: the nil slice of the error path may be used
			}
			uf.errv = errv
		}
		if v == env.c.table {
			env.writes[n] = true
			env.reach = true
		}
		st = st.leave(v).with(v, uf)
	}
	return st
}

// store handles `v = e` / `v := e` / `var v = e` for a tracked slice variable v.
func (fr *c18FlowRun) store(n ast.Node, lhs ast.Expr, rhs ast.Expr, st c18Flow) c18Flow {
	env := fr.env
	id, ok := ast.Unparen(lhs).(*ast.Ident)
	if !ok {
		return st
	}
	v := env.slot(fr.fd, id)
	o := objOf(env.c.info, id)
	if v == nil || v != o {
		return st // not tracked, or a single-assignment alias of another tracked slice
	}
	if v == env.c.table {
		env.writes[n] = true
		env.reach = true
	}
	uf := fr.value(rhs, st) // facts first (the right-hand side may mention v), sharing after v left its group
	st = st.leave(v)
	if w := fr.env.slot(fr.fd, rhs); w != nil && w != v {
		uf.grp = st.grpOf(w)
	} else if uf.grp == v {
		uf.grp = nil
	}
	return st.with(v, uf)
}

func (fr *c18FlowRun) transfer(b *cfg.Block, st c18Flow) c18Flow {
	for _, n := range b.Nodes {
		var calls []*ast.CallExpr
		inspectNoLit(n, func(m ast.Node) bool {
			if c, ok := m.(*ast.CallExpr); ok {
				calls = append(calls, c)
			}
			return true
		})
		sort.SliceStable(calls, func(i, j int) bool { return calls[i].End() < calls[j].End() })
		for _, call := range calls {
			st = fr.call(b, call, st)
		}
		switch s := n.(type) {
		case *ast.AssignStmt:
			if len(s.Lhs) == len(s.Rhs) {
				for i := range s.Lhs {
					st = fr.store(s, s.Lhs[i], s.Rhs[i], st)
				}
			} else if len(s.Rhs) == 1 {
				st = fr.storeMulti(s, s.Lhs, s.Rhs[0], st)
			}
		case *ast.ValueSpec:
			if len(s.Names) == len(s.Values) {
				for i := range s.Names {
					st = fr.store(s, s.Names[i], s.Values[i], st)
				}
			}
		}
	}
	return st
}

// call applies the effect of one call.
func (fr *c18FlowRun) call(b *cfg.Block, call *ast.CallExpr, st c18Flow) c18Flow {
	env, info, fd := fr.env, fr.env.c.info, fr.fd
	if isPkgFunc(callee(info, call), "encoding/json", "Unmarshal") && len(call.Args) == 2 {
		var target types.Object
		if ue, ok := ast.Unparen(call.Args[1]).(*ast.UnaryExpr); ok {
			target = env.slot(fd, ue.X)
		} else if env.isLitCall(call) && len(env.lit.via) > 0 {
			target = env.addrOf[env.lit.via[0]]
		}
		if target != nil {
			isLit := env.isLitCall(call)
			env.reach = env.reach || isLit
			st = st.leave(target).with(target, c18UF{u: isLit})
		}
		return st
	}
	if t := c18SortTarget(info, call); t != nil {
		if env.isVals(fd, fr.loops, t, 3) {
			st.e = true
			fr.sortIn[b] = call
		}
		return st
	}
	fn := callee(info, call)
	fd2 := env.c.funcs[fn]
	if fn == nil || fd2 == nil || len(env.active) >= 5 {
		return st
	}
	for _, a := range env.active {
		if a == fd2 {
			return st
		}
	}
	tableP, entryP, valsP := map[types.Object]types.Object{}, map[types.Object]bool{}, map[types.Object]bool{}
	bindRole := func(o types.Object, a ast.Expr) {
		if o == nil {
			return
		}
		if ue, ok := ast.Unparen(a).(*ast.UnaryExpr); ok {
			if v := env.slot(fd, ue.X); v != nil {
				env.addrOf[call] = v
			}
		}
		if _, isSlice := o.Type().Underlying().(*types.Slice); isSlice && env.slot(fd, a) != nil {
			tableP[o] = env.slot(fd, a)
		} else if env.isEntry(fd, fr.loops, a, 3) {
			entryP[o] = true
		} else if env.isVals(fd, fr.loops, a, 3) {
			valsP[o] = true
		}
	}
	if sel, ok := ast.Unparen(call.Fun).(*ast.SelectorExpr); ok && fd2.Recv != nil && len(fd2.Recv.List) == 1 && len(fd2.Recv.List[0].Names) == 1 {
		if s := info.Selections[sel]; s != nil && s.Kind() == types.MethodVal {
			bindRole(info.Defs[fd2.Recv.List[0].Names[0]], sel.X)
		}
	}
	pi := 0
	for _, fld := range fd2.Type.Params.List {
		if len(fld.Names) == 0 {
			pi++
		}
		for _, nm := range fld.Names {
			if pi < len(call.Args) {
				bindRole(info.Defs[nm], call.Args[pi])
			}
			pi++
		}
	}
	saveT, saveE, saveV := env.tableP, env.entryP, env.valsP
	env.tableP, env.entryP, env.valsP = tableP, entryP, valsP
	env.stack = append(env.stack, call)
	env.active = append(env.active, fd2)
	out, rv, ret := env.flow(fd2, st)
	env.active = env.active[:len(env.active)-1]
	env.stack = env.stack[:len(env.stack)-1]
	env.tableP, env.entryP, env.valsP = saveT, saveE, saveV
	if ret {
		if out.e && !st.e {
			fr.sortIn[b] = call
		}
		out.e = out.e || st.e
		st = out
		fr.retVal[call] = rv
	}
	return st
}
