package rules

import (
	"go/ast"
	"go/types"
	"sort"

	"golang.org/x/tools/go/cfg"
)

func (env *c18FlowEnv) isLitCall(call *ast.CallExpr) bool {
	if call != env.lit.call {
		return false
	}
	via := env.lit.via
	if len(env.stack) < len(via) {
		return false
	}
	tail := env.stack[len(env.stack)-len(via):]
	for i := range via {
		if tail[i] != via[i] {
			return false
		}
	}
	return true
}

// flow propagates the facts through fd starting from in; returns=false when fd has no normal exit.
func (env *c18FlowEnv) flow(fd *ast.FuncDecl, in c18Flow) (c18Flow, bool) {
	info := env.c.info
	g := newCFG(info, fd.Body)
	loops := env.loopsOf(fd, g)
	preds := map[*cfg.Block][]*cfg.Block{}
	for _, b := range g.Blocks {
		if !b.Live {
			continue
		}
		for _, s := range b.Succs {
			preds[s] = append(preds[s], b)
		}
	}
	onlyHead := func(l *c18Loop) bool {
		for _, p := range preds[l.done] {
			if p != l.head {
				return false
			}
		}
		return true
	}
	edge := func(p, b *cfg.Block, st c18Flow) c18Flow {
		for _, l := range loops {
			if b == l.head && !l.in[p] {
				st.e = true // no iteration has been left unsorted yet
			}
			if p == l.head {
				switch b {
				case l.body:
					st.e = false
				case l.done:
					if st.e && onlyHead(l) {
						st.s = true
					}
					st.e = false
				}
			}
		}
		return st
	}
	sortIn := map[*cfg.Block]*ast.CallExpr{}
	transfer := func(b *cfg.Block, st c18Flow) c18Flow {
		for _, n := range b.Nodes {
			var calls []*ast.CallExpr
			inspectNoLit(n, func(m ast.Node) bool {
				if c, ok := m.(*ast.CallExpr); ok {
					calls = append(calls, c)
				}
				return true
			})
			sort.SliceStable(calls, func(i, j int) bool { return calls[i].End() < calls[j].End() })
			for _, call := range calls {
				if env.isLitCall(call) {
					env.reach = true
					st.u, st.s = true, false
					continue
				}
				if t := c18SortTarget(info, call); t != nil {
					if env.isVals(fd, loops, t, 3) {
						st.e = true
						sortIn[b] = call
					}
					continue
				}
				fn := callee(info, call)
				fd2 := env.c.funcs[fn]
				if fn == nil || fd2 == nil || len(env.active) >= 5 {
					continue
				}
				rec := false
				for _, a := range env.active {
					rec = rec || a == fd2
				}
				if rec {
					continue
				}
				tableP, entryP, valsP := map[types.Object]bool{}, map[types.Object]bool{}, map[types.Object]bool{}
				bindRole := func(o types.Object, a ast.Expr) {
					if o == nil {
						return
					}
					if _, isSlice := o.Type().Underlying().(*types.Slice); isSlice && env.isTable(fd, a) {
						tableP[o] = true
					} else if env.isEntry(fd, loops, a, 3) {
						entryP[o] = true
					} else if env.isVals(fd, loops, a, 3) {
						valsP[o] = true
					}
				}
				if sel, ok := ast.Unparen(call.Fun).(*ast.SelectorExpr); ok && fd2.Recv != nil && len(fd2.Recv.List) == 1 && len(fd2.Recv.List[0].Names) == 1 {
					if s := info.Selections[sel]; s != nil && s.Kind() == types.MethodVal {
						bindRole(info.Defs[fd2.Recv.List[0].Names[0]], sel.X)
					}
				}
				pi := 0
				for _, fld := range fd2.Type.Params.List {
					if len(fld.Names) == 0 {
						pi++
					}
					for _, nm := range fld.Names {
						if pi < len(call.Args) {
							bindRole(info.Defs[nm], call.Args[pi])
						}
						pi++
					}
				}
				saveT, saveE, saveV := env.tableP, env.entryP, env.valsP
				env.tableP, env.entryP, env.valsP = tableP, entryP, valsP
				env.stack = append(env.stack, call)
				env.active = append(env.active, fd2)
				out, ret := env.flow(fd2, st)
				env.active = env.active[:len(env.active)-1]
				env.stack = env.stack[:len(env.stack)-1]
				env.tableP, env.entryP, env.valsP = saveT, saveE, saveV
				if ret {
					if out.e && !st.e {
						sortIn[b] = call
					}
					out.e = out.e || st.e
					st = out
				}
			}
		}
		return st
	}
	inS, outS := map[*cfg.Block]c18Flow{}, map[*cfg.Block]c18Flow{}
	have := map[*cfg.Block]bool{}
	entry := g.Blocks[0]
	for round := 0; round < 64; round++ {
		changed := false
		for _, b := range g.Blocks {
			if !b.Live {
				continue
			}
			var st c18Flow
			got := false
			if b == entry {
				st, got = in, true
			}
			for _, p := range preds[b] {
				if !have[p] {
					continue
				}
				es := edge(p, b, outS[p])
				if !got {
					st, got = es, true
				} else {
					st = st.meet(es)
				}
			}
			if !got {
				continue
			}
			o := transfer(b, st)
			if !have[b] || inS[b] != st || outS[b] != o {
				have[b], inS[b], outS[b] = true, st, o
				changed = true
			}
		}
		if !changed {
			break
		}
	}
	for _, l := range loops {
		d := c18LoopDiag{pos: l.stmt.Pos(), everyIter: have[l.head] && inS[l.head].e, onlyHead: onlyHead(l), loaded: have[l.head] && inS[l.head].u}
		if rs, ok := l.stmt.(*ast.RangeStmt); ok && rs.Value != nil {
			d.elem = src(env.r.P.Fset, rs.Value)
		} else if l.key != nil {
			d.elem = env.c.table.Name() + "[" + l.key.Name() + "]"
		}
		for b := range l.in {
			if c := sortIn[b]; c != nil {
				d.hasSort, d.sortText, d.sortPos = true, src(env.r.P.Fset, c), c.Pos()
			}
		}
		if st, ok := l.stmt.(*ast.RangeStmt); ok && l.val != nil {
			ast.Inspect(st.Body, func(n ast.Node) bool {
				if as, ok := n.(*ast.AssignStmt); ok {
					for _, lh := range as.Lhs {
						if fieldOf(info, lh) == env.c.valsF && rootObj(info, lh) == l.val {
							d.copyAsg = true
						}
					}
				}
				return true
			})
		}
		env.loops = append(env.loops, d)
	}
	var res c18Flow
	got := false
	for _, b := range g.Blocks {
		if !b.Live || !have[b] || len(b.Succs) != 0 || c18IsPanicExit(info, b) {
			continue
		}
		if !got {
			res, got = outS[b], true
		} else {
			res = res.meet(outS[b])
		}
	}
	if !got {
		return in, false
	}
	return res, true
}
