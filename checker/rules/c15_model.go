package rules

import (
	"fmt"
	"go/ast"
	"go/token"
	"go/types"
	"strings"

	"golang.org/x/tools/go/cfg"
	"golang.org/x/tools/go/packages"

	"osmcheck/core"
)

// Analysis model shared by the C15 rules.
//
// The rules are decided on control-flow graphs by finite-domain evaluation, not on statement shapes:
//
//   - c15Path: an lvalue/rvalue expression normalised to (root variable, field / index steps). Pointer aliases
//     (`n := &w.Nodes[u.Index]`), single-assignment locals, reference-typed copies and the parameters of helper
//     functions (through the call environment c15Env) are resolved, so `n.Lat`, `w.Nodes[u.Index].Lat` and a helper's
//     `node.Lat` are the same path.
//   - c15Env: the chain of calls from the API function down to the helper whose body is being read; it maps the
//     helper's parameters/receiver to the argument expressions, each with the environment it is written in.
//     calleeOf follows a call of a function value (parameter / local) to the method value, function or function
//     literal bound to it and builds the callee's environment from that value ("inlining with the closure bound").
//   - c15Loop: a loop over an osm.Updates value (range with value, range with key only, classic index loop).
//   - walk: explores the CFG from a block, taking each two-way branch according to the three-valued value of its
//     condition under an oracle for the atoms (relative order of u.Timestamp and t; index in range or not;
//     u.Reverse; err != nil). Unknown atoms follow both edges. Predicate helpers (`func (u Update) late(t) bool {
//     return u.Timestamp.After(t) }`) and boolean locals are evaluated through.
//
// Nothing in here keys on the name of an unexported function, on a file or on a local variable name.

// ---------------------------------------------------------------- three-valued logic

type c15Tri int

const (
	c15F c15Tri = iota
	c15T
	c15U
)

func c15Of(b bool) c15Tri {
	if b {
		return c15T
	}
	return c15F
}

func c15Not(a c15Tri) c15Tri {
	switch a {
	case c15F:
		return c15T
	case c15T:
		return c15F
	}
	return c15U
}

func c15And(a, b c15Tri) c15Tri {
	if a == c15F || b == c15F {
		return c15F
	}
	if a == c15T && b == c15T {
		return c15T
	}
	return c15U
}

func c15Or(a, b c15Tri) c15Tri { return c15Not(c15And(c15Not(a), c15Not(b))) }

// ---------------------------------------------------------------- world / functions

type c15World struct {
	r     *core.R
	pk    *packages.Package
	info  *types.Info
	decls map[*types.Func]*FuncInfo
	fns   map[*types.Func]*c15Fn
	order []*FuncInfo // declaration order (deterministic iteration)

	lits map[*ast.FuncLit]*c15Fn

	filterMemo  map[*types.Func]int // result position of the in-time list (-1: not a filter, -2: in progress)
	carrierMemo map[*types.Func]int
}

type c15Fn struct {
	w    *c15World
	fi   *FuncInfo
	g    *cfg.CFG
	dom  map[*cfg.Block]map[*cfg.Block]bool
	defs map[types.Object][]ast.Expr  // every definition/assignment of a local; nil entry = not a plain 1:1 value
	tups map[types.Object]c15TupleDef // locals assigned by `…, x, … := call`
	par  map[ast.Node]ast.Node

	loops     []*c15Loop
	loopsDone bool
}

func c15NewWorld(r *core.R) *c15World {
	pk := r.P.Pkg("")
	w := &c15World{r: r, pk: pk, decls: map[*types.Func]*FuncInfo{}, fns: map[*types.Func]*c15Fn{}, lits: map[*ast.FuncLit]*c15Fn{},
		filterMemo: map[*types.Func]int{}, carrierMemo: map[*types.Func]int{}}
	if pk == nil {
		return w
	}
	w.info = pk.TypesInfo
	w.order = allFuncs(pk)
	for _, fi := range w.order {
		w.decls[fi.Obj] = fi
	}
	return w
}

// fn returns the analysed form of a function declared (with a body) in package osm, or nil.
func (w *c15World) fn(obj *types.Func) *c15Fn {
	if obj == nil {
		return nil
	}
	obj = obj.Origin()
	if f, ok := w.fns[obj]; ok {
		return f
	}
	fi := w.decls[obj]
	if fi == nil {
		w.fns[obj] = nil
		return nil
	}
	f := &c15Fn{w: w, fi: fi}
	f.g = newCFG(w.info, fi.Decl.Body)
	f.dom = dominators(f.g)
	f.par = parentsOf(w.r.P, fi)
	f.computeDefs()
	w.fns[obj] = f
	return f
}

// c15TupleDef: the local is result k of call.
type c15TupleDef struct {
	call *ast.CallExpr
	k    int
}

// tupleDef returns the call a local is the k-th result of, when that tuple assignment is its only definition.
func (f *c15Fn) tupleDef(o types.Object) (c15TupleDef, bool) {
	if o == nil || f.isParam(o) || len(f.defs[o]) != 1 {
		return c15TupleDef{}, false
	}
	td, ok := f.tups[o]
	return td, ok
}

func (f *c15Fn) computeDefs() {
	info := f.w.info
	f.defs = map[types.Object][]ast.Expr{}
	f.tups = map[types.Object]c15TupleDef{}
	add := func(lhs ast.Expr, rhs ast.Expr) {
		if o := objOf(info, lhs); o != nil {
			f.defs[o] = append(f.defs[o], rhs)
		}
	}
	ast.Inspect(f.fi.Decl.Body, func(n ast.Node) bool {
		switch x := n.(type) {
		case *ast.AssignStmt:
			for i, l := range x.Lhs {
				var rhs ast.Expr
				if len(x.Lhs) == len(x.Rhs) && (x.Tok == token.ASSIGN || x.Tok == token.DEFINE) {
					rhs = x.Rhs[i]
				}
				add(l, rhs)
				if len(x.Rhs) == 1 && len(x.Lhs) > 1 {
					if call, ok := ast.Unparen(x.Rhs[0]).(*ast.CallExpr); ok {
						if o := objOf(info, l); o != nil {
							f.tups[o] = c15TupleDef{call: call, k: i}
						}
					}
				}
			}
		case *ast.IncDecStmt:
			add(x.X, nil)
		case *ast.RangeStmt:
			if x.Key != nil {
				add(x.Key, nil)
			}
			if x.Value != nil {
				add(x.Value, nil)
			}
		case *ast.ValueSpec:
			for i, nm := range x.Names {
				var rhs ast.Expr
				if len(x.Values) == len(x.Names) {
					rhs = x.Values[i]
				}
				add(nm, rhs)
			}
		case *ast.UnaryExpr:
			// &x of a plain local: the local may be written through the pointer
			if x.Op == token.AND {
				if _, ok := ast.Unparen(x.X).(*ast.Ident); ok {
					add(x.X, nil)
				}
			}
		}
		return true
	})
}

// isParam reports whether o is a parameter, the receiver or a named result of f.
func (f *c15Fn) isParam(o types.Object) bool {
	if o == nil {
		return false
	}
	d := f.fi.Decl
	in := func(fl *ast.FieldList) bool {
		return fl != nil && fl.Pos() <= o.Pos() && o.Pos() < fl.End()
	}
	return in(d.Recv) || in(d.Type.Params) || in(d.Type.Results)
}

// isInput reports whether o is a parameter or the receiver (not a result) of f.
func (f *c15Fn) isInput(o types.Object) bool {
	if o == nil {
		return false
	}
	d := f.fi.Decl
	in := func(fl *ast.FieldList) bool {
		return fl != nil && fl.Pos() <= o.Pos() && o.Pos() < fl.End()
	}
	return in(d.Recv) || in(d.Type.Params)
}

// singleDef returns the unique value a local is ever given (`x := E`, `var x = E`, or a single `x = E`), or nil.
func (f *c15Fn) singleDef(o types.Object) ast.Expr {
	if o == nil || f.isParam(o) {
		return nil
	}
	d := f.defs[o]
	if len(d) != 1 {
		return nil
	}
	return d[0]
}

func (f *c15Fn) name() string { return f.fi.Name() }

// ---------------------------------------------------------------- call environments

// c15Env says in which function an expression is written and how that function was reached.
type c15Env struct {
	fn     *c15Fn
	bind   map[types.Object]c15Bound // parameter / receiver -> argument expression
	parent *c15Env                   // the environment of the calling function
	call   *ast.CallExpr             // the call in parent.fn that leads here
	lex    *c15Env                   // for a function literal: the environment it was written in (captured variables)
}

// c15Bound is an argument expression together with the environment it is written in. For a direct call that is
// the caller; for a call through a function value (`apply(u)` with apply bound to the method value `w.applyUpdate`)
// the receiver is written where the method value was formed, the arguments where the call is.
type c15Bound struct {
	expr ast.Expr
	env  *c15Env
}

func (w *c15World) rootEnv(f *c15Fn) *c15Env { return &c15Env{fn: f} }

func (e *c15Env) root() *c15Env {
	for e.parent != nil {
		e = e.parent
	}
	return e
}

func (e *c15Env) depth() int {
	n := 0
	for x := e; x.parent != nil; x = x.parent {
		n++
	}
	return n
}

// scope returns the environment in which object ob, mentioned in env.fn, has to be interpreted: env itself, or for
// a variable captured by a function literal the environment the literal was written in.
func (e *c15Env) scope(ob types.Object) *c15Env {
	for e.lex != nil && ob != nil && !(e.fn.fi.Decl.Pos() <= ob.Pos() && ob.Pos() < e.fn.fi.Decl.End()) {
		e = e.lex
	}
	return e
}

// lookup returns the argument bound to parameter ob of env.fn.
func (e *c15Env) lookup(ob types.Object) (c15Bound, bool) {
	if e == nil || ob == nil {
		return c15Bound{}, false
	}
	b, ok := e.bind[ob]
	return b, ok && b.env != nil
}

// childEnv binds the receiver and the parameters of callee to the argument expressions of a direct call.
// Parameters that the callee reassigns are not bound.
func (w *c15World) childEnv(env *c15Env, call *ast.CallExpr, callee *c15Fn) *c15Env {
	ce := &c15Env{fn: callee, bind: map[types.Object]c15Bound{}, parent: env, call: call}
	if sel, ok := ast.Unparen(call.Fun).(*ast.SelectorExpr); ok {
		if s := w.info.Selections[sel]; s != nil && s.Kind() == types.MethodVal {
			w.bindRecv(ce, c15Bound{expr: sel.X, env: env})
		}
	}
	w.bindArgs(ce, env, call)
	return ce
}

func (w *c15World) bindRecv(ce *c15Env, recv c15Bound) {
	fd := ce.fn.fi.Decl
	if fd.Recv != nil && len(fd.Recv.List) == 1 && len(fd.Recv.List[0].Names) == 1 {
		if o := w.info.Defs[fd.Recv.List[0].Names[0]]; o != nil && len(ce.fn.defs[o]) == 0 {
			ce.bind[o] = recv
		}
	}
}

func (w *c15World) bindArgs(ce *c15Env, env *c15Env, call *ast.CallExpr) {
	callee := ce.fn
	sig := callee.fi.Obj.Type().(*types.Signature)
	i := 0
	for _, fld := range callee.fi.Decl.Type.Params.List {
		for _, nm := range fld.Names {
			variadic := sig.Variadic() && i == sig.Params().Len()-1
			if i < len(call.Args) && !variadic && !call.Ellipsis.IsValid() {
				if o := w.info.Defs[nm]; o != nil && len(callee.defs[o]) == 0 {
					ce.bind[o] = c15Bound{expr: call.Args[i], env: env}
				}
			}
			i++
		}
	}
}

// calleeOf resolves the function of package osm that `call` (written in env.fn) invokes, and the environment of
// its body: a direct call; or a call through a function value that is a parameter bound at the call site of env.fn
// or a local with a single definition, when the value is a method value (`w.applyUpdate`), the name of a function,
// or a function literal. The callee is "inlined" with the value bound: its receiver / captured variables are
// interpreted where the value was formed, its arguments where the call is.
func (w *c15World) calleeOf(env *c15Env, call *ast.CallExpr) (*c15Fn, *c15Env) {
	if f := w.samePkgCallee(call); f != nil {
		return f, w.childEnv(env, call, f)
	}
	if tv, ok := w.info.Types[call.Fun]; ok && tv.IsType() {
		return nil, nil
	}
	if env.depth() > 6 {
		return nil, nil
	}
	fenv, fe := w.resolveFuncValue(env, call.Fun)
	switch x := fe.(type) {
	case *ast.SelectorExpr:
		s := w.info.Selections[x]
		if s == nil || s.Kind() != types.MethodVal {
			return nil, nil
		}
		fn, _ := s.Obj().(*types.Func)
		if fn == nil || fn.Pkg() != w.pk.Types {
			return nil, nil
		}
		f := w.fn(fn)
		if f == nil {
			return nil, nil
		}
		ce := &c15Env{fn: f, bind: map[types.Object]c15Bound{}, parent: env, call: call}
		w.bindRecv(ce, c15Bound{expr: x.X, env: fenv})
		w.bindArgs(ce, env, call)
		return f, ce
	case *ast.Ident:
		fn, _ := w.info.Uses[x].(*types.Func)
		if fn == nil || fn.Pkg() != w.pk.Types {
			return nil, nil
		}
		f := w.fn(fn)
		if f == nil {
			return nil, nil
		}
		ce := &c15Env{fn: f, bind: map[types.Object]c15Bound{}, parent: env, call: call}
		w.bindArgs(ce, env, call)
		return f, ce
	case *ast.FuncLit:
		f := w.litFn(x)
		if f == nil {
			return nil, nil
		}
		ce := &c15Env{fn: f, bind: map[types.Object]c15Bound{}, parent: env, call: call, lex: fenv}
		w.bindArgs(ce, env, call)
		return f, ce
	}
	return nil, nil
}

// resolveFuncValue follows a function-typed identifier through parameter bindings and single definitions to the
// expression that forms the value, with the environment that expression is written in.
func (w *c15World) resolveFuncValue(env *c15Env, e ast.Expr) (*c15Env, ast.Expr) {
	for i := 0; i < 10; i++ {
		e = ast.Unparen(e)
		id, ok := e.(*ast.Ident)
		if !ok {
			break
		}
		ob := objOf(w.info, id)
		if _, isVar := ob.(*types.Var); !isVar {
			break
		}
		env = env.scope(ob)
		if b, ok := env.lookup(ob); ok {
			env, e = b.env, b.expr
			continue
		}
		if d := env.fn.singleDef(ob); d != nil {
			e = d
			continue
		}
		break
	}
	return env, e
}

// litFn returns the analysed form of a function literal (its own CFG; captured variables resolve through c15Env.lex).
func (w *c15World) litFn(lit *ast.FuncLit) *c15Fn {
	if f, ok := w.lits[lit]; ok {
		return f
	}
	sig, _ := w.info.TypeOf(lit).(*types.Signature)
	if sig == nil || lit.Body == nil {
		w.lits[lit] = nil
		return nil
	}
	decl := &ast.FuncDecl{Name: &ast.Ident{NamePos: lit.Pos(), Name: "func literal"}, Type: lit.Type, Body: lit.Body}
	obj := types.NewFunc(lit.Pos(), w.pk.Types, "func literal at "+w.r.P.Rel(lit.Pos()), sig)
	f := &c15Fn{w: w, fi: &FuncInfo{Pkg: w.pk, Decl: decl, Obj: obj}}
	f.g = newCFG(w.info, lit.Body)
	f.dom = dominators(f.g)
	f.par = parentsOf(w.r.P, f.fi)
	f.computeDefs()
	w.lits[lit] = f
	return f
}

// samePkgCallee returns the analysed callee of a static call into package osm (nil otherwise).
func (w *c15World) samePkgCallee(call *ast.CallExpr) *c15Fn {
	fn := callee(w.info, call)
	if fn == nil || fn.Pkg() != w.pk.Types {
		return nil
	}
	return w.fn(fn)
}

// ---------------------------------------------------------------- paths

type c15Step struct {
	field *types.Var // field selection
	idx   *c15Path   // index by a variable path
	k     int64      // constant index (isK)
	isK   bool
}

type c15Path struct {
	root  types.Object
	steps []c15Step
}

func (p *c15Path) with(s c15Step) *c15Path {
	q := &c15Path{root: p.root, steps: make([]c15Step, 0, len(p.steps)+1)}
	q.steps = append(q.steps, p.steps...)
	q.steps = append(q.steps, s)
	return q
}

func (p *c15Path) eq(q *c15Path) bool {
	if p == nil || q == nil || p.root != q.root || len(p.steps) != len(q.steps) {
		return false
	}
	for i := range p.steps {
		a, b := p.steps[i], q.steps[i]
		switch {
		case a.field != nil || b.field != nil:
			if a.field != b.field {
				return false
			}
		case a.isK || b.isK:
			if a.isK != b.isK || a.k != b.k {
				return false
			}
		default:
			if !a.idx.eq(b.idx) {
				return false
			}
		}
	}
	return true
}

// prefix returns the path without its last n steps.
func (p *c15Path) prefix(n int) *c15Path {
	if p == nil || len(p.steps) < n {
		return nil
	}
	return &c15Path{root: p.root, steps: p.steps[:len(p.steps)-n]}
}

func (p *c15Path) last() *c15Step {
	if p == nil || len(p.steps) == 0 {
		return nil
	}
	return &p.steps[len(p.steps)-1]
}

// String renders a path for diagnostics and construct keys. A root that is a receiver/parameter is rendered by its
// type ("Way.Nodes"), a local root by its type only ("local orb.LineString"): names of locals never enter a key.
func (p *c15Path) String() string {
	if p == nil {
		return "?"
	}
	var b strings.Builder
	t := p.root.Type()
	if pt, ok := t.(*types.Pointer); ok {
		t = pt.Elem()
	}
	tn := types.TypeString(t, func(pk *types.Package) string {
		if pk.Path() == core.ModulePath {
			return ""
		}
		return pk.Name()
	})
	b.WriteString(tn)
	for _, s := range p.steps {
		switch {
		case s.field != nil:
			b.WriteString("." + s.field.Name())
		case s.isK:
			fmt.Fprintf(&b, "[%d]", s.k)
		default:
			b.WriteString("[" + s.idx.String() + "]")
		}
	}
	return b.String()
}

func c15RefType(t types.Type) bool {
	switch t.Underlying().(type) {
	case *types.Pointer, *types.Slice, *types.Map:
		return true
	}
	return false
}

// pathOf normalises e (written in env.fn) to a path rooted in a variable of the outermost function of env.
// write=true is for assignment targets: a by-value copy of a struct/array (`n := w.Nodes[i]`, a by-value parameter)
// is then a different object and is not looked through; pointers, `&E` aliases, slices and maps are.
func (w *c15World) pathOf(env *c15Env, e ast.Expr, write bool) *c15Path {
	return w.pathOfD(env, e, write, 0)
}

func (w *c15World) pathOfD(env *c15Env, e ast.Expr, write bool, depth int) *c15Path {
	if depth > 16 || e == nil {
		return nil
	}
	for {
		switch x := e.(type) {
		case *ast.ParenExpr:
			e = x.X
			continue
		case *ast.StarExpr:
			e = x.X
			continue
		case *ast.UnaryExpr:
			if x.Op == token.AND {
				e = x.X
				continue
			}
			return nil
		}
		break
	}
	switch x := e.(type) {
	case *ast.Ident:
		o := objOf(w.info, x)
		v, isVar := o.(*types.Var)
		if !isVar {
			return nil
		}
		if env != nil {
			env = env.scope(o)
			if b, ok := env.lookup(o); ok {
				if !write || c15RefType(v.Type()) {
					if p := w.pathOfD(b.env, b.expr, write, depth+1); p != nil {
						return p
					}
				}
				return &c15Path{root: o}
			}
			if d := env.fn.singleDef(o); d != nil {
				rhs := ast.Unparen(d)
				_, isAddr := rhs.(*ast.UnaryExpr)
				if isAddr || !write || c15RefType(v.Type()) {
					if p := w.pathOfD(env, rhs, write, depth+1); p != nil {
						return p
					}
				}
			}
		}
		return &c15Path{root: o}
	case *ast.SelectorExpr:
		if f := selField(w.info, x); f != nil {
			p := w.pathOfD(env, x.X, write, depth+1)
			if p == nil {
				return nil
			}
			return p.with(c15Step{field: f})
		}
		if v, ok := w.info.Uses[x.Sel].(*types.Var); ok && !v.IsField() {
			return &c15Path{root: v} // package-qualified variable
		}
		return nil
	case *ast.IndexExpr:
		p := w.pathOfD(env, x.X, write, depth+1)
		if p == nil {
			return nil
		}
		if k, ok := constInt(w.info, x.Index); ok {
			return p.with(c15Step{k: k, isK: true})
		}
		ip := w.pathOfD(env, x.Index, false, depth+1)
		if ip == nil {
			return nil
		}
		return p.with(c15Step{idx: ip})
	}
	return nil
}

// c15IsUpdateField reports whether step s selects the named field of osm.Update.
func c15IsUpdateField(s *c15Step, name string) bool {
	if s == nil || s.field == nil || s.field.Name() != name {
		return false
	}
	return s.field.Pkg() != nil && s.field.Pkg().Path() == core.ModulePath && c15FieldOwnerIsUpdate(s.field)
}

// c15FieldOwnerIsUpdate: the field object is one of the fields of struct type osm.Update.
func c15FieldOwnerIsUpdate(f *types.Var) bool {
	obj := f.Pkg().Scope().Lookup("Update")
	if obj == nil {
		return false
	}
	st, ok := obj.Type().Underlying().(*types.Struct)
	if !ok {
		return false
	}
	for i := 0; i < st.NumFields(); i++ {
		if st.Field(i) == f {
			return true
		}
	}
	return false
}

// c15IsUpdateIndexPath reports whether p is `<update value>.Index`.
func c15IsUpdateIndexPath(p *c15Path) bool { return c15IsUpdateField(p.last(), "Index") }

// ---------------------------------------------------------------- purity / effects

// pureExpr: evaluating e has no side effect (builtins len/cap/min/max, conversions, methods of time.Time, and
// single-expression helpers of package osm that are themselves pure).
func (w *c15World) pureExpr(e ast.Node, depth int) bool {
	if e == nil {
		return true
	}
	ok := true
	ast.Inspect(e, func(n ast.Node) bool {
		if !ok {
			return false
		}
		switch x := n.(type) {
		case *ast.FuncLit:
			ok = false
		case *ast.UnaryExpr:
			if x.Op == token.ARROW {
				ok = false
			}
		case *ast.CallExpr:
			if tv, found := w.info.Types[x.Fun]; found && tv.IsType() {
				return true
			}
			switch builtinName(w.info, x) {
			case "len", "cap", "min", "max":
				return true
			case "":
			default:
				ok = false
				return false
			}
			fn := callee(w.info, x)
			if fn == nil {
				ok = false
				return false
			}
			if recv := fn.Type().(*types.Signature).Recv(); recv != nil && namedPath(recv.Type()) == "time.Time" {
				return true
			}
			if f := w.samePkgCallee(x); f != nil && depth < 4 {
				if ret := singleReturnExpr(f.fi); ret != nil && w.pureExpr(ret, depth+1) {
					return true
				}
			}
			ok = false
		}
		return ok
	})
	return ok
}

// isEffect reports whether CFG node n changes state that outlives the region given by scope (a loop body or a
// function body): anything but pure conditions and pure definitions of locals declared inside scope.
func (w *c15World) isEffect(scope ast.Node, n ast.Node) bool {
	localIn := func(e ast.Expr) bool {
		id, ok := ast.Unparen(e).(*ast.Ident)
		if !ok {
			return false
		}
		if id.Name == "_" {
			return true
		}
		o := objOf(w.info, id)
		return o != nil && scope != nil && scope.Pos() <= o.Pos() && o.Pos() < scope.End()
	}
	switch x := n.(type) {
	case ast.Expr:
		return !w.pureExpr(x, 0)
	case *ast.AssignStmt:
		for _, l := range x.Lhs {
			if !localIn(l) {
				return true
			}
		}
		for _, rh := range x.Rhs {
			if !w.pureExpr(rh, 0) {
				return true
			}
		}
		return false
	case *ast.IncDecStmt:
		return !localIn(x.X)
	case *ast.DeclStmt:
		return !w.pureExpr(x, 0)
	case *ast.ExprStmt:
		return !w.pureExpr(x.X, 0)
	case *ast.ReturnStmt, *ast.EmptyStmt, *ast.LabeledStmt, *ast.BranchStmt:
		return false
	}
	return true
}

// ---------------------------------------------------------------- loops over Updates

type c15Loop struct {
	fn    *c15Fn
	stmt  ast.Stmt // *ast.RangeStmt or *ast.ForStmt
	x     ast.Expr // the Updates value
	key   types.Object
	val   types.Object
	body  *ast.BlockStmt
	head  *cfg.Block // target of continue / back edge
	entry *cfg.Block // first block of the body
	done  *cfg.Block // target of break / normal exit
}

func (l *c15Loop) pos() token.Pos { return l.stmt.Pos() }

// loopsIn finds the loops over an osm.Updates value in f (function literals are not entered: their bodies are not
// in f's CFG).
func (w *c15World) loopsIn(f *c15Fn) []*c15Loop {
	if f.loopsDone {
		return f.loops
	}
	out := w.loopsIn1(f)
	f.loops, f.loopsDone = out, true
	return out
}

func (w *c15World) loopsIn1(f *c15Fn) []*c15Loop {
	var out []*c15Loop
	inspectNoLit(f.fi.Decl.Body, func(n ast.Node) bool {
		switch s := n.(type) {
		case *ast.RangeStmt:
			if !isUpdatesType(w.info.TypeOf(s.X)) {
				return true
			}
			l := &c15Loop{fn: f, stmt: s, x: s.X, body: s.Body}
			if s.Key != nil {
				if id, ok := s.Key.(*ast.Ident); ok && id.Name != "_" {
					l.key = objOf(w.info, s.Key)
				}
			}
			if s.Value != nil {
				if id, ok := s.Value.(*ast.Ident); ok && id.Name != "_" {
					l.val = objOf(w.info, s.Value)
				}
			}
			for _, b := range f.g.Blocks {
				if b.Stmt != s {
					continue
				}
				switch b.Kind {
				case cfg.KindRangeLoop:
					l.head = b
				case cfg.KindRangeBody:
					l.entry = b
				case cfg.KindRangeDone:
					l.done = b
				}
			}
			out = append(out, l)
		case *ast.ForStmt:
			// for i := …; i < len(X); i++
			if s.Cond == nil || s.Post == nil {
				return true
			}
			lhs, op, rhs, ok := cmpNorm(s.Cond)
			if !ok || op != token.LSS {
				return true
			}
			arg := lenCallArg(w.info, rhs)
			if arg == nil || !isUpdatesType(w.info.TypeOf(arg)) {
				return true
			}
			iv := objOf(w.info, lhs)
			inc, ok := s.Post.(*ast.IncDecStmt)
			if iv == nil || !ok || inc.Tok != token.INC || objOf(w.info, inc.X) != iv {
				return true
			}
			if countAssignsTo(w.info, s.Body, iv, s.Body.Pos(), s.Body.End()) > 0 {
				return true
			}
			l := &c15Loop{fn: f, stmt: s, x: arg, key: iv, body: s.Body}
			for _, b := range f.g.Blocks {
				if b.Stmt != s {
					continue
				}
				switch b.Kind {
				case cfg.KindForPost:
					l.head = b
				case cfg.KindForBody:
					l.entry = b
				case cfg.KindForDone:
					l.done = b
				}
			}
			out = append(out, l)
		}
		return true
	})
	return out
}

// inBody reports whether block b belongs to the loop body.
func (l *c15Loop) inBody(b *cfg.Block) bool {
	if b == l.entry {
		return true
	}
	if b == l.head || b == l.done || b.Stmt == nil {
		return false
	}
	return l.body.Pos() <= b.Stmt.Pos() && b.Stmt.End() <= l.body.End()
}

// contains reports whether node n lies in the loop body.
func (l *c15Loop) contains(n ast.Node) bool {
	return l.body.Pos() <= n.Pos() && n.End() <= l.body.End()
}

// isElem reports whether path p denotes the current element of the loop (the range value, X[key], or a copy /
// pointer alias of either).
func (w *c15World) isElem(env *c15Env, l *c15Loop, p *c15Path) bool {
	if p == nil {
		return false
	}
	if l.val != nil && p.root == l.val && len(p.steps) == 0 {
		return true
	}
	if l.key != nil {
		if st := p.last(); st != nil && st.idx != nil && st.idx.root == l.key && len(st.idx.steps) == 0 {
			xp := w.pathOf(env, l.x, false)
			return xp != nil && xp.eq(p.prefix(1))
		}
	}
	return false
}

// ---------------------------------------------------------------- oracle

type c15Ord int

const (
	c15OrdNone   c15Ord = iota
	c15OrdBefore        // u.Timestamp is before t
	c15OrdEqual         // u.Timestamp equals t
	c15OrdAfter         // u.Timestamp is after t
)

func (o c15Ord) String() string {
	return [...]string{"at or before t (list already filtered)", "before t", "equal to t", "after t"}[o]
}

// c15Oracle gives the value of the atomic conditions under one abstract input.
type c15Oracle struct {
	w    *c15World
	loop *c15Loop // the loop whose element is meant (nil: any osm.Update value)
	lenv *c15Env  // environment of the loop's function
	ord  c15Ord   // relative order of the element's Timestamp and the API's time parameter

	rng     int      // +1: every `Index` vs `len` comparison is in range, -1: out of range, 0: unknown
	rngIdx  *c15Path // when set, rng speaks only about this index path against len(rngCont)
	rngCont *c15Path
	reverse int // +1: <update>.Reverse holds, -1: does not, 0: unknown

	errObj types.Object // with errVal: this error variable is non-nil (+1) / nil (-1)
	errVal int

	sumDepth     int        // nesting of helper summaries
	timeAtoms    int        // number of atoms decided through the time order
	unknownTimes []ast.Expr // atoms that mention the element's Timestamp or t but were not understood
}

// timeRole classifies e as the element's timestamp ('U'), the API's time parameter ('T') or neither (0).
func (o *c15Oracle) timeRole(env *c15Env, e ast.Expr) byte {
	w := o.w
	p := w.pathOf(env, e, false)
	if p == nil {
		return 0
	}
	if c15IsUpdateField(p.last(), "Timestamp") {
		if o.loop == nil || w.isElem(o.lenv, o.loop, p.prefix(1)) {
			return 'U'
		}
		return 0
	}
	if len(p.steps) == 0 && namedPath(p.root.Type()) == "time.Time" {
		rf := env.root().fn
		if rf.isInput(p.root) && len(rf.defs[p.root]) == 0 {
			return 'T'
		}
	}
	return 0
}

// mentionsTime: e reads a Timestamp of an update or a time.Time parameter (used to tell "test not understood"
// from "no test").
func (o *c15Oracle) mentionsTime(env *c15Env, e ast.Expr) bool {
	found := false
	ast.Inspect(e, func(n ast.Node) bool {
		x, ok := n.(ast.Expr)
		if !ok || found {
			return !found
		}
		switch x.(type) {
		case *ast.Ident, *ast.SelectorExpr:
			if r := o.timeRole(env, x); r != 0 {
				found = true
			}
		}
		return !found
	})
	return found
}

func (o *c15Oracle) atom(env *c15Env, e ast.Expr) c15Tri {
	w := o.w
	e = ast.Unparen(e)
	// time order
	if o.ord != c15OrdNone {
		if v, ok := o.timeAtom(env, e); ok {
			o.timeAtoms++
			return v
		}
	}
	// comparisons
	if l, op, r, ok := cmpNorm(e); ok {
		// <update>.Index against len(C); operands may be parameters of a helper bound to these (`i >= n`)
		if o.rng != 0 {
			lenv, lx := w.resolveExpr(env, l)
			renv, rx := w.resolveExpr(env, r)
			match := func(ienv *c15Env, I ast.Expr, cenv *c15Env, C ast.Expr) bool {
				ip := w.pathOf(ienv, I, false)
				if ip == nil || !c15IsUpdateIndexPath(ip) {
					return false
				}
				if o.rngIdx != nil {
					return ip.eq(o.rngIdx) && w.pathOf(cenv, C, false).eq(o.rngCont)
				}
				return true
			}
			if la := lenCallArg(w.info, lx); la != nil && match(renv, rx, lenv, la) { // len(C) op I
				switch op {
				case token.LEQ: // len(C) <= I : out of range
					return c15Of(o.rng < 0)
				case token.LSS: // len(C) < I : false when in range
					if o.rng > 0 {
						return c15F
					}
				}
				return c15U
			}
			if ra := lenCallArg(w.info, rx); ra != nil && match(lenv, lx, renv, ra) { // I op len(C)
				switch op {
				case token.LSS: // I < len(C) : in range
					return c15Of(o.rng > 0)
				case token.LEQ: // I <= len(C) : true when in range
					if o.rng > 0 {
						return c15T
					}
				}
				return c15U
			}
		}
		// err != nil / err == nil
		if op == token.EQL || op == token.NEQ {
			var other ast.Expr
			switch {
			case isNilIdent(r):
				other = l
			case isNilIdent(l):
				other = r
			}
			if other != nil {
				if o.errObj != nil && o.errVal != 0 {
					if p := w.pathOf(env, other, false); p != nil && p.root == o.errObj && len(p.steps) == 0 {
						return c15Of((op == token.NEQ) == (o.errVal > 0))
					}
				}
				// an error variable whose only value is the result of a helper of package osm: summarise the
				// helper under the same abstract input
				if s := o.errValueOf(env, other); s != 0 {
					return c15Of((op == token.NEQ) == (s > 0))
				}
			}
		}
	} else if o.reverse != 0 {
		// <update>.Reverse (comparisons with true/false are unfolded by eval)
		if p := w.pathOf(env, e, false); p != nil && c15IsUpdateField(p.last(), "Reverse") {
			return c15Of(o.reverse > 0)
		}
	}
	// an atom about the element's Timestamp or t that is none of the understood comparisons
	if o.ord != c15OrdNone && o.mentionsTime(env, e) {
		o.unknownTimes = append(o.unknownTimes, e)
	}
	return c15U
}

// errValueOf: e is an error-typed expression; +1 = certainly non-nil, -1 = certainly nil, 0 = unknown, under the
// oracle's abstract input. Understood: nil, a local whose single definition is a call, and calls of functions of
// package osm (summarised by walking their CFG under the same oracle).
func (o *c15Oracle) errValueOf(env *c15Env, e ast.Expr) int {
	w := o.w
	e = ast.Unparen(e)
	if isNilIdent(e) {
		return -1
	}
	if id, ok := e.(*ast.Ident); ok {
		ob := objOf(w.info, id)
		env = env.scope(ob)
		if b, bound := env.lookup(ob); bound {
			return o.errValueOf(b.env, b.expr)
		}
		d := env.fn.singleDef(ob)
		if d == nil {
			// a named result assigned exactly once, by an assignment that dominates this use
			f := env.fn
			if ds := f.defs[ob]; f.isParam(ob) && !f.isInput(ob) && len(ds) == 1 && ds[0] != nil && posDominates(f.g, f.dom, ds[0].Pos(), id.Pos()) && ds[0].Pos() < id.Pos() {
				d = ds[0]
			}
		}
		if d == nil {
			return 0
		}
		e = ast.Unparen(d)
	}
	call, ok := e.(*ast.CallExpr)
	if !ok {
		return 0
	}
	f, ce := w.calleeOf(env, call)
	if f == nil || !c15ReturnsError(f) || o.sumDepth >= 3 {
		return 0
	}
	if f.fi.Obj.Type().(*types.Signature).Results().Len() != 1 {
		return 0
	}
	o.sumDepth++
	defer func() { o.sumDepth-- }()
	wk := w.walk(f.g.Blocks[0], 0, c15WalkOpt{env: ce, oracle: o})
	if wk.implicit || len(wk.returns) == 0 {
		return 0
	}
	res := 0
	for i, ret := range wk.returns {
		v := 0
		if len(ret.Results) == 1 {
			if w.retKind(f, ret) == c15RetFailure {
				v = +1
			} else {
				v = o.errValueOf(ce, ret.Results[0])
			}
		}
		if v == 0 || (i > 0 && v != res) {
			return 0
		}
		res = v
	}
	return res
}

// timeAtom decides A.After(B) / A.Before(B) / A.Equal(B) / A.Compare(B) <op> k where {A,B} = {element timestamp, t}.
func (o *c15Oracle) timeAtom(env *c15Env, e ast.Expr) (c15Tri, bool) {
	w := o.w
	// sign of (u.Timestamp - t)
	sign := map[c15Ord]int{c15OrdBefore: -1, c15OrdEqual: 0, c15OrdAfter: +1}[o.ord]
	timeCall := func(x ast.Expr) (string, int, bool) { // method name, sign of (recv - arg)
		call, ok := ast.Unparen(x).(*ast.CallExpr)
		if !ok || len(call.Args) != 1 {
			return "", 0, false
		}
		fn := callee(w.info, call)
		if fn == nil {
			return "", 0, false
		}
		recv := fn.Type().(*types.Signature).Recv()
		if recv == nil || namedPath(recv.Type()) != "time.Time" {
			return "", 0, false
		}
		sel, ok := ast.Unparen(call.Fun).(*ast.SelectorExpr)
		if !ok {
			return "", 0, false
		}
		ra, rb := o.timeRole(env, sel.X), o.timeRole(env, call.Args[0])
		switch {
		case ra == 'U' && rb == 'T':
			return fn.Name(), sign, true
		case ra == 'T' && rb == 'U':
			return fn.Name(), -sign, true
		}
		return "", 0, false
	}
	if name, s, ok := timeCall(e); ok {
		switch name {
		case "After":
			return c15Of(s > 0), true
		case "Before":
			return c15Of(s < 0), true
		case "Equal":
			return c15Of(s == 0), true
		}
		return c15U, false
	}
	if be, ok := e.(*ast.BinaryExpr); ok {
		cmp := func(a int64, op token.Token, b int64) (c15Tri, bool) {
			switch op {
			case token.LSS:
				return c15Of(a < b), true
			case token.LEQ:
				return c15Of(a <= b), true
			case token.GTR:
				return c15Of(a > b), true
			case token.GEQ:
				return c15Of(a >= b), true
			case token.EQL:
				return c15Of(a == b), true
			case token.NEQ:
				return c15Of(a != b), true
			}
			return c15U, false
		}
		if name, s, ok := timeCall(be.X); ok && name == "Compare" {
			if k, ok := constInt(w.info, be.Y); ok {
				return cmp(int64(s), be.Op, k)
			}
		}
		if name, s, ok := timeCall(be.Y); ok && name == "Compare" {
			if k, ok := constInt(w.info, be.X); ok {
				return cmp(k, be.Op, int64(s))
			}
		}
	}
	return c15U, false
}

// resolveExpr follows identifiers that are parameters bound by the call environment or locals with a single pure
// definition, and returns the defining expression with the environment it is written in.
func (w *c15World) resolveExpr(env *c15Env, e ast.Expr) (*c15Env, ast.Expr) {
	for i := 0; i < 8; i++ {
		e = ast.Unparen(e)
		id, ok := e.(*ast.Ident)
		if !ok {
			break
		}
		ob := objOf(w.info, id)
		if ob == nil {
			break
		}
		env = env.scope(ob)
		if b, ok := env.lookup(ob); ok {
			env, e = b.env, b.expr
			continue
		}
		if d := env.fn.singleDef(ob); d != nil && w.pureExpr(d, 0) {
			e = d
			continue
		}
		break
	}
	return env, e
}

// eval evaluates a boolean expression written in env.fn: connectives, constants, boolean locals with a single
// definition, parameters bound by the call environment, and calls of single-expression helpers are looked through;
// everything else is an atom for the oracle.
func (w *c15World) eval(env *c15Env, e ast.Expr, o *c15Oracle, depth int) c15Tri {
	e = ast.Unparen(e)
	if depth > 12 {
		return c15U
	}
	if tv, ok := w.info.Types[e]; ok && tv.Value != nil {
		if s := tv.Value.String(); s == "true" {
			return c15T
		} else if s == "false" {
			return c15F
		}
	}
	switch x := e.(type) {
	case *ast.BinaryExpr:
		switch x.Op {
		case token.LAND:
			return c15And(w.eval(env, x.X, o, depth+1), w.eval(env, x.Y, o, depth+1))
		case token.LOR:
			return c15Or(w.eval(env, x.X, o, depth+1), w.eval(env, x.Y, o, depth+1))
		case token.EQL, token.NEQ:
			// B == true, B != false ...
			if tv, ok := w.info.Types[x.Y]; ok && tv.Value != nil && (tv.Value.String() == "true" || tv.Value.String() == "false") {
				v := w.eval(env, x.X, o, depth+1)
				if (tv.Value.String() == "true") != (x.Op == token.EQL) {
					v = c15Not(v)
				}
				return v
			}
		}
	case *ast.UnaryExpr:
		if x.Op == token.NOT {
			return c15Not(w.eval(env, x.X, o, depth+1))
		}
	case *ast.Ident:
		ob := objOf(w.info, x)
		env = env.scope(ob)
		if b, ok := env.lookup(ob); ok {
			return w.eval(b.env, b.expr, o, depth+1)
		}
		if d := env.fn.singleDef(ob); d != nil && w.pureExpr(d, 0) {
			return w.eval(env, d, o, depth+1)
		}
	case *ast.CallExpr:
		if f, ce := w.calleeOf(env, x); f != nil {
			if ret := singleReturnExpr(f.fi); ret != nil {
				return w.eval(ce, ret, o, depth+1)
			}
		}
	}
	return o.atom(env, e)
}

// ---------------------------------------------------------------- walking the CFG

type c15Walk struct {
	visited  map[ast.Node]bool
	nodes    []ast.Node // in visiting order
	blocks   map[*cfg.Block]bool
	returns  []*ast.ReturnStmt
	implicit bool // fell off the end of the function
	head     bool // came back to the loop head (continue / end of body)
	done     bool // left the loop through its exit (break)
	escape   ast.Node
	dead     ast.Node // a path ends in panic
	barrier  bool     // some path was stopped by the barrier
}

type c15WalkOpt struct {
	env     *c15Env
	loop    *c15Loop // nil: whole-function walk
	oracle  *c15Oracle
	barrier func(ast.Node) bool // paths stop at (and do not execute) the first node for which barrier holds
}

// walk explores fn's CFG from node index startIdx of block start.
func (w *c15World) walk(start *cfg.Block, startIdx int, opt c15WalkOpt) *c15Walk {
	res := &c15Walk{visited: map[ast.Node]bool{}, blocks: map[*cfg.Block]bool{}}
	type item struct {
		b *cfg.Block
		i int
	}
	work := []item{{start, startIdx}}
	seen := map[*cfg.Block]bool{}
	for len(work) > 0 {
		it := work[len(work)-1]
		work = work[:len(work)-1]
		b := it.b
		if it.i == 0 {
			if seen[b] {
				continue
			}
			seen[b] = true
		}
		res.blocks[b] = true
		stopped := false
		var last ast.Node
		for i := it.i; i < len(b.Nodes); i++ {
			n := b.Nodes[i]
			if opt.barrier != nil && opt.barrier(n) {
				res.barrier = true
				stopped = true
				break
			}
			if !res.visited[n] {
				res.visited[n] = true
				res.nodes = append(res.nodes, n)
			}
			last = n
			if ret, ok := n.(*ast.ReturnStmt); ok {
				res.returns = append(res.returns, ret)
				stopped = true
				break
			}
		}
		if stopped {
			continue
		}
		var next []*cfg.Block
		switch len(b.Succs) {
		case 0:
			if last != nil && c15IsPanic(w.info, last) {
				res.dead = last
			} else {
				res.implicit = true
			}
			continue
		case 2:
			v := c15U
			if cond := condOf(w.info, b); cond != nil && opt.oracle != nil {
				v = w.eval(opt.env, cond, opt.oracle, 0)
			}
			switch v {
			case c15T:
				next = b.Succs[:1]
			case c15F:
				next = b.Succs[1:]
			default:
				next = b.Succs
			}
		default:
			next = b.Succs
		}
		for _, s := range next {
			if l := opt.loop; l != nil {
				switch {
				case s == l.head:
					res.head = true
					continue
				case s == l.done:
					res.done = true
					continue
				case !l.inBody(s):
					if len(s.Nodes) > 0 {
						res.escape = s.Nodes[0]
					} else {
						res.escape = l.stmt
					}
					continue
				}
			}
			work = append(work, item{s, 0})
		}
	}
	return res
}

func c15IsPanic(info *types.Info, n ast.Node) bool {
	es, ok := n.(*ast.ExprStmt)
	if !ok {
		return false
	}
	call, ok := es.X.(*ast.CallExpr)
	return ok && builtinName(info, call) == "panic"
}

// effects returns the effect nodes among the visited nodes.
func (w *c15World) effects(scope ast.Node, wk *c15Walk) []ast.Node {
	var out []ast.Node
	for _, n := range wk.nodes {
		if w.isEffect(scope, n) {
			out = append(out, n)
		}
	}
	return out
}

// ---------------------------------------------------------------- returns

const (
	c15RetSuccess = iota // no error result, or the error result is nil / may be nil
	c15RetFailure        // the error result is known to be non-nil
)

// retKind classifies a return statement of f by its error result.
func (w *c15World) retKind(f *c15Fn, ret *ast.ReturnStmt) int {
	sig := f.fi.Obj.Type().(*types.Signature)
	n := sig.Results().Len()
	if n == 0 || !types.Identical(sig.Results().At(n-1).Type(), types.Universe.Lookup("error").Type()) {
		return c15RetSuccess
	}
	var e ast.Expr
	switch {
	case len(ret.Results) == n:
		e = ast.Unparen(ret.Results[n-1])
	case len(ret.Results) == 0 && sig.Results().At(n-1).Name() != "":
		// bare return: the named error result decides
		for id, o := range w.info.Defs {
			if o == types.Object(sig.Results().At(n-1)) {
				e = id
			}
		}
	}
	if e == nil {
		return c15RetSuccess // a multi-value call
	}
	switch x := e.(type) {
	case *ast.UnaryExpr:
		if x.Op == token.AND {
			return c15RetFailure
		}
	case *ast.CompositeLit:
		return c15RetFailure
	case *ast.CallExpr:
		fn := callee(w.info, x)
		if isPkgFunc(fn, "errors", "New") || isPkgFunc(fn, "fmt", "Errorf") {
			return c15RetFailure
		}
	case *ast.Ident:
		o := objOf(w.info, x)
		if o == nil || isNilIdent(x) {
			return c15RetSuccess
		}
		facts := factsAtPos(w.info, f.g, f.dom, ret.Pos())
		if knownNonNil(facts, func(y ast.Expr) bool { return objOf(w.info, y) == o }) != nil {
			// the variable must not be reassigned between the test and the return
			return c15RetFailure
		}
	}
	return c15RetSuccess
}

// ---------------------------------------------------------------- deep traversal from an API function

// reach lists root and the unexported helpers it (transitively) calls, each once, in call order.
func (w *c15World) reach(root *c15Fn) []*c15Env {
	seen := map[*c15Fn]bool{root: true}
	var out []*c15Env
	var visit func(env *c15Env)
	visit = func(env *c15Env) {
		out = append(out, env)
		if env.depth() >= 4 {
			return
		}
		inspectNoLit(env.fn.fi.Decl.Body, func(n ast.Node) bool {
			call, ok := n.(*ast.CallExpr)
			if !ok {
				return true
			}
			f, ce := w.calleeOf(env, call)
			if f == nil || f.fi.Obj.Exported() || seen[f] {
				return true
			}
			seen[f] = true
			visit(ce)
			return true
		})
	}
	visit(w.rootEnv(root))
	return out
}

// c15LoopSite is a loop over Updates reached from a root.
type c15LoopSite struct {
	env  *c15Env
	loop *c15Loop
}

// timeParams returns the time.Time parameters of f.
func (f *c15Fn) timeParams() []*types.Var {
	var out []*types.Var
	sig := f.fi.Obj.Type().(*types.Signature)
	for i := 0; i < sig.Params().Len(); i++ {
		if namedPath(sig.Params().At(i).Type()) == "time.Time" {
			if _, isPtr := sig.Params().At(i).Type().(*types.Pointer); !isPtr {
				out = append(out, sig.Params().At(i))
			}
		}
	}
	return out
}

// nodeAt returns the CFG node of f that contains pos, with its block and index.
func (f *c15Fn) nodeAt(pos token.Pos) (ast.Node, *cfg.Block, int) {
	b, i := blockOf(f.g, pos)
	if b == nil {
		return nil, nil, -1
	}
	return b.Nodes[i], b, i
}

func c15Within(outer, inner ast.Node) bool {
	return outer != nil && inner != nil && outer.Pos() <= inner.Pos() && inner.End() <= outer.End()
}
