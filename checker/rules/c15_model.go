package rules

import (
	"go/ast"
	"go/token"
	"go/types"

	"golang.org/x/tools/go/cfg"
	"golang.org/x/tools/go/packages"

	"osmcheck/core"
)

// Analysis model shared by the C15 rules.
//
// The rules are decided on control-flow graphs by finite-domain evaluation, not on statement shapes:
//
//   - c15Path: an lvalue/rvalue expression normalised to (root variable, field / index steps). Pointer aliases
//     (`n := &w.Nodes[u.Index]`), single-assignment locals, reference-typed copies and the parameters of helper
//     functions (through the call environment c15Env) are resolved, so `n.Lat`, `w.Nodes[u.Index].Lat` and a helper's
//     `node.Lat` are the same path.
//   - c15Env: the chain of calls from the API function down to the helper whose body is being read; it maps the
//     helper's parameters/receiver to the argument expressions, each with the environment it is written in.
//     calleeOf follows a call of a function value (parameter / local) to the method value, function or function
//     literal bound to it and builds the callee's environment from that value ("inlining with the closure bound").
//   - c15Loop: a loop over an osm.Updates value (range with value, range with key only, classic index loop).
//   - walk: explores the CFG from a block, taking each two-way branch according to the three-valued value of its
//     condition under an oracle for the atoms (relative order of u.Timestamp and t; index in range or not;
//     u.Reverse; err != nil). Unknown atoms follow both edges. Predicate helpers (`func (u Update) late(t) bool {
//     return u.Timestamp.After(t) }`) and boolean locals are evaluated through.
//
// Nothing in here keys on the name of an unexported function, on a file or on a local variable name.

// ---------------------------------------------------------------- three-valued logic

type c15Tri int

const (
	c15F c15Tri = iota
	c15T
	c15U
)

func c15Of(b bool) c15Tri {
	if b {
		return c15T
	}
	return c15F
}

func c15Not(a c15Tri) c15Tri {
	switch a {
	case c15F:
		return c15T
	case c15T:
		return c15F
	}
	return c15U
}

func c15And(a, b c15Tri) c15Tri {
	if a == c15F || b == c15F {
		return c15F
	}
	if a == c15T && b == c15T {
		return c15T
	}
	return c15U
}

func c15Or(a, b c15Tri) c15Tri { return c15Not(c15And(c15Not(a), c15Not(b))) }

// ---------------------------------------------------------------- world / functions

type c15World struct {
	r     *core.R
	pk    *packages.Package
	info  *types.Info
	decls map[*types.Func]*FuncInfo
	fns   map[*types.Func]*c15Fn
	order []*FuncInfo // declaration order (deterministic iteration)

	lits map[*ast.FuncLit]*c15Fn

	filterMemo  map[*types.Func]int // result position of the in-time list (-1: not a filter, -2: in progress)
	carrierMemo map[*types.Func]int
}

type c15Fn struct {
	w    *c15World
	fi   *FuncInfo
	g    *cfg.CFG
	dom  map[*cfg.Block]map[*cfg.Block]bool
	defs map[types.Object][]ast.Expr  // every definition/assignment of a local; nil entry = not a plain 1:1 value
	tups map[types.Object]c15TupleDef // locals assigned by `…, x, … := call`
	zero map[types.Object]int         // declarations without a value (`var err error`): number of such entries in defs
	par  map[ast.Node]ast.Node

	loops     []*c15Loop
	loopsDone bool
	predMemo  map[ast.Stmt]bool
}

func c15NewWorld(r *core.R) *c15World {
	pk := r.P.Pkg("")
	w := &c15World{r: r, pk: pk, decls: map[*types.Func]*FuncInfo{}, fns: map[*types.Func]*c15Fn{}, lits: map[*ast.FuncLit]*c15Fn{},
		filterMemo: map[*types.Func]int{}, carrierMemo: map[*types.Func]int{}}
	if pk == nil {
		return w
	}
	w.info = pk.TypesInfo
	w.order = allFuncs(pk)
	for _, fi := range w.order {
		w.decls[fi.Obj] = fi
	}
	return w
}

// fn returns the analysed form of a function declared (with a body) in package osm, or nil.
func (w *c15World) fn(obj *types.Func) *c15Fn {
	if obj == nil {
		return nil
	}
	obj = obj.Origin()
	if f, ok := w.fns[obj]; ok {
		return f
	}
	fi := w.decls[obj]
	if fi == nil {
		w.fns[obj] = nil
		return nil
	}
	f := &c15Fn{w: w, fi: fi}
	f.g = newCFG(w.info, fi.Decl.Body)
	f.dom = dominators(f.g)
	f.par = parentsOf(w.r.P, fi)
	f.computeDefs()
	w.fns[obj] = f
	return f
}

// c15TupleDef: the local is result k of call.
type c15TupleDef struct {
	call *ast.CallExpr
	k    int
}

// tupleDef returns the call a local is the k-th result of, when that tuple assignment is its only definition.
func (f *c15Fn) tupleDef(o types.Object) (c15TupleDef, bool) {
	if o == nil || f.isParam(o) || len(f.defs[o]) != 1 {
		return c15TupleDef{}, false
	}
	td, ok := f.tups[o]
	return td, ok
}

func (f *c15Fn) computeDefs() {
	info := f.w.info
	f.defs = map[types.Object][]ast.Expr{}
	f.tups = map[types.Object]c15TupleDef{}
	f.zero = map[types.Object]int{}
	add := func(lhs ast.Expr, rhs ast.Expr) {
		if o := objOf(info, lhs); o != nil {
			f.defs[o] = append(f.defs[o], rhs)
		}
	}
	ast.Inspect(f.fi.Decl.Body, func(n ast.Node) bool {
		switch x := n.(type) {
		case *ast.AssignStmt:
			for i, l := range x.Lhs {
				var rhs ast.Expr
				if len(x.Lhs) == len(x.Rhs) && (x.Tok == token.ASSIGN || x.Tok == token.DEFINE) {
					rhs = x.Rhs[i]
				}
				add(l, rhs)
				if len(x.Rhs) == 1 && len(x.Lhs) > 1 {
					if call, ok := ast.Unparen(x.Rhs[0]).(*ast.CallExpr); ok {
						if o := objOf(info, l); o != nil {
							f.tups[o] = c15TupleDef{call: call, k: i}
						}
					}
				}
			}
		case *ast.IncDecStmt:
			add(x.X, nil)
		case *ast.RangeStmt:
			if x.Key != nil {
				add(x.Key, nil)
			}
			if x.Value != nil {
				add(x.Value, nil)
			}
		case *ast.ValueSpec:
			for i, nm := range x.Names {
				var rhs ast.Expr
				if len(x.Values) == len(x.Names) {
					rhs = x.Values[i]
				}
				add(nm, rhs)
				if len(x.Values) == 0 {
					if o := info.Defs[nm]; o != nil {
						f.zero[o]++
					}
				}
			}
		case *ast.UnaryExpr:
			// &x of a plain local: the local may be written through the pointer
			if x.Op == token.AND {
				if _, ok := ast.Unparen(x.X).(*ast.Ident); ok {
					add(x.X, nil)
				}
			}
		}
		return true
	})
}

// isParam reports whether o is a parameter, the receiver or a named result of f.
func (f *c15Fn) isParam(o types.Object) bool {
	if o == nil {
		return false
	}
	d := f.fi.Decl
	in := func(fl *ast.FieldList) bool {
		return fl != nil && fl.Pos() <= o.Pos() && o.Pos() < fl.End()
	}
	return in(d.Recv) || in(d.Type.Params) || in(d.Type.Results)
}

// isInput reports whether o is a parameter or the receiver (not a result) of f.
func (f *c15Fn) isInput(o types.Object) bool {
	if o == nil {
		return false
	}
	d := f.fi.Decl
	in := func(fl *ast.FieldList) bool {
		return fl != nil && fl.Pos() <= o.Pos() && o.Pos() < fl.End()
	}
	return in(d.Recv) || in(d.Type.Params)
}

// singleDef returns the unique value a local is ever given (`x := E`, `var x = E`, or a single `x = E`), or nil.
func (f *c15Fn) singleDef(o types.Object) ast.Expr {
	if o == nil || f.isParam(o) {
		return nil
	}
	d := f.defs[o]
	if len(d) != 1 {
		return nil
	}
	return d[0]
}

// soleAssignment returns the only value ever assigned to a variable that otherwise just has its zero value (a named
// result, or `var x T` without a value), provided that assignment dominates the use at pos.
func (f *c15Fn) soleAssignment(o types.Object, pos token.Pos) ast.Expr {
	ds := f.defs[o]
	zero := f.zero[o]
	if isResult := f.isParam(o) && !f.isInput(o); !isResult && zero == 0 {
		return nil // neither a named result (implicit zero value) nor declared without a value
	}
	if len(ds) != zero+1 {
		return nil
	}
	var d ast.Expr
	nils := 0
	for _, x := range ds {
		if x == nil {
			nils++
		} else {
			d = x
		}
	}
	if d == nil || nils != zero {
		return nil
	}
	if d.Pos() < pos && posDominates(f.g, f.dom, d.Pos(), pos) {
		return d
	}
	return nil
}

func (f *c15Fn) name() string { return f.fi.Name() }
