package rules

// Observation of the hand-written XML writers of package osm (the MarshalXML methods and everything they call)
// through the abstract interpreter of c03_eval.go. A scenario fixes which fields of the marshalled value are empty;
// the observation of a path is the sequence of Encoder calls with their abstract arguments: start / end tokens with
// their element name and attribute list, Encode / EncodeElement calls with the receiver field they write and the
// wrappers open at that point. The rules compare the observation with the tags the same data is read back under.
// Helper functions, their names and parameters, local variables holding start elements, the order of guards and the
// file the code lives in do not influence the observation.

import (
	"go/ast"
	"go/types"
	"sort"
	"strings"

	"osmcheck/core"
)

// c04Root is one MarshalXML method of package osm.
type c04Root struct {
	fi    *FuncInfo
	recv  *types.Var
	enc   *types.Var
	start *types.Var
	T     types.Type // receiver type without pointer
	ti    *c03Struct
	name  string // "OSM.MarshalXML"
	tname string // "OSM"
	// handed: when not empty, the scenario fixes the name of the start element handed to the method (the tag of the
	// holding field, or the Go type name when the value is marshalled on its own)
	handed string
}

func c04Roots(p *core.Program) []*c04Root {
	var out []*c04Root
	for _, fi := range allFuncs(c03OsmPkg(p)) {
		sig := fi.Obj.Type().(*types.Signature)
		if fi.Obj.Name() != "MarshalXML" || sig.Recv() == nil || sig.Params().Len() != 2 {
			continue
		}
		if namedPath(sig.Params().At(0).Type()) != "encoding/xml.Encoder" || namedPath(sig.Params().At(1).Type()) != "encoding/xml.StartElement" {
			continue
		}
		t := c03Deref(sig.Recv().Type())
		out = append(out, &c04Root{fi: fi, recv: sig.Recv(), enc: sig.Params().At(0), start: sig.Params().At(1), T: t, ti: c03XMLTypeInfo(t),
			name: strings.NewReplacer("(*", "", ")", "").Replace(fi.Name()), tname: c03TypeName(t)})
	}
	sort.Slice(out, func(i, j int) bool { return out[i].fi.Decl.Pos() < out[j].fi.Decl.Pos() })
	return out
}

// c04Zero says, for a field path below the receiver, whether the value is empty in the scenario.
type c04Zero func(path []*types.Var) tri

func c04AllSet(path []*types.Var) tri { return triF }

func c04IsPrefix(a, b []*types.Var) bool {
	if len(a) > len(b) {
		return false
	}
	for i := range a {
		if a[i] != b[i] {
			return false
		}
	}
	return true
}

// c04Only: everything is empty except the values on the way to, and below, target.
func c04Only(target []*types.Var) c04Zero {
	return func(path []*types.Var) tri {
		if c04IsPrefix(path, target) || c04IsPrefix(target, path) {
			return triF
		}
		return triT
	}
}

// c04Nil: everything is set except the value at target.
func c04Nil(target []*types.Var) c04Zero {
	return func(path []*types.Var) tri {
		if len(path) == len(target) && c04IsPrefix(path, target) {
			return triT
		}
		return triF
	}
}

// c04Name is the resolved Name.Local of a start / end token.
type c04Name struct {
	kind string // "const" | "pass" (the name of the start element handed to MarshalXML, unrenamed) | "unknown"
	s    string
	v    *c03V
}

func (n c04Name) String() string {
	switch n.kind {
	case "const":
		return "<" + n.s + ">"
	case "pass":
		return "<the element name handed to MarshalXML>"
	}
	return "<?" + n.v.String() + ">"
}

func (n c04Name) same(o c04Name) bool {
	if n.kind != o.kind {
		return false
	}
	switch n.kind {
	case "const":
		return n.s == o.s
	case "pass":
		return true
	}
	return n.v != nil && o.v != nil && n.v.Key != "" && n.v.Key == o.v.Key
}

// c04Token is one EncodeToken call.
type c04Token struct {
	ev    *c03Event
	start bool
	name  c04Name
	tok   *c03V
	depth int // number of elements open before the token
}

// c04Emit is one Encode / EncodeElement call.
type c04Emit struct {
	ev     *c03Event
	method string
	val    *c03V
	path   []*types.Var // field path of the encoded value below the receiver (nil: not a field of the receiver)
	elem   bool         // the value is one element of the list field at path
	tmpl   *c04Name     // EncodeElement: the name of the start element given
	open   []c04Name    // elements open at this point, outermost first
}

// c04Trace is the observation of one path of a root.
type c04Trace struct {
	x          *c03Interp
	path       *c03Path
	tokens     []c04Token
	emits      []c04Emit
	unbalanced string
	nilderef   []c03Event
	other      []c03Event // Encoder calls the model does not know
}

func c04FieldByName(t types.Type, name string) *types.Var {
	st, ok := c03Deref(t).Underlying().(*types.Struct)
	if !ok {
		return nil
	}
	for i := 0; i < st.NumFields(); i++ {
		if st.Field(i).Name() == name {
			return st.Field(i)
		}
	}
	return nil
}

// c04XMLModel models the value-level xml helpers: StartElement.End.
func c04XMLModel(x *c03Interp, st *c03State, fr *c03Frame, call *ast.CallExpr, fn *types.Func, recv *c03V, args []*c03V) ([]*c03V, bool) {
	if isMethod(fn, "encoding/xml.StartElement", "End") && recv != nil {
		sig := fn.Type().(*types.Signature)
		et := sig.Results().At(0).Type()
		nf, sf := c04FieldByName(et, "Name"), c04FieldByName(recv.T, "Name")
		if nf == nil || sf == nil {
			return nil, false
		}
		return []*c03V{{K: c03KStruct, T: et, Fields: map[*types.Var]*c03V{nf: x.field(st, recv, sf, call, fr)}}}, true
	}
	return nil, false
}

// c04ResolveName reads Name.Local of a token value.
func c04ResolveName(x *c03Interp, st *c03State, root *c04Root, tok *c03V) c04Name {
	nf := c04FieldByName(tok.T, "Name")
	if nf == nil {
		return c04Name{kind: "unknown", v: tok}
	}
	nv := x.field(st, tok, nf, root.fi.Decl, nil)
	lf := c04FieldByName(nf.Type(), "Local")
	if lf == nil {
		return c04Name{kind: "unknown", v: nv}
	}
	lv := x.field(st, nv, lf, root.fi.Decl, nil)
	switch {
	case lv.K == c03KStr:
		return c04Name{kind: "const", s: lv.Str, v: lv}
	case lv.IsInit("param") && lv.Root.Obj == root.start && len(lv.Path) == 2 && lv.Path[0].Name() == "Name" && lv.Path[1].Name() == "Local":
		return c04Name{kind: "pass", v: lv}
	}
	return c04Name{kind: "unknown", v: lv}
}

// c04RecvPath returns the field path of v below the receiver of root (ok=false when v is something else).
func c04RecvPath(root *c04Root, v *c03V) ([]*types.Var, bool) {
	if v != nil && v.IsInit("param") && v.Root.Obj == root.recv {
		return v.Path, true
	}
	return nil, false
}

// c04RecvElemPath: v is an element of the list field path of the receiver (a loop that encodes a list item by item
// writes the same elements, under the same names, as encoding the list).
func c04RecvElemPath(root *c04Root, v *c03V) ([]*types.Var, bool) {
	if v != nil && v.IsInit("elem") && len(v.Path) == 0 && v.Root.Of != nil {
		if p, ok := c04RecvPath(root, v.Root.Of); ok && len(p) > 0 {
			return p, true
		}
	}
	return nil, false
}

// c04Run explores root under scenario z.
func c04Run(p *core.Program, root *c04Root, z c04Zero, tag string) ([]*c04Trace, string) {
	x := &c03Interp{P: p, Model: c04XMLModel,
		Inline: func(fn *types.Func) bool { return fn.Name() != "MarshalXML" },
		ErrNil: func(fn *types.Func) bool { return namedPath(c04RecvTypeOf(fn)) == "encoding/xml.Encoder" },
		Init: func(v *c03V) *c03V {
			if v.IsInit("param") {
				switch v.Root.Obj {
				case root.recv:
					if len(v.Path) > 0 {
						v.Z = z(v.Path)
					} else {
						v.Z = triF
					}
				case root.enc:
					v.Z = triF
				case root.start:
					if root.handed != "" && len(v.Path) == 2 && v.Path[0].Name() == "Name" && v.Path[1].Name() == "Local" {
						return c03ScenarioString(root.handed, v.T)
					}
				}
			}
			return v
		}}
	paths := x.Run(root.fi, nil)
	c03DumpPaths(p, root.fi, tag, paths)
	var out []*c04Trace
	for _, pa := range paths {
		tr := &c04Trace{x: x, path: pa}
		var open []c04Name
		for i := range pa.St.Trace {
			e := &pa.St.Trace[i]
			if e.Kind == "nilderef" || e.Kind == "badassert" {
				tr.nilderef = append(tr.nilderef, *e)
				continue
			}
			if e.Kind != "call" || e.Fn == nil || namedPath(c04RecvTypeOf(e.Fn)) != "encoding/xml.Encoder" {
				continue
			}
			switch e.Fn.Name() {
			case "EncodeToken":
				if len(e.Args) != 1 {
					continue
				}
				tok := e.Args[0]
				switch namedPath(tok.T) {
				case "encoding/xml.StartElement":
					n := c04ResolveName(x, pa.St, root, tok)
					tr.tokens = append(tr.tokens, c04Token{ev: e, start: true, name: n, tok: tok, depth: len(open)})
					open = append(open, n)
				case "encoding/xml.EndElement":
					n := c04ResolveName(x, pa.St, root, tok)
					switch {
					case len(open) == 0:
						tr.unbalanced = "an end token " + n.String() + " is written while no element is open"
					case !open[len(open)-1].same(n):
						tr.unbalanced = "the end token " + n.String() + " closes " + open[len(open)-1].String()
						open = open[:len(open)-1]
					default:
						open = open[:len(open)-1]
					}
					tr.tokens = append(tr.tokens, c04Token{ev: e, name: n, tok: tok, depth: len(open)})
				default:
					tr.other = append(tr.other, *e)
				}
			case "Encode", "EncodeElement":
				if len(e.Args) == 0 {
					continue
				}
				em := c04Emit{ev: e, method: e.Fn.Name(), val: e.Args[0], open: append([]c04Name{}, open...)}
				if pth, ok := c04RecvPath(root, e.Args[0]); ok && len(pth) > 0 {
					em.path = pth
				} else if pth, ok := c04RecvElemPath(root, e.Args[0]); ok {
					em.path, em.elem = pth, true
				}
				if em.method == "EncodeElement" && len(e.Args) == 2 {
					n := c04ResolveName(x, pa.St, root, e.Args[1])
					em.tmpl = &n
				}
				tr.emits = append(tr.emits, em)
			case "Flush", "Indent":
			default:
				tr.other = append(tr.other, *e)
			}
		}
		if len(open) > 0 && tr.unbalanced == "" && pa.End == "return" {
			tr.unbalanced = "the start token " + open[len(open)-1].String() + " is never closed by an EncodeToken of its End()"
		}
		out = append(out, tr)
	}
	return out, x.Aborted
}

// c04View resolves a field path below a type through the XML model: the XML view of the last field, the struct that
// owns it, and the wrapper names the path implies (the tag of every non-embedded field on the way).
func c04View(rootT types.Type, path []*types.Var) (xf *c03Field, owner types.Type, wrappers []string, prefix []*c03Field) {
	cur := rootT
	for i, f := range path {
		ti := c03XMLTypeInfo(cur)
		if ti == nil {
			return nil, cur, wrappers, prefix
		}
		if i == len(path)-1 {
			return ti.FieldOf(f), c03Deref(cur), wrappers, prefix
		}
		if !f.Embedded() {
			pf := ti.FieldOf(f)
			name := ""
			if pf != nil {
				name = pf.Path()
			}
			wrappers = append(wrappers, name)
			prefix = append(prefix, pf)
		}
		cur = c03Deref(f.Type())
	}
	return nil, cur, wrappers, prefix
}

func c04PathString(tname string, path []*types.Var) string {
	s := tname
	for _, f := range path {
		s += "." + f.Name()
	}
	return s
}

// c04ElemFields lists the element-tagged fields of a struct type as the XML model sees them (promoted ones included).
func c04ElemFields(t types.Type) []*c03Field {
	ti := c03XMLTypeInfo(t)
	if ti == nil {
		return nil
	}
	var out []*c03Field
	for _, f := range ti.Fields {
		if f.Kind == c03Elem {
			out = append(out, f)
		}
	}
	return out
}

// c04GoPathOf returns the Go field path (embedded fields included) of an XML field view.
func c04GoPathOf(f *c03Field) []*types.Var { return append(append([]*types.Var{}, f.Via...), f.Var) }
