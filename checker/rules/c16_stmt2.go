package rules

// c16_stmt2.go — assignments, returns and type switches of the C16 abstract evaluator.

import (
	"go/ast"
	"go/token"
	"go/types"
)

// evalMulti evaluates an expression that yields n values (call, comma-ok forms).
func (m *c16M) evalMulti(f *c16Frame, e ast.Expr, n int) []c16Val {
	e = ast.Unparen(e)
	if n == 2 {
		switch x := e.(type) {
		case *ast.IndexExpr: // v, ok := m[k]
			base := m.eval(f, x.X)
			key := m.eval(f, x.Index)
			elemT := f.info.TypeOf(x)
			if tup, ok := elemT.(*types.Tuple); ok {
				elemT = tup.At(0).Type()
			}
			if mp, ok := base.(*c16Map); ok {
				if k, ok := c16Key(key); ok {
					if v, ok := mp.m[k]; ok {
						return []c16Val{v, true}
					}
					return []c16Val{c16Zero(elemT), false}
				}
			}
			if _, isNil := base.(c16Nil); isNil {
				return []c16Val{c16Zero(elemT), false}
			}
			return []c16Val{&c16Opq{typ: elemT, why: "opaque map lookup"}, &c16Opq{typ: types.Typ[types.Bool], why: "opaque map lookup"}}
		case *ast.TypeAssertExpr:
			v := m.eval(f, x.X)
			return []c16Val{v, m.hasType(v, f.info.TypeOf(x.Type), x)}
		}
	}
	call, ok := e.(*ast.CallExpr)
	if !ok {
		m.abort("multi-value expression %T at %s", e, m.pos(e))
	}
	v := m.evalCall(f, call)
	if t, ok := v.(c16Tuple); ok && len(t) == n {
		return t
	}
	m.abort("call yields %T, %d values wanted at %s", v, n, m.pos(e))
	return nil
}

// hasType decides a type test on the dynamic type of v (opaque when the evaluator does not track it).
func (m *c16M) hasType(v c16Val, t types.Type, at ast.Node) c16Val {
	var dyn types.Type
	switch x := v.(type) {
	case *c16Struct:
		dyn = x.typ
	case *c16Ptr:
		dyn = types.NewPointer(x.elem)
	case c16Slice:
		dyn = x.typ
	case *c16Arr:
		dyn = x.typ
	case *c16Map:
		dyn = x.typ
	case c16Nil:
		return false
	}
	if dyn == nil {
		return &c16Opq{typ: types.Typ[types.Bool], why: "type test on an untracked dynamic type"}
	}
	if _, isIface := t.Underlying().(*types.Interface); isIface {
		return types.AssignableTo(dyn, t)
	}
	return types.Identical(dyn, t)
}

func (m *c16M) assign(f *c16Frame, x *ast.AssignStmt) {
	// normalise nil stored into a slice-typed location
	norm := func(lhs ast.Expr, v c16Val) c16Val {
		v = c16Copy(v)
		if _, isNil := v.(c16Nil); isNil {
			if t := f.info.TypeOf(lhs); t != nil {
				if _, ok := t.Underlying().(*types.Slice); ok {
					return c16Slice{typ: t}
				}
			}
		}
		return v
	}
	store := func(lhs ast.Expr, v c16Val) {
		if id, ok := lhs.(*ast.Ident); ok && x.Tok == token.DEFINE {
			m.define(f, id, norm(lhs, v))
			return
		}
		m.lvalue(f, lhs).set(norm(lhs, v))
	}
	switch {
	case x.Tok != token.ASSIGN && x.Tok != token.DEFINE: // op=
		ops := map[token.Token]token.Token{
			token.ADD_ASSIGN: token.ADD, token.SUB_ASSIGN: token.SUB, token.MUL_ASSIGN: token.MUL, token.QUO_ASSIGN: token.QUO,
			token.REM_ASSIGN: token.REM, token.AND_ASSIGN: token.AND, token.OR_ASSIGN: token.OR, token.XOR_ASSIGN: token.XOR,
			token.SHL_ASSIGN: token.SHL, token.SHR_ASSIGN: token.SHR, token.AND_NOT_ASSIGN: token.AND_NOT,
		}
		op, ok := ops[x.Tok]
		if !ok || len(x.Lhs) != 1 {
			m.abort("unsupported assignment %s at %s", x.Tok, m.pos(x))
		}
		ref := m.lvalue(f, x.Lhs[0])
		ref.set(m.binop(op, ref.get(), m.eval(f, x.Rhs[0]), f.info.TypeOf(x.Lhs[0]), x))
	case len(x.Lhs) == len(x.Rhs):
		vals := make([]c16Val, len(x.Rhs))
		for i, e := range x.Rhs {
			vals[i] = c16Copy(m.eval(f, e))
		}
		for i, l := range x.Lhs {
			store(l, vals[i])
		}
	case len(x.Rhs) == 1:
		vals := m.evalMulti(f, x.Rhs[0], len(x.Lhs))
		for i, l := range x.Lhs {
			store(l, vals[i])
		}
	default:
		m.abort("unsupported assignment shape at %s", m.pos(x))
	}
}

func (m *c16M) returnStmt(f *c16Frame, x *ast.ReturnStmt) c16Ctl {
	var vals []c16Val
	switch {
	case len(x.Results) == 0:
		for _, c := range f.results {
			vals = append(vals, c.v)
		}
	case len(x.Results) == 1 && f.nres > 1: // `return g(...)` forwarding several results
		vals = m.evalMulti(f, x.Results[0], f.nres)
	default:
		for _, e := range x.Results {
			vals = append(vals, c16Copy(m.eval(f, e)))
		}
	}
	for i, c := range f.results { // named results are visible to deferred calls
		if i < len(vals) {
			c.v = vals[i]
		}
	}
	return c16Ctl{kind: token.RETURN, vals: vals}
}

func (m *c16M) typeSwitch(f *c16Frame, x *ast.TypeSwitchStmt, label string) c16Ctl {
	if x.Init != nil {
		m.stmt(f, x.Init, "")
	}
	var subject ast.Expr
	var bindID *ast.Ident
	switch a := x.Assign.(type) {
	case *ast.ExprStmt:
		subject = a.X.(*ast.TypeAssertExpr).X
	case *ast.AssignStmt:
		subject = a.Rhs[0].(*ast.TypeAssertExpr).X
		bindID = a.Lhs[0].(*ast.Ident)
	}
	v := m.eval(f, subject)
	var chosen, def *ast.CaseClause
	for _, cs := range x.Body.List {
		cc := cs.(*ast.CaseClause)
		if cc.List == nil {
			def = cc
			continue
		}
		for _, te := range cc.List {
			var hit c16Val
			if tv := f.info.Types[te]; tv.IsNil() {
				_, isNil := v.(c16Nil)
				hit = isNil
			} else {
				hit = m.hasType(v, f.info.TypeOf(te), te)
			}
			b, ok := hit.(bool)
			if !ok {
				b = m.choose("type case "+src(m.p.Fset, te)+" @"+m.pos(te), 2) == 1
			}
			if b {
				chosen = cc
				break
			}
		}
		if chosen != nil {
			break
		}
	}
	if chosen == nil {
		chosen = def
	}
	if chosen == nil {
		return c16None
	}
	if bindID != nil {
		if obj := f.info.Implicits[chosen]; obj != nil {
			f.vars[obj] = &c16Cell{v: c16Copy(v)}
		}
	}
	c := m.block(f, chosen.Body)
	if c.kind == token.BREAK && (c.label == "" || c.label == label) {
		return c16None
	}
	return c
}
