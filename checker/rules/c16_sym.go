package rules

// c16_sym.go — symbolic floats of the C16 abstract evaluator. Arithmetic on symbolic coordinates is not evaluated
// to a number: it is kept as a polynomial over the coordinate variables (exact: the coefficients that occur are small
// integers) together with the set of points it depends on. A quotient by a non-constant loses the polynomial but
// keeps the dependencies. A comparison of symbolic floats yields an unknown boolean that remembers the comparison
// (left minus right as a polynomial, the operator, the points involved); when a branch decides it, the decision is
// logged. Rule E1 reads these logs: which points meet in one crossing test, which polynomial decides the orientation.

import (
	"go/token"
	"go/types"
	"math"
	"sort"
	"strings"
)

// c16Poly maps a monomial (variables sorted and joined by "*", "" for the constant) to its coefficient.
type c16Poly map[string]float64

type c16Sym struct {
	poly c16Poly // nil: not a polynomial (a quotient by a non-constant)
	deps map[string]bool
}

// c16Cmp is a comparison of symbolic floats: diff (left - right) op 0.
type c16Cmp struct {
	op   token.Token
	diff c16Poly // nil when not polynomial
	deps map[string]bool
}

// c16Decided is a comparison a branch depended on, with the value the path gave it.
type c16Decided struct {
	cmp    *c16Cmp
	result bool
}

func c16PointOf(coord string) string {
	if i := strings.LastIndexByte(coord, '.'); i > 0 {
		return coord[:i]
	}
	return coord
}

// c16DepsOf collects the points a value depends on.
func c16DepsOf(v c16Val, into map[string]bool) {
	switch x := v.(type) {
	case c16Flt:
		if x.tok != "" {
			into[c16PointOf(x.tok)] = true
		}
	case *c16Sym:
		for d := range x.deps {
			into[d] = true
		}
	case *c16Opq:
		for d := range x.deps {
			into[d] = true
		}
	case *c16Arr:
		for _, e := range x.e {
			c16DepsOf(e, into)
		}
	}
}

func c16SortedDeps(d map[string]bool) []string {
	out := make([]string, 0, len(d))
	for k := range d {
		out = append(out, k)
	}
	sort.Strings(out)
	return out
}

// c16ToSym lifts a float value; ok=false for anything that is not a float.
func c16ToSym(v c16Val) (*c16Sym, bool) {
	switch x := v.(type) {
	case *c16Sym:
		return x, true
	case c16Flt:
		if x.tok == "" {
			return &c16Sym{poly: c16Poly{"": x.v}, deps: map[string]bool{}}, true
		}
		return &c16Sym{poly: c16Poly{x.tok: 1}, deps: map[string]bool{c16PointOf(x.tok): true}}, true
	}
	return nil, false
}

func (p c16Poly) clean() c16Poly {
	for k, c := range p {
		if math.Abs(c) < 1e-9 {
			delete(p, k)
		}
	}
	return p
}

func c16PolyAdd(a, b c16Poly, sign float64) c16Poly {
	out := c16Poly{}
	for k, c := range a {
		out[k] = c
	}
	for k, c := range b {
		out[k] += sign * c
	}
	return out.clean()
}

func c16PolyMul(a, b c16Poly) c16Poly {
	out := c16Poly{}
	for ka, ca := range a {
		for kb, cb := range b {
			var vars []string
			if ka != "" {
				vars = append(vars, strings.Split(ka, "*")...)
			}
			if kb != "" {
				vars = append(vars, strings.Split(kb, "*")...)
			}
			if len(vars) > 6 {
				return nil
			}
			sort.Strings(vars)
			out[strings.Join(vars, "*")] += ca * cb
		}
	}
	return out.clean()
}

func (p c16Poly) constant() (float64, bool) {
	switch len(p) {
	case 0:
		return 0, true
	case 1:
		c, ok := p[""]
		return c, ok
	}
	return 0, false
}

// symBinop: arithmetic and comparisons with at least one symbolic float operand; ok=false when not applicable.
func (m *c16M) symBinop(op token.Token, l, r c16Val, t types.Type) (c16Val, bool) {
	_, ls := l.(*c16Sym)
	_, rs := r.(*c16Sym)
	if lf, isF := l.(c16Flt); isF && lf.tok != "" {
		ls = true
	}
	if rf, isF := r.(c16Flt); isF && rf.tok != "" {
		rs = true
	}
	if !ls && !rs {
		return nil, false
	}
	a, ok1 := c16ToSym(l)
	b, ok2 := c16ToSym(r)
	if !ok1 || !ok2 {
		return nil, false
	}
	deps := map[string]bool{}
	c16DepsOf(a, deps)
	c16DepsOf(b, deps)
	var poly c16Poly
	both := a.poly != nil && b.poly != nil
	switch op {
	case token.ADD, token.SUB:
		if both {
			sign := 1.0
			if op == token.SUB {
				sign = -1
			}
			poly = c16PolyAdd(a.poly, b.poly, sign)
		}
	case token.MUL:
		if both {
			poly = c16PolyMul(a.poly, b.poly)
		}
	case token.QUO:
		if both {
			if c, isConst := b.poly.constant(); isConst && c != 0 {
				poly = c16PolyMul(a.poly, c16Poly{"": 1 / c})
			}
		}
	case token.LSS, token.LEQ, token.GTR, token.GEQ, token.EQL, token.NEQ:
		cmp := &c16Cmp{op: op, deps: deps}
		if both {
			cmp.diff = c16PolyAdd(a.poly, b.poly, -1)
		}
		return &c16Opq{typ: t, why: "comparison of symbolic coordinates", deps: deps, cmp: cmp}, true
	default:
		return nil, false
	}
	return &c16Sym{poly: poly, deps: deps}, true
}

// decided logs that a branch took the unknown boolean v as b.
func (m *c16M) decided(v *c16Opq, b bool) {
	m.trace[len(m.trace)-1].deps = c16SortedDeps(v.deps)
	if v.cmp != nil {
		m.cmps = append(m.cmps, c16Decided{cmp: v.cmp, result: b != v.neg})
	}
}

// c16Proportional: d = k*s for some k != 0; returns k.
func c16Proportional(d, s c16Poly) (float64, bool) {
	if len(d) != len(s) || len(s) == 0 {
		return 0, false
	}
	k := 0.0
	for mono, c := range s {
		dc, ok := d[mono]
		if !ok {
			return 0, false
		}
		if k == 0 {
			k = dc / c
		} else if math.Abs(dc/c-k) > 1e-9 {
			return 0, false
		}
	}
	return k, k != 0
}
