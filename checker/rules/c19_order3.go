package rules

// c19_order3.go — the walk behind C19.M6 for the binary-search loop, following the classification into functions
// of the package: `window.narrow(split, timestamp)` is walked with its parameters standing for the probed state and
// the query time, so that the three-way classification may live in a method that updates the bounds.

import (
	"go/ast"
	"go/types"

	"golang.org/x/tools/go/cfg"
)

// c19Outcome is what one ordering of probed timestamp and query time can reach.
type c19Outcome struct {
	lo, hi    ast.Node // an update `lo = s` / `hi = s` that is reached
	undecided ast.Expr // a comparison of the two instants (or a call) the walk could not decide
}

// classifyWalk walks fi from the node after (blk, idx) under ord = sign(probed timestamp - query time), with vars
// the probed state variables of fi and tVar its query-time variable, recording the bound updates reached.
func (m *c19Model) classifyWalk(fi *FuncInfo, blk *cfg.Block, idx int, vars map[types.Object]bool, tVar types.Object, tsFld *types.Var, lo, hi types.Object, ord int, oc *c19Outcome, depth int) {
	info := m.info
	ops := &c19TimeOps{m: m, fi: fi, tVar: tVar, sVars: vars, tsFld: tsFld}
	at := ops.atom(ord, m.nilAtom(vars, false))
	u := m.orderWalk(blk, idx, at, ops, func(n ast.Node) bool {
		if as, ok := n.(*ast.AssignStmt); ok && len(as.Lhs) == len(as.Rhs) {
			for j, lhs := range as.Lhs {
				if !vars[objOf(info, as.Rhs[j])] {
					continue
				}
				switch m.boundOf(lhs) {
				case lo:
					oc.lo = n
				case hi:
					oc.hi = n
				}
			}
		}
		if depth < 2 {
			m.classifyCalls(n, vars, tVar, tsFld, lo, hi, ord, oc, depth)
		}
		return !c19Overwrites(info, n, vars)
	}, nil)
	if u != nil && oc.undecided == nil {
		oc.undecided = u
	}
}

// classifyCalls descends into the package functions called by node n that assign a bound.
func (m *c19Model) classifyCalls(n ast.Node, vars map[types.Object]bool, tVar types.Object, tsFld *types.Var, lo, hi types.Object, ord int, oc *c19Outcome, depth int) {
	info := m.info
	ast.Inspect(n, func(x ast.Node) bool {
		switch call := x.(type) {
		case *ast.FuncLit:
			return false
		case *ast.CallExpr:
			g := m.funcs[callee(info, call)]
			if g == nil || !(m.assignsBound(g.Decl.Body, lo, depth+1) || m.assignsBound(g.Decl.Body, hi, depth+1)) {
				return true
			}
			sig := g.Obj.Type().(*types.Signature)
			gvars := map[types.Object]bool{}
			var gT types.Object
			for i := 0; i < sig.Params().Len() && i < len(call.Args); i++ {
				o := objOf(info, call.Args[i])
				switch {
				case o != nil && vars[o]:
					gvars[sig.Params().At(i)] = true
				case o != nil && o == tVar:
					gT = sig.Params().At(i)
				}
			}
			if gT == nil || len(gvars) == 0 {
				if oc.undecided == nil {
					oc.undecided = call // the bounds are updated by a call that is not given the probed state and the query time
				}
				return true
			}
			gvars = c19Copies(info, g.Decl.Body, gvars)
			gg := m.graph(g)
			m.classifyWalk(g, gg.g.Blocks[0], -1, gvars, gT, tsFld, lo, hi, ord, oc, depth+1)
		}
		return true
	})
}
