// osmcheck decides the given properties of paulmach/osm by static analysis of
// /repo's current working tree. See /verif/DESIGN.md.
package main

import (
	"encoding/json"
	"flag"
	"fmt"
	"os"
	"os/exec"
	"path/filepath"
	"sort"
	"strconv"
	"strings"
	"sync"
	"time"

	"osmcheck/core"
	"osmcheck/rules"
)

type mutantResult struct {
	Name     string `json:"name"`
	Outcome  string `json:"outcome"` // detected | missed | skipped(anchor absent) | no-compile | error
	Expected string `json:"expected"`
	Reported string `json:"reported,omitempty"`
}

func main() {
	propID := flag.String("prop", "", "property id (C01..C20)")
	tier := flag.String("tier", "quick", "quick|thorough")
	repo := flag.String("repo", "/repo", "repository root")
	verif := flag.String("verif", "/verif", "verif root (evidence, known findings, tables)")
	mutant := flag.String("mutant", "", "internal: run the property's rules on one named mutant and print a JSON result")
	benign := flag.String("benign", "", "internal: run the property's rules on one named behaviour-preserving variant and print a JSON result")
	list := flag.Bool("list", false, "list properties and rules")
	manifest := flag.Bool("manifest", false, "print MANIFEST.json generated from the rule registry and not_applicable.json")
	verbose := flag.Bool("v", false, "print every obligation")
	noEvidence := flag.Bool("no-evidence", false, "do not write the evidence file")
	flag.Parse()

	if env := os.Getenv("VERIF_TIER"); env != "" && !isFlagSet("tier") {
		*tier = env
	}
	seed := 0
	if s := os.Getenv("VERIF_SEED"); s != "" {
		seed, _ = strconv.Atoi(s)
	}
	rules.TablesDir = filepath.Join(*verif, "tables")

	if *manifest {
		printManifest(*verif)
		return
	}
	if *list {
		for _, p := range rules.All() {
			fmt.Printf("%s %s\n", p.ID, p.Title)
			for _, r := range p.Rules {
				fmt.Printf("   %s.%s floor=%d %s\n", p.ID, r.ID, r.Floor, r.Doc)
			}
			fmt.Printf("   mutants: %d\n", len(p.Mutants))
		}
		return
	}
	prop := rules.Get(*propID)
	if prop == nil {
		fmt.Fprintf(os.Stderr, "unknown property %q\n", *propID)
		os.Exit(2)
	}
	root, _ := filepath.Abs(*repo)

	if *mutant != "" {
		runMutant(root, *verif, prop, *mutant, false)
		return
	}
	if *benign != "" {
		runMutant(root, *verif, prop, *benign, true)
		return
	}

	t0 := time.Now()
	findings, err := core.LoadFindings(filepath.Join(*verif, "known_findings.jsonl"))
	if err != nil {
		fmt.Fprintf(os.Stderr, "CHECK-BROKEN: known_findings.jsonl: %v\n", err)
		os.Exit(2)
	}

	var all []core.Obligation
	stats := map[string]int{}
	var configs []string
	for _, bc := range core.Configs(*tier) {
		p, err := core.Load(root, bc, nil)
		if err != nil {
			fmt.Fprintf(os.Stderr, "CHECK-BROKEN: %s: %v\n", bc.Name, err)
			os.Exit(2)
		}
		obls, st := core.RunProperty(p, prop, *tier)
		all = append(all, obls...)
		for k, v := range st {
			if len(configs) == 0 || k == "rules" {
				stats[k] += v
			}
		}
		stats["packages"] = len(p.All)
		configs = append(configs, bc.Name)
	}
	core.SortObls(all)

	// verdicts
	type keyT struct{ k, status string }
	seenFail := map[string]bool{}
	var knownPrinted []string
	violations := 0
	distinct := map[string]bool{}
	nontrivial := map[string]bool{}
	discharged := 0
	for i := range all {
		o := &all[i]
		distinct[o.Key()] = true
		if o.Status == core.Discharged {
			discharged++
			if !o.Trivial {
				nontrivial[o.Key()] = true
			}
			if *verbose {
				fmt.Printf("ok   %s %s %s: %s\n", o.Rule, o.Pos, o.Construct, o.Detail)
			}
			continue
		}
		if seenFail[o.Key()] {
			continue
		}
		seenFail[o.Key()] = true
		if f := core.MatchKnown(findings, prop.ID, o); f != nil {
			line := fmt.Sprintf("KNOWN-FINDING: property=%s %s [%s %s %s]", prop.ID, f.What, o.Rule, o.Construct, o.Pos)
			fmt.Println(line)
			knownPrinted = append(knownPrinted, line)
			continue
		}
		violations++
		tag := "FAIL"
		if o.Status == core.Undecided {
			tag = "UNDECIDED"
		}
		fmt.Printf("%s %s %s [%s] (%s)\n       %s\n", tag, o.Rule, o.Pos, o.Construct, o.Config, o.Detail)
	}

	// sensitivity suite (thorough): never affects the exit status
	var mres []mutantResult
	if *tier == "thorough" && len(prop.Mutants) > 0 {
		mres = runVariants(root, *verif, prop, prop.Mutants, "-mutant")
		det, tried := 0, 0
		for _, m := range mres {
			if m.Outcome != "skipped" {
				tried++
			}
			if m.Outcome == "detected" {
				det++
			}
			if m.Outcome != "detected" && m.Outcome != "skipped" {
				fmt.Fprintf(os.Stderr, "SENSITIVITY: mutant %s of %s: %s (expected %s; got %s)\n", m.Name, prop.ID, m.Outcome, m.Expected, m.Reported)
			}
		}
		fmt.Printf("sensitivity: %d/%d mutants detected\n", det, tried)
	}

	var bres []mutantResult
	if *tier == "thorough" && len(prop.Benign) > 0 {
		bres = runVariants(root, *verif, prop, prop.Benign, "-benign")
		silent, tried := 0, 0
		for _, m := range bres {
			if m.Outcome != "skipped" {
				tried++
			}
			if m.Outcome == "silent" {
				silent++
			}
			if m.Outcome != "silent" && m.Outcome != "skipped" {
				fmt.Fprintf(os.Stderr, "ROBUSTNESS: behaviour-preserving variant %s of %s: %s (%s)\n", m.Name, prop.ID, m.Outcome, m.Reported)
			}
		}
		fmt.Printf("robustness: %d/%d behaviour-preserving variants silent\n", silent, tried)
	}

	wall := time.Since(t0).Seconds()
	evPath := filepath.Join(*verif, "evidence", prop.ID+".json")
	if !*noEvidence {
		if err := writeEvidence(evPath, prop, *tier, seed, all, stats, configs, len(distinct), len(nontrivial), discharged, violations, knownPrinted, mres, bres, wall); err != nil {
			fmt.Fprintf(os.Stderr, "CHECK-BROKEN: evidence: %v\n", err)
			os.Exit(2)
		}
	}
	fmt.Printf("%s %s: %d obligations (%d distinct constructs, %d non-trivial), %d discharged, %d violations, %d known findings, configs=%v, %.1fs\n",
		prop.ID, *tier, len(all), len(distinct), len(nontrivial), discharged, violations, len(knownPrinted), configs, wall)
	if violations > 0 {
		fmt.Printf("VIOLATION property=%s replay=%s\n", prop.ID, evPath)
		os.Exit(1)
	}
}

func isFlagSet(name string) bool {
	set := false
	flag.Visit(func(f *flag.Flag) {
		if f.Name == name {
			set = true
		}
	})
	return set
}

func writeEvidence(path string, prop *core.Property, tier string, seed int, all []core.Obligation, stats map[string]int,
	configs []string, distinct, nontrivial, discharged, violations int, known []string, mres, bres []mutantResult, wall float64) error {
	// samples: every failing obligation plus up to 4 discharged per rule
	var samples []core.Obligation
	perRule := map[string]int{}
	for _, o := range all {
		if o.Status != core.Discharged {
			samples = append(samples, o)
			continue
		}
		if perRule[o.Rule] < 4 {
			perRule[o.Rule]++
			samples = append(samples, o)
		}
	}
	perRuleCount := map[string]int{}
	for _, o := range all {
		perRuleCount[o.Rule]++
	}
	var ruleDocs []map[string]interface{}
	for _, r := range prop.Rules {
		ruleDocs = append(ruleDocs, map[string]interface{}{
			"rule": prop.ID + "." + r.ID, "doc": r.Doc, "floor": r.Floor, "obligations": perRuleCount[prop.ID+"."+r.ID],
		})
	}
	cov := map[string]interface{}{
		"explanation":         prop.Explanation,
		"evaluations":         len(all),
		"distinct_nontrivial": nontrivial,
		"rule": "one evaluation = one obligation (rule instance applied to one construct of /repo's current source, per build configuration); " +
			"distinct = distinct rule+construct keys; non-trivial = discharged by a path/dataflow/table argument rather than by a constant or by absence",
		"samples":         samples,
		"obligations":     len(all),
		"discharged":      discharged,
		"distinct":        distinct,
		"rules":           ruleDocs,
		"analysed":        stats,
		"build_configs":   configs,
		"known_findings":  known,
		"checker_cmd":     "bin/osmcheck -prop " + prop.ID + " -tier " + tier,
		"trusted_base":    prop.Assumptions,
		"exhaustive":      prop.Exhaustive,
		"all_obligations": all,
	}
	if mres != nil {
		det, tried := 0, 0
		for _, m := range mres {
			if m.Outcome != "skipped" {
				tried++
			}
			if m.Outcome == "detected" {
				det++
			}
		}
		cov["sensitivity"] = map[string]interface{}{"mutants_tried": tried, "mutants_detected": det, "results": mres}
	}
	if bres != nil {
		silent, tried := 0, 0
		for _, m := range bres {
			if m.Outcome != "skipped" {
				tried++
			}
			if m.Outcome == "silent" {
				silent++
			}
		}
		cov["robustness"] = map[string]interface{}{"variants_tried": tried, "variants_silent": silent, "results": bres}
	}
	ev := map[string]interface{}{
		"property_id": prop.ID,
		"tier":        tier,
		"seed":        seed,
		"level":       "other",
		"coverage":    cov,
		"assumptions": prop.Assumptions,
		"wall_s":      wall,
		"violations":  violations,
	}
	b, err := json.MarshalIndent(ev, "", " ")
	if err != nil {
		return err
	}
	if err := os.MkdirAll(filepath.Dir(path), 0o755); err != nil {
		return err
	}
	return os.WriteFile(path, b, 0o644)
}

// runMutant evaluates one mutant in this process and prints a JSON result.
func runMutant(root, verif string, prop *core.Property, name string, benign bool) {
	findings, _ := core.LoadFindings(filepath.Join(verif, "known_findings.jsonl"))
	var m *core.Mutant
	list := prop.Mutants
	if benign {
		list = prop.Benign
	}
	for i := range list {
		if list[i].Name == name {
			m = &list[i]
		}
	}
	res := mutantResult{Name: name}
	emit := func() {
		b, _ := json.Marshal(res)
		fmt.Println(string(b))
	}
	if m == nil {
		res.Outcome = "error"
		res.Reported = "no such mutant"
		emit()
		return
	}
	res.Expected = prop.ID + "." + m.ExpectRule + " ~" + m.ExpectConstruct
	ov, ok, err := m.Overlay(root)
	if err != nil {
		res.Outcome = "error"
		res.Reported = err.Error()
		emit()
		return
	}
	if !ok {
		res.Outcome = "skipped"
		res.Reported = "anchor text absent in the current tree"
		emit()
		return
	}
	p, err := core.Load(root, core.Configs("quick")[0], ov)
	if err != nil {
		res.Outcome = "no-compile"
		res.Reported = err.Error()
		emit()
		return
	}
	obls, _ := core.RunProperty(p, prop, "quick")
	var rep []string
	hit := false
	for _, o := range obls {
		if o.Status == core.Discharged {
			continue
		}
		if benign && core.MatchKnown(findings, prop.ID, &o) != nil {
			continue // a known finding of the unchanged tree is not an alarm of the variant
		}
		rep = append(rep, o.Rule+" "+o.Construct)
		if (m.ExpectRule == "" || o.Rule == prop.ID+"."+m.ExpectRule) && strings.Contains(o.Construct, m.ExpectConstruct) {
			hit = true
		}
	}
	sort.Strings(rep)
	if len(rep) > 6 {
		rep = append(rep[:6], fmt.Sprintf("... %d more", len(rep)-6))
	}
	res.Reported = strings.Join(rep, "; ")
	if benign {
		res.Expected = "no report"
		if len(rep) == 0 {
			res.Outcome = "silent"
		} else {
			res.Outcome = "false-alarm"
		}
		emit()
		return
	}
	if hit {
		res.Outcome = "detected"
	} else {
		res.Outcome = "missed"
	}
	emit()
}

// runMutants evaluates every mutant in sub-processes, four at a time.
func runVariants(root, verif string, prop *core.Property, list []core.Mutant, flagName string) []mutantResult {
	res := make([]mutantResult, len(list))
	sem := make(chan struct{}, 4)
	var wg sync.WaitGroup
	self, _ := os.Executable()
	for i := range list {
		wg.Add(1)
		go func(i int) {
			defer wg.Done()
			sem <- struct{}{}
			defer func() { <-sem }()
			cmd := exec.Command(self, "-prop", prop.ID, "-repo", root, "-verif", verif, flagName, list[i].Name)
			cmd.Stderr = nil
			out, err := cmd.Output()
			r := mutantResult{Name: list[i].Name, Outcome: "error"}
			lines := strings.Split(strings.TrimSpace(string(out)), "\n")
			if jerr := json.Unmarshal([]byte(lines[len(lines)-1]), &r); jerr != nil {
				r.Reported = fmt.Sprintf("%v %v", err, jerr)
			}
			res[i] = r
		}(i)
	}
	wg.Wait()
	return res
}

func printManifest(verif string) {
	type lvl struct {
		Category  string `json:"category"`
		Text      string `json:"text"`
		DesignRef string `json:"design_ref,omitempty"`
	}
	type chk struct {
		PropertyID string `json:"property_id"`
		Quick      string `json:"quick_cmd"`
		Thorough   string `json:"thorough_cmd"`
		Evidence   string `json:"evidence_file"`
		Replay     string `json:"replay_cmd_template"`
		Engine     string `json:"engine"`
		Level      lvl    `json:"level_claimed"`
		Note       string `json:"level_note"`
		Technique  string `json:"technique"`
	}
	var checks []chk
	var served []string
	for _, p := range rules.All() {
		served = append(served, p.ID)
		checks = append(checks, chk{
			PropertyID: p.ID,
			Quick:      "bin/osmcheck -prop " + p.ID + " -tier quick",
			Thorough:   "bin/osmcheck -prop " + p.ID + " -tier thorough",
			Evidence:   "evidence/" + p.ID + ".json",
			Replay:     "bin/osmcheck -prop " + p.ID + " -tier quick -v  # {path} is the evidence file listing every failing obligation",
			Engine:     "osmcheck",
			Level:      lvl{Category: "other", Text: p.LevelText, DesignRef: p.DesignRef},
			Note:       p.LevelNote,
			Technique:  "static analysis: " + p.Technique,
		})
	}
	var na []map[string]string
	if b, err := os.ReadFile(filepath.Join(verif, "not_applicable.json")); err == nil {
		json.Unmarshal(b, &na)
	}
	claimed := map[string]bool{}
	for _, s := range served {
		claimed[s] = true
	}
	na2 := []map[string]string{}
	for _, e := range na {
		if !claimed[e["property_id"]] {
			na2 = append(na2, e)
		}
	}
	m := map[string]interface{}{
		"version":   1,
		"setup_cmd": "cd /verif/checker && GOFLAGS=-mod=mod GOPROXY=off GOSUMDB=off GOTOOLCHAIN=local GOWORK=off go build -o /verif/bin/osmcheck .",
		"hooks": map[string]interface{}{
			"guard":            "verif",
			"enable":           "no hooks: the checks read /repo's source (go/packages) and never build or run it; the tag `verif` is reserved and unused",
			"baseline_off_cmd": "cd /repo && go test -vet=off -count=1 ./...",
			"source_commits":   []string{},
			"add_only":         true,
		},
		"engines": []map[string]interface{}{{
			"name": "osmcheck", "path": "checker/", "serves_properties": served,
			"kind_free_text": "repository-specific static analyser (go/packages + go/types + go/cfg + go/ssa + VTA call graph, x/tools v0.29.0); one rule file per property under checker/rules; obligations keyed by rule+construct with instance floors; external spec tables under tables/",
		}},
		"checks":         checks,
		"not_applicable": na2,
		"notes":          "All checks are static: they load and type-check /repo's working tree on every run and never execute it. Exit 0 = every obligation discharged (or listed in known_findings.jsonl as known, printed as KNOWN-FINDING); exit 1 + VIOLATION line = a violated or undecided obligation; exit 2 = the check itself is broken (tree does not type-check, loader failure).",
	}
	b, _ := json.MarshalIndent(m, "", " ")
	fmt.Println(string(b))
}
