# generates rules/c17_benign6.go (G10: width of ids on their way into features)
import json
CONV="osmgeojson/convert.go"
src=open('/tmp/rob-C17/repo/osmgeojson/convert.go').read()
V=[];M=[]
def add(name,find,repl,doc=""):
    assert find in src, name
    V.append((name,CONV,find,repl,0,doc))
def variant(name):
    for v in V:
        if v[0]==name: return v
    raise KeyError(name)
def mut(name,base,old,new,rule,construct,doc):
    (_,file,find,repl,nth,_)=variant(base)
    assert old in repl,name
    M.append((name,file,find,repl.replace(old,new,1),nth,rule,construct,doc))
def mut0(name,find,repl,rule,construct,doc):
    assert find in src,name
    M.append((name,CONV,find,repl,0,rule,construct,doc))

add("b-g10-node-id-stored-as-int64","""	f.Properties["id"] = int(n.ID)
""","""	f.Properties["id"] = int64(n.ID)
""",doc="the repaired spelling (not behaviour-preserving: it changes the dynamic type of the property; listed because the rule must be silent on it)")
add("b-g10-way-id-stored-as-its-own-type","""	f.Properties["id"] = int(w.ID)
""","""	f.Properties["id"] = w.ID
""",doc="the id stored as its own 64-bit type (repair; the rule must be silent)")
NODE="""func (ctx *context) nodeToFeature(n *osm.Node) *geojson.Feature {
	// our definition of empty, ill defined
	if n.Lon == 0 && n.Lat == 0 && n.Version == 0 {
		return nil
	}

	f := geojson.NewFeature(orb.Point{n.Lon, n.Lat})

	if !ctx.noID {
		f.ID = fmt.Sprintf("node/%d", n.ID)
	}
	f.Properties["id"] = int(n.ID)
	f.Properties["type"] = "node"
"""
add("b-g10-id-and-type-through-helper",NODE,
"""// identify stores the properties that say which element the feature is made from.
func identify(props geojson.Properties, kind string, ref int64) {
	props["id"] = int(ref)
	props["type"] = kind
}

"""+NODE.replace("""	f.Properties["id"] = int(n.ID)
	f.Properties["type"] = "node"
""","""	identify(f.Properties, "node", int64(n.ID))
"""),doc="genuine refactoring: the id/type stores in a helper taking the ref as int64; the known narrowing keeps its construct (followed back through the parameter to osm.NodeID)")
mut("r-g10-helper-stores-float32","b-g10-id-and-type-through-helper",
"	props[\"id\"] = int(ref)\n","	props[\"id\"] = float32(ref)\n","G10","id-width@properties[\"id\"] osm.NodeID","placeholder")
M.pop()
mut("r-g10-helper-also-narrows-for-the-id-string","b-g10-id-and-type-through-helper",
"""	props["id"] = int(ref)
	props["type"] = kind
""","""	props["id"] = int(ref)
	props["type"] = kind
	props["ref"] = kind + "/" + fmt.Sprint(int32(ref))
""","G10","id-width@properties[\"ref\"] osm.NodeID","the helper adds a property built from the ref narrowed to int32")
mut0("g10-member-ref-through-int32","""		way := ctx.wayMap[osm.WayID(m.Ref)]
""","""		way := ctx.wayMap[osm.WayID(int32(m.Ref))]
""","G10","osm.Member.Ref","the member ref is narrowed to int32 before the way lookup: members above 2^31-1 resolve to the wrong way or none")
mut0("g10-feature-id-from-int32","""		f.ID = fmt.Sprintf("way/%d", w.ID)
""","""		f.ID = fmt.Sprintf("way/%d", int32(w.ID))
""","G10","id-width@Feature.ID osm.WayID","the id string of the feature is made from the id narrowed to int32")

def q(t):
    return json.dumps(t) if "`" in t else "`"+t+"`"
out=["package rules\n","import \"osmcheck/core\"\n",
"// c17Benign6: spellings the id-width rule (G10) must be silent on: the repaired stores (int64 / the id's own type; these two\n// change the dynamic type of the property and are listed only because the rule must not report them) and a genuine\n// refactoring that keeps the known narrowing behind a helper parameter (it must keep the known constructs).\nvar c17Benign6 = []core.Mutant{"]
for (name,file,find,repl,nth,doc) in V:
    out.append("\t// %s\n\t{Name: %s, File: %s, Nth: %d,\n\t\tFind: %s,\n\t\tReplace: %s},"%(doc,json.dumps(name),json.dumps(file),nth,q(find),q(repl)))
out.append("}\n")
out.append("// c17Mutants6: narrowing conversions beyond the four known ones.\nvar c17Mutants6 = []core.Mutant{")
for (name,file,find,repl,nth,rule,construct,doc) in M:
    out.append("\t// %s\n\t{Name: %s, File: %s, Nth: %d, ExpectRule: %s, ExpectConstruct: %s,\n\t\tFind: %s,\n\t\tReplace: %s},"%(doc,json.dumps(name),json.dumps(file),nth,json.dumps(rule),json.dumps(construct),q(find),q(repl)))
out.append("}\n")
open('/tmp/rob-C17/checker/rules/c17_benign6.go','w').write("\n".join(out))
print(len(V),"variants",len(M),"mutants")
