# Round-7 variants of annotate/order.go (executed by c14_variants_gen.py 7; B = behaviour-preserving, M = defect).

WALKFN = ORIG[ORIG.index('func (o *ChildFirstOrdering) walk('):]
LOOPS = WALKFN[WALKFN.index('\tfor _, r := range relations {'):WALKFN.index('\tif o.ctx.Err() != nil {')]
DEFERS = '''		defer o.wg.Done()
		defer close(o.out)
'''
CLOSE_BODY = '''	o.done()
	o.wg.Wait()
}
'''
NEXT_SELECT = ORIG[ORIG.index('\tselect {\n\tcase id := <-o.out:'):ORIG.index('// RelationID is the id found')]
PRODUCER_LOOP = '''		for i, id := range ids {
			err := o.walk(id, path)
			if err != nil {
				o.err = err
				return
			}

			o.CompletedIndex = i
		}
'''
TAIL = WALKFN[WALKFN.index('\tif o.ctx.Err() != nil {'):]


# ---- completion signalled by closing a channel instead of a wait group -------------------------------------------
def by_channel(defers='''		defer close(o.finished)
		defer close(o.out)
''', close_body='''	o.done()
	<-o.finished
}
''', made='\t\tfinished: make(chan struct{}),\n'):
    return [('\t"sync"\n', ''),
            ('\twg      sync.WaitGroup\n', '\tfinished chan struct{}\n'),
            ('\t\tout:     make(chan osm.RelationID),\n', '\t\tout:     make(chan osm.RelationID),\n' + made),
            ('\to.wg.Add(1)\n', ''),
            (DEFERS, defers),
            (CLOSE_BODY, close_body)]


B("completion-by-channel-close", *by_channel())
B("completion-channel-closed-in-one-deferred-closure", *by_channel(defers='''		defer func() {
			close(o.out)
			close(o.finished)
		}()
'''))
M("completion-signalled-before-out-closed", "W4", "completion-last@producer", *by_channel(defers='''		defer close(o.out)
		defer close(o.finished)
'''))
M("completion-closure-signals-first", "W4", "completion-last@producer", *by_channel(defers='''		defer func() {
			close(o.finished)
			close(o.out)
		}()
'''))
M("wait-group-done-before-out-closed", "W4", "completion-last@producer",
  (DEFERS, '''		defer close(o.out)
		defer o.wg.Done()
'''))
M("close-does-not-wait-for-channel", "W4", "close-order@Close", *by_channel(close_body='''	o.done()
}
'''))
M("close-polls-completion-channel", "W4", "close-order@Close", *by_channel(close_body='''	o.done()
	select {
	case <-o.finished:
	default:
	}
}
'''))
M("close-waits-on-channel-before-cancel", "W4", "close-order@Close", *by_channel(close_body='''	<-o.finished
	o.done()
}
'''))
M("completion-channel-never-made", "W4", "wg-add@NewChildFirstOrdering", *by_channel(made=''))
M("completion-channel-not-closed", "W4", "goroutine-defers@producer", *by_channel(defers='''		defer close(o.out)
'''))


# ---- callback iterator with stop-bool, flag and captured result variable -----------------------------------------
def callback(stop_on_cut='return false', after='''	switch {
	case cycle:
		return nil
	case werr != nil:
		return werr
	}

''', honour='if m.Type == osm.TypeRelation && !visit(osm.RelationID(m.Ref)) {\n\t\t\t\treturn\n\t\t\t}'):
    return [(LOOPS, '''	cycle := false
	var werr error
	forEachRelationMember(relations, func(mid osm.RelationID) bool {
		for _, pid := range path {
			if pid == mid {
				cycle = true
				%s
			}
		}

		werr = o.walk(mid, append(path, mid))
		return werr == nil
	})

%s''' % (stop_on_cut, after)),
            (WALKFN[-40:], WALKFN[-40:] + '''
// forEachRelationMember calls visit for every relation member of every version until visit returns false.
func forEachRelationMember(versions osm.Relations, visit func(osm.RelationID) bool) {
	for _, v := range versions {
		for _, m := range v.Members {
			%s
		}
	}
}
''' % honour)]


B("callback-iterator-with-flag-and-captured-error", *callback())
M("callback-iterator-ignores-stop", "W3", "cycle-scan@dfs", *callback(honour='if m.Type == osm.TypeRelation {\n\t\t\t\tvisit(osm.RelationID(m.Ref))\n\t\t\t}'))
M("callback-cycle-flag-not-checked", "W3", "cycle-scan@dfs", *callback(after='''	_ = cycle
	if werr != nil {
		return werr
	}

'''))
M("callback-captured-error-not-returned", "W3", "rec-error@dfs", *callback(after='''	if cycle {
		return nil
	}

'''))
M("callback-cut-does-not-stop", "W3", "cycle-scan@dfs", *callback(stop_on_cut='return true'))

# ---- single exit with result variables, labelled break ------------------------------------------------------------
B("single-exit-with-result-variables",
  (LOOPS, '''	var werr error
	cut := false
versions:
	for _, r := range relations {
		for _, m := range r.Members {
			if m.Type != osm.TypeRelation {
				continue
			}

			mid := osm.RelationID(m.Ref)
			for _, pid := range path {
				if pid == mid {
					cut = true
					break versions
				}
			}

			if werr = o.walk(mid, append(path, mid)); werr != nil {
				break versions
			}
		}
	}

	if cut || werr != nil {
		return werr
	}

'''),
  (PRODUCER_LOOP, '''		for i := 0; i < len(ids); i++ {
			if err := o.walk(ids[i], path); err != nil {
				o.err = err
				break
			}

			o.CompletedIndex = i
		}
'''),
  (NEXT_SELECT, '''	more := false
	select {
	case <-o.ctx.Done():
	case id := <-o.out:
		if id != 0 {
			o.id = id
			more = true
		}
	}

	return more
}

'''))
B("next-with-outer-variable-assigned-by-the-case",
  (NEXT_SELECT, '''	var id osm.RelationID
	select {
	case <-o.ctx.Done():
	case id = <-o.out:
	}

	if id == 0 {
		return false
	}

	o.id = id
	return true
}

'''))
M("next-outer-variable-not-tested", "W4", "recv-select@Next",
  (NEXT_SELECT, '''	var id osm.RelationID
	select {
	case <-o.ctx.Done():
		return false
	case id = <-o.out:
	}

	o.id = id
	return true
}

'''))
M("single-exit-break-leaves-inner-loop-only", "W3", "cycle-scan@dfs",
  (LOOPS, '''	cut := false
	for _, r := range relations {
		for _, m := range r.Members {
			if m.Type != osm.TypeRelation {
				continue
			}

			mid := osm.RelationID(m.Ref)
			for _, pid := range path {
				if pid == mid {
					cut = true
					break
				}
			}

			if cut {
				break
			}

			if err := o.walk(mid, append(path, mid)); err != nil {
				return err
			}
		}
	}

	if cut {
		return nil
	}

'''))
# the publish step as a helper returning error; the defect marks visited before the cancellation test
PUBLISH = '''	return o.publish(id)
}

func (o *ChildFirstOrdering) publish(id osm.RelationID) error {
%s	select {
	case <-o.ctx.Done():
		return o.ctx.Err()
	case o.out <- id:
		return nil
	}
}
'''
B("publish-helper-returning-error", (TAIL, PUBLISH % '''	if err := o.ctx.Err(); err != nil {
		return err
	}

	o.visited[id] = struct{}{}
'''))
M("publish-marks-visited-before-cancellation-test", "W2", "visited-only-when-emitting@dfs", (TAIL, PUBLISH % '''	o.visited[id] = struct{}{}
	if err := o.ctx.Err(); err != nil {
		return err
	}

'''))

# ---- flags turned into a small enum --------------------------------------------------------------------------------
def enum_outcome(on_cut='return closesCycle, nil', dispatch='''	switch outcome {
	case closesCycle:
		return nil
	case failed:
		return err
	}
'''):
    return [(LOOPS, '''	outcome, err := o.members(relations, path)
%s
''' % dispatch),
            (WALKFN[-40:], WALKFN[-40:] + '''
// memberWalk says how the walk of a relation's members ended.
type memberWalk int

const (
	completed memberWalk = iota
	closesCycle
	failed
)

func (o *ChildFirstOrdering) members(relations osm.Relations, path []osm.RelationID) (memberWalk, error) {
	for _, r := range relations {
		for _, m := range r.Members {
			if m.Type != osm.TypeRelation {
				continue
			}

			mid := osm.RelationID(m.Ref)
			for _, pid := range path {
				if pid == mid {
					%s
				}
			}

			if err := o.walk(mid, append(path, mid)); err != nil {
				return failed, err
			}
		}
	}

	return completed, nil
}
''' % on_cut)]


B("flags-as-small-enum", *enum_outcome())
M("enum-cut-reported-as-completed", "W3", "cycle-scan@dfs", *enum_outcome(on_cut='return completed, nil'))
M("enum-failed-case-missing", "W3", "rec-error@dfs", *enum_outcome(dispatch='''	_ = err
	if outcome == closesCycle {
		return nil
	}
'''))

# ---- the cancellation test spelled as a select on Done -----------------------------------------------------------
B("cancellation-test-as-select-with-default",
  ('''	if o.ctx.Err() != nil {
		return o.ctx.Err()
	}

	o.visited[id] = struct{}{}
''', '''	select {
	case <-o.ctx.Done():
		return o.ctx.Err()
	default:
	}

	o.visited[id] = struct{}{}
'''))

# ---- the goroutine closure becomes a method on a type holding the captured variables ------------------------------
GOROUTINE = ORIG[ORIG.index('\tgo func() {\n'):ORIG.index('\treturn o\n}')]


def captured_struct(start='go (&producer{ord: o, requested: ids}).run()', defers='''	defer p.ord.wg.Done()
	defer close(p.ord.out)
'''):
    return [(GOROUTINE, '\t' + start + '\n\n'),
            (CLOSE_BODY, CLOSE_BODY + '''
// producer carries what the goroutine started by NewChildFirstOrdering needs.
type producer struct {
	ord       *ChildFirstOrdering
	requested []osm.RelationID
}

func (p *producer) run() {
%s
	path := make([]osm.RelationID, 0, 100)
	for i, id := range p.requested {
		err := p.ord.walk(id, path)
		if err != nil {
			p.ord.err = err
			return
		}

		p.ord.CompletedIndex = i
	}
}
''' % defers)]


B("producer-as-method-on-captured-variables-struct", *captured_struct())
B("producer-struct-held-in-a-local", *captured_struct(start='p := producer{ord: o, requested: ids}\n\tgo p.run()'))
M("captured-struct-producer-skips-first-id", "W2", "producer-loop@producer",
  *[(a, b.replace('range p.requested {', 'range p.requested[1:] {')) for a, b in captured_struct()])
M("captured-struct-producer-forgets-close", "W4", "goroutine-defers@producer", *captured_struct(defers='''	defer p.ord.wg.Done()
'''))
