#!/usr/bin/env python3
# Generates c14_variants.go (next to this script; run: python3 c14_variants_gen.py): behaviour-preserving variants (Benign) and additional defects (Mutants) of
# annotate/order.go as single contiguous Find/Replace overlay edits, computed from multi-site edits of the pinned file.
import json, os, sys

ORIG = open('/repo/annotate/order.go').read()

def span(name, edits):
    s = ORIG
    for a, b in edits:
        if s.count(a) != 1:
            sys.exit("variant %s: anchor occurs %d times: %r" % (name, s.count(a), a[:60]))
        s = s.replace(a, b)
    # common prefix / suffix, extended to whole lines
    i = 0
    while i < len(ORIG) and i < len(s) and ORIG[i] == s[i]:
        i += 1
    i = ORIG.rfind('\n', 0, i) + 1
    j = 0
    while j < len(ORIG) - i and j < len(s) - i and ORIG[len(ORIG) - 1 - j] == s[len(s) - 1 - j]:
        j += 1
    # extend suffix cut to a line end
    k = len(ORIG) - j
    nl = ORIG.find('\n', k)
    k = len(ORIG) if nl < 0 else nl + 1
    tail = len(ORIG) - k
    find, repl = ORIG[i:k], s[i:len(s) - tail]
    while (find == '' or ORIG.count(find) != 1) and i > 0:
        i = ORIG.rfind('\n', 0, i - 1) + 1
        find, repl = ORIG[i:k], s[i:len(s) - tail]
    assert ORIG.count(find) == 1, name
    assert ORIG.replace(find, repl) == s, name
    return find, repl

# ---- fragments of the pinned file -------------------------------------------------------------------------------
VISITED_TEST = '''	if _, ok := o.visited[id]; ok {
		return nil
	}
'''
HISTORY = '''	relations, err := o.ds.RelationHistory(o.ctx, id)
	if o.ds.NotFound(err) {
		return nil
	}

	if err != nil {
		return err
	}
'''
SCAN = '''			for _, pid := range path {
				if pid == mid {
					// circular relations are allowed,
					// source: https://github.com/openstreetmap/openstreetmap-website/issues/1465#issuecomment-282323187

					// since this relation is already being worked through higher
					// up the stack, we can just return here.
					return nil
				}
			}
'''
REC = '''			err := o.walk(mid, append(path, mid))
			if err != nil {
				return err
			}
'''
LOOPS = '''	for _, r := range relations {
		for _, m := range r.Members {
			if m.Type != osm.TypeRelation {
				continue
			}

			mid := osm.RelationID(m.Ref)
''' + SCAN + '\n' + REC + '''		}
	}
'''
TAIL = '''	if o.ctx.Err() != nil {
		return o.ctx.Err()
	}

	o.visited[id] = struct{}{}
	select {
	case o.out <- id:
	case <-o.ctx.Done():
		return o.ctx.Err()
	}

	return nil
}
'''
GOROUTINE = '''	go func() {
		defer o.wg.Done()
		defer close(o.out)

		path := make([]osm.RelationID, 0, 100)
		for i, id := range ids {
			err := o.walk(id, path)
			if err != nil {
				o.err = err
				return
			}

			o.CompletedIndex = i
		}
	}()
'''
NEXT_SELECT = '''	select {
	case id := <-o.out:
		if id == 0 {
			return false
		}
		o.id = id
		return true
	case <-o.ctx.Done():
		return false
	}
}
'''
CLOSE = '''func (o *ChildFirstOrdering) Close() {
	o.done()
	o.wg.Wait()
}
'''
for frag in (VISITED_TEST, HISTORY, SCAN, REC, LOOPS, TAIL, GOROUTINE, NEXT_SELECT, CLOSE):
    assert ORIG.count(frag) == 1, frag

benign = []
mutants = []

def B(name, *edits):
    benign.append((name, span(name, list(edits))))

def M(name, rule, construct, *edits):
    mutants.append((name, rule, construct, span(name, list(edits))))

# ---- behaviour-preserving variants -----------------------------------------------------------------------------

# class 1 (extract function): the emission becomes a plain function taking the ordering as a parameter, the cycle scan a
# generic predicate; class 2: if-init form of the error tests
B("extract-publish-and-ancestor-helpers",
  (SCAN, '''			if isAncestor(mid, path) {
				return nil
			}
'''),
  (REC, '''			if err := o.walk(mid, append(path, mid)); err != nil {
				return err
			}
'''),
  (TAIL, '''	return publish(o, id)
}

func publish(ord *ChildFirstOrdering, rid osm.RelationID) error {
	if cerr := ord.ctx.Err(); cerr != nil {
		return cerr
	}

	ord.visited[rid] = struct{}{}
	select {
	case ord.out <- rid:
		return nil
	case <-ord.ctx.Done():
	}

	return ord.ctx.Err()
}

func isAncestor(rid osm.RelationID, ancestors []osm.RelationID) bool {
	found := false
	for _, a := range ancestors {
		if a == rid {
			found = true
			break
		}
	}
	return found
}
'''))

# class 1: the member loops move into a helper with a (cut, error) result; the producer becomes a method
B("extract-member-loops-and-producer-method",
  (GOROUTINE, '''	go o.produce(ids)
'''),
  (LOOPS, '''	cut, err := o.walkMembers(relations, path)
	if err != nil || cut {
		return err
	}
'''),
  (TAIL, TAIL + '''
func (o *ChildFirstOrdering) produce(requested []osm.RelationID) {
	defer o.wg.Done()
	defer close(o.out)

	var stack []osm.RelationID
	for n := range requested {
		if err := o.walk(requested[n], stack); err != nil {
			o.err = err
			return
		}

		o.CompletedIndex = n
	}
}

// walkMembers reports cut=true when a member is one of the ancestors.
func (o *ChildFirstOrdering) walkMembers(versions osm.Relations, path []osm.RelationID) (cut bool, err error) {
	for _, version := range versions {
		for _, member := range version.Members {
			if member.Type != osm.TypeRelation {
				continue
			}

			child := osm.RelationID(member.Ref)
			for _, pid := range path {
				if pid == child {
					return true, nil
				}
			}

			if err := o.walk(child, append(path, child)); err != nil {
				return false, err
			}
		}
	}

	return false, nil
}
'''))

# class 2 (if <-> switch): tagged switch on the member type, tagless switch for the error classification and in Next
B("switch-forms",
  (HISTORY, '''	relations, err := o.ds.RelationHistory(o.ctx, id)
	switch {
	case o.ds.NotFound(err):
		return nil
	case err != nil:
		return err
	}
'''),
  ('''			if m.Type != osm.TypeRelation {
				continue
			}

			mid := osm.RelationID(m.Ref)
''' + SCAN + '\n' + REC, '''			switch m.Type {
			case osm.TypeNode, osm.TypeWay:
			case osm.TypeRelation:
				mid := osm.RelationID(m.Ref)
				for _, pid := range path {
					if pid == mid {
						return nil
					}
				}

				err := o.walk(mid, append(path, mid))
				if err != nil {
					return err
				}
			}
'''),
  (NEXT_SELECT, '''	select {
	case id := <-o.out:
		switch id {
		case 0:
			return false
		default:
			o.id = id
			return true
		}
	case <-o.ctx.Done():
		return false
	}
}
'''))

# class 2 (inverted branches, early return <-> nesting)
B("inverted-branches-and-nesting",
  (VISITED_TEST + '\n' + HISTORY + '\n' + LOOPS + '\n' + TAIL, '''	if _, seen := o.visited[id]; !seen {
		relations, err := o.ds.RelationHistory(o.ctx, id)
		if !o.ds.NotFound(err) {
			if err == nil {
				for _, r := range relations {
					for _, m := range r.Members {
						if m.Type == osm.TypeRelation {
							mid := osm.RelationID(m.Ref)
							for _, pid := range path {
								if pid != mid {
									continue
								}
								return nil
							}

							if err := o.walk(mid, append(path, mid)); err == nil {
								continue
							} else {
								return err
							}
						}
					}
				}

				if o.ctx.Err() == nil {
					o.visited[id] = struct{}{}
					select {
					case <-o.ctx.Done():
						return o.ctx.Err()
					case o.out <- id:
					}
					return nil
				}
				return o.ctx.Err()
			}
			return err
		}
	}

	return nil
}
'''))

# class 2 (merged / split guards)
B("merged-and-split-guards",
  ('''	if o.err != nil || o.ctx.Err() != nil {
		return false
	}
''', '''	if o.err != nil {
		return false
	}
	if o.ctx.Err() != nil {
		return false
	}
'''),
  ('''			if m.Type != osm.TypeRelation {
				continue
			}

			mid := osm.RelationID(m.Ref)
''', '''			mid := osm.RelationID(m.Ref)
			if m.Type == osm.TypeNode || m.Type == osm.TypeWay || m.Type != osm.TypeRelation {
				continue
			}
'''),
  ('''			err := o.walk(id, path)
			if err != nil {
				o.err = err
				return
			}
''', '''			err := o.walk(id, path)
			if failed := err != nil; failed {
				o.err = err
				return
			}
'''))

# class 3 (pointer / reference aliases, value read once into a local)
B("aliases",
  ('''		for _, m := range r.Members {
			if m.Type != osm.TypeRelation {
				continue
			}

			mid := osm.RelationID(m.Ref)
''', '''		members := r.Members
		for j := range members {
			m := &members[j]
			if m.Type != osm.TypeRelation {
				continue
			}

			ref := m.Ref
			mid := osm.RelationID(ref)
'''),
  ('''	o.visited[id] = struct{}{}
	select {
	case o.out <- id:
	case <-o.ctx.Done():
		return o.ctx.Err()
	}
''', '''	seen, out, ctx := o.visited, o.out, o.ctx
	seen[id] = struct{}{}
	done := ctx.Done()
	select {
	case out <- id:
	case <-done:
		return ctx.Err()
	}
'''),
  (CLOSE, '''func (o *ChildFirstOrdering) Close() {
	cancel, wg := o.done, &o.wg
	cancel()
	wg.Wait()
}
'''))

# class 2/3 (if-init <-> statement form, comma-ok read into a local, reused error variable)
B("if-init-and-statement-forms",
  (VISITED_TEST, '''	_, ok := o.visited[id]
	if ok {
		return nil
	}
'''),
  (HISTORY, '''	relations, err := o.ds.RelationHistory(o.ctx, id)
	if nf := o.ds.NotFound(err); nf {
		return nil
	}

	if err != nil {
		return err
	}
'''),
  (REC, '''			err = o.walk(mid, append(path, mid))
			if err != nil {
				return err
			}
'''),
  ('''			err := o.walk(id, path)
			if err != nil {
				o.err = err
				return
			}
''', '''			if err := o.walk(id, path); err != nil {
				o.err = err
				return
			}
'''))

# class 3 (renamed locals and parameters, named constants)
B("renamed-locals-and-named-constants",
  ('''type ChildFirstOrdering struct {''', '''const (
	pathCapacity   = 100
	closedSentinel = osm.RelationID(0)
	relationMember = osm.TypeRelation
)

type ChildFirstOrdering struct {'''),
  ('make([]osm.RelationID, 0, 100)', 'make([]osm.RelationID, 0, pathCapacity)'),
  ('''		if id == 0 {
			return false
		}
		o.id = id
''', '''		if id == closedSentinel {
			return false
		}
		o.id = id
'''),
  ('func (o *ChildFirstOrdering) walk(id osm.RelationID, path []osm.RelationID) error {\n' + VISITED_TEST + '\n' + HISTORY + '\n' + LOOPS + '\n' + TAIL,
   '''func (ord *ChildFirstOrdering) walk(rid osm.RelationID, ancestors []osm.RelationID) error {
	if _, done := ord.visited[rid]; done {
		return nil
	}

	history, herr := ord.ds.RelationHistory(ord.ctx, rid)
	if ord.ds.NotFound(herr) {
		return nil
	}

	if herr != nil {
		return herr
	}

	for _, version := range history {
		for _, member := range version.Members {
			if member.Type != relationMember {
				continue
			}

			child := osm.RelationID(member.Ref)
			for _, ancestor := range ancestors {
				if ancestor == child {
					return nil
				}
			}

			werr := ord.walk(child, append(ancestors, child))
			if werr != nil {
				return werr
			}
		}
	}

	if ord.ctx.Err() != nil {
		return ord.ctx.Err()
	}

	ord.visited[rid] = struct{}{}
	select {
	case ord.out <- rid:
	case <-ord.ctx.Done():
		return ord.ctx.Err()
	}

	return nil
}
'''))

# class 4 (independent statements reordered)
B("reordered-independent-statements",
  ('''	ctx, done := context.WithCancel(ctx)
	o := &ChildFirstOrdering{
		ctx:     ctx,
		done:    done,
		ds:      ds,
		visited: make(map[osm.RelationID]struct{}, len(ids)),
		out:     make(chan osm.RelationID),
	}

	o.wg.Add(1)
''', '''	o := &ChildFirstOrdering{
		out:     make(chan osm.RelationID),
		visited: make(map[osm.RelationID]struct{}, len(ids)),
		ds:      ds,
	}
	o.wg.Add(1)
	o.ctx, o.done = context.WithCancel(ctx)

'''),
  ('''		defer o.wg.Done()
		defer close(o.out)

		path := make([]osm.RelationID, 0, 100)
''', '''		path := make([]osm.RelationID, 0, 100)
		defer o.wg.Done()
		defer close(o.out)

'''),
  ('''			if m.Type != osm.TypeRelation {
				continue
			}

			mid := osm.RelationID(m.Ref)
''', '''			mid := osm.RelationID(m.Ref)
			if m.Type != osm.TypeRelation {
				continue
			}

'''),
  (      '''	select {
	case id := <-o.out:
		if id == 0 {
			return false
		}
		o.id = id
		return true
	case <-o.ctx.Done():
		return false
	}
}
''', '''	select {
	case <-o.ctx.Done():
		return false
	case id := <-o.out:
		if id == 0 {
			return false
		}
		o.id = id
		return true
	}
}
'''))

# class 5 (moved function) + class 1 (inline is not applicable: nothing to inline; instead Next/Close delegate to helpers)
B("moved-walk-and-delegating-next-close",
  ('\nfunc (o *ChildFirstOrdering) walk(id osm.RelationID, path []osm.RelationID) error {\n' + VISITED_TEST + '\n' + HISTORY + '\n' + LOOPS + '\n' + TAIL, ''),
  ('''// Err returns a non-nil error if something went wrong with search,''',
   'func (o *ChildFirstOrdering) walk(id osm.RelationID, path []osm.RelationID) error {\n' + VISITED_TEST + '\n' + HISTORY + '\n' + LOOPS + '\n' + TAIL + '''
// Err returns a non-nil error if something went wrong with search,'''),
  (NEXT_SELECT, '''	id, more := o.receive()
	if more {
		o.id = id
	}
	return more
}

func (o *ChildFirstOrdering) receive() (osm.RelationID, bool) {
	select {
	case id := <-o.out:
		return id, id != 0
	case <-o.ctx.Done():
	}
	return 0, false
}
'''),
  (CLOSE, '''func (o *ChildFirstOrdering) Close() {
	o.stop()
}

func (o *ChildFirstOrdering) stop() {
	o.done()
	o.wg.Wait()
}
'''))

# class 2/3: index loops over range, element read through the index
B("range-by-index",
  ('''	for _, r := range relations {
		for _, m := range r.Members {
			if m.Type != osm.TypeRelation {
''', '''	for i := range relations {
		r := relations[i]
		for j := range r.Members {
			m := r.Members[j]
			if m.Type != osm.TypeRelation {
'''),
  ('''		for i, id := range ids {
			err := o.walk(id, path)
''', '''		for i := range ids {
			id := ids[i]
			err := o.walk(id, path)
'''))

# class 1: the constructor delegates the allocation, the goroutine closure takes its inputs as parameters
B("constructor-helper-and-closure-parameters",
  ('''	ctx, done := context.WithCancel(ctx)
	o := &ChildFirstOrdering{
		ctx:     ctx,
		done:    done,
		ds:      ds,
		visited: make(map[osm.RelationID]struct{}, len(ids)),
		out:     make(chan osm.RelationID),
	}
''', '''	o := newOrdering(ctx, ds, len(ids))
'''),
  (GOROUTINE, '''	go func(ord *ChildFirstOrdering, requested []osm.RelationID) {
		defer func() {
			close(ord.out)
			ord.wg.Done()
		}()

		path := []osm.RelationID{}
		for i, id := range requested {
			err := ord.walk(id, path)
			if err != nil {
				ord.err = err
				return
			}

			ord.CompletedIndex = i
		}
	}(o, ids)
'''),
  (TAIL, TAIL + '''
func newOrdering(parent context.Context, ds RelationHistoryDatasourcer, n int) *ChildFirstOrdering {
	ctx, cancel := context.WithCancel(parent)
	return &ChildFirstOrdering{
		ctx:     ctx,
		done:    cancel,
		ds:      ds,
		visited: make(map[osm.RelationID]struct{}, n),
		out:     make(chan osm.RelationID),
	}
}
'''))

# class 1: the emission reports success as a bool, the visited test is a predicate method, the walk is split in two
B("bool-send-helper-and-split-walk",
  (VISITED_TEST + '\n' + HISTORY, '''	if o.seen(id) {
		return nil
	}

	relations, err := o.ds.RelationHistory(o.ctx, id)
	if o.ds.NotFound(err) {
		return nil
	}

	if err != nil {
		return err
	}

	return o.walkVersions(id, relations, path)
}

func (o *ChildFirstOrdering) seen(id osm.RelationID) bool {
	_, ok := o.visited[id]
	return ok
}

func (o *ChildFirstOrdering) walkVersions(id osm.RelationID, relations osm.Relations, path []osm.RelationID) error {
'''),
  (TAIL, '''	if !o.send(id) {
		return o.ctx.Err()
	}

	return nil
}

func (o *ChildFirstOrdering) send(id osm.RelationID) bool {
	if o.ctx.Err() != nil {
		return false
	}

	o.visited[id] = struct{}{}
	select {
	case o.out <- id:
		return true
	case <-o.ctx.Done():
		return false
	}
}
'''))

# class 2: counting loops instead of range loops
B("counting-loops",
  ('''	for _, r := range relations {
		for _, m := range r.Members {
			if m.Type != osm.TypeRelation {
				continue
			}

			mid := osm.RelationID(m.Ref)
''', '''	for v := 0; v < len(relations); v++ {
		r := relations[v]
		for k := 0; k < len(r.Members); k++ {
			m := r.Members[k]
			if m.Type != osm.TypeRelation {
				continue
			}

			mid := osm.RelationID(m.Ref)
'''),
  ('''		for i, id := range ids {
			err := o.walk(id, path)
''', '''		for i := 0; i < len(ids); i++ {
			id := ids[i]
			err := o.walk(id, path)
'''))

# class 2 (guard added): members already emitted are skipped before the scan, which is what walk does on entry. The
# emitted ids, errors, CompletedIndex and datasource calls are identical; only the unused capacity of the path slice
# (never read) is written less often.
B("visited-members-skipped",
  ('''			mid := osm.RelationID(m.Ref)
''', '''			mid := osm.RelationID(m.Ref)
			if _, ok := o.visited[mid]; ok {
				continue
			}

'''))

# class 2/4: Next falls through to a common `return false`, the constructor fills the struct field by field
B("next-fallthrough-and-fieldwise-constructor",
  (NEXT_SELECT, '''	select {
	case <-o.ctx.Done():
	case id := <-o.out:
		if id != 0 {
			o.id = id
			return true
		}
	}

	return false
}
'''),
  ('''	ctx, done := context.WithCancel(ctx)
	o := &ChildFirstOrdering{
		ctx:     ctx,
		done:    done,
		ds:      ds,
		visited: make(map[osm.RelationID]struct{}, len(ids)),
		out:     make(chan osm.RelationID),
	}
''', '''	o := new(ChildFirstOrdering)
	o.ds = ds
	o.out = make(chan osm.RelationID)
	o.visited = make(map[osm.RelationID]struct{}, len(ids))
	derived, cancel := context.WithCancel(ctx)
	o.ctx = derived
	o.done = cancel
'''))

# class 1: the recursion moves into walkAt (walk stays as a thin wrapper), one producer step is a method reporting "stop"
B("recursive-worker-behind-wrapper-and-producer-step",
  ('func (o *ChildFirstOrdering) walk(id osm.RelationID, path []osm.RelationID) error {\n',
   '''func (o *ChildFirstOrdering) walk(id osm.RelationID, path []osm.RelationID) error {
	return o.walkAt(id, path, 0)
}

func (o *ChildFirstOrdering) walkAt(id osm.RelationID, path []osm.RelationID, depth int) error {
'''),
  (REC, '''			err := o.walkAt(mid, append(path, mid), depth+1)
			if err != nil {
				return err
			}
'''),
  ('''		for i, id := range ids {
			err := o.walk(id, path)
			if err != nil {
				o.err = err
				return
			}

			o.CompletedIndex = i
		}
''', '''		for i, id := range ids {
			if o.step(i, id, path) {
				return
			}
		}
'''),
  (CLOSE, CLOSE + '''
func (o *ChildFirstOrdering) step(i int, id osm.RelationID, path []osm.RelationID) (stop bool) {
	if err := o.walk(id, path); err != nil {
		o.err = err
		return true
	}

	o.CompletedIndex = i
	return false
}
'''))

# class 2/3: the scan is an index loop, the extended path is computed into a local first
B("indexed-scan-and-hoisted-append",
  (SCAN + '\n' + REC, '''			for i := 0; i < len(path); i++ {
				if path[i] == mid {
					return nil
				}
			}

			extended := append(path, mid)
			err := o.walk(mid, extended)
			if err != nil {
				return err
			}
'''))

# class 3: the visited set becomes a map to bool
B("visited-as-bool-map",
  ('visited map[osm.RelationID]struct{}\n', 'visited map[osm.RelationID]bool\n'),
  ('visited: make(map[osm.RelationID]struct{}, len(ids)),', 'visited: make(map[osm.RelationID]bool, len(ids)),'),
  (VISITED_TEST, '''	if o.visited[id] {
		return nil
	}
'''),
  ('	o.visited[id] = struct{}{}\n', '	o.visited[id] = true\n'))

# class 1: starting the producer moves into a method; the goroutine body is a named local closure
B("start-helper-and-named-closure",
  ('''	o.wg.Add(1)
''' + GOROUTINE, '''	o.start(ids)
'''),
  (CLOSE, CLOSE + '''
func (o *ChildFirstOrdering) start(requested []osm.RelationID) {
	produce := func() {
		defer o.wg.Done()
		defer close(o.out)

		path := make([]osm.RelationID, 0, 100)
		for i, id := range requested {
			err := o.walk(id, path)
			if err != nil {
				o.err = err
				return
			}

			o.CompletedIndex = i
		}
	}

	o.wg.Add(1)
	go produce()
}
'''))

# class 1: the emission is a local closure, the cancellation test an immediately invoked one
B("emission-in-local-closure",
  (TAIL, '''	emit := func() error {
		o.visited[id] = struct{}{}
		select {
		case o.out <- id:
		case <-o.ctx.Done():
			return o.ctx.Err()
		}

		return nil
	}

	if cancelled := func() bool { return o.ctx.Err() != nil }(); cancelled {
		return o.ctx.Err()
	}

	return emit()
}
'''))

# ---- additional defects -------------------------------------------------------------------------------------------

M("skip-members-by-role", "W5", "member-guards@dfs",
  ('''			mid := osm.RelationID(m.Ref)
''', '''			if m.Role == "subarea" {
				continue
			}

			mid := osm.RelationID(m.Ref)
'''))
M("skip-unchanged-members", "W5", "member-guards@dfs",
  ('''	for _, r := range relations {
		for _, m := range r.Members {
			if m.Type != osm.TypeRelation {
				continue
			}
''', '''	for i, r := range relations {
		var prev osm.Members
		if i > 0 {
			prev = relations[i-1].Members
		}

		for j, m := range r.Members {
			if m.Type != osm.TypeRelation {
				continue
			}

			if j < len(prev) && prev[j].Ref == m.Ref {
				continue
			}
'''))
M("skip-invisible-versions", "W5", "member-guards@dfs",
  ('''	for _, r := range relations {
		for _, m := range r.Members {
''', '''	for _, r := range relations {
		if !r.Visible {
			continue
		}
		for _, m := range r.Members {
'''))
M("send-outside-dfs", "W1", "send-site@dfs",
  ('''			o.CompletedIndex = i
''', '''			o.CompletedIndex = i
			select {
			case o.out <- id:
			default:
			}
'''))
M("emit-twice", "W1", "send-site@dfs",
  ('''	case <-o.ctx.Done():
		return o.ctx.Err()
	}

	return nil
}
''', '''	case <-o.ctx.Done():
		return o.ctx.Err()
	}

	select {
	case o.out <- id:
	case <-o.ctx.Done():
		return o.ctx.Err()
	}

	return nil
}
'''))
M("visited-marked-by-producer", "W2", "visited-stores",
  ('''			err := o.walk(id, path)
''', '''			if i > 0 {
				o.visited[ids[i-1]] = struct{}{}
			}
			err := o.walk(id, path)
'''))
M("dfs-on-second-goroutine", "W2", "callers@dfs",
  (CLOSE, '''func (o *ChildFirstOrdering) Close() {
	o.done()
	o.wg.Wait()
	go o.walk(o.id, nil)
}
'''))
M("child-error-test-inverted", "W3", "rec-error@dfs",
  (REC, '''			err := o.walk(mid, append(path, mid))
			if err == nil {
				return err
			}
'''))
M("scan-helper-compares-wrong-id", "W3", "cycle-scan@dfs",
  (SCAN, '''			if onPath(path, id) {
				return nil
			}
'''),
  (TAIL, TAIL + '''
func onPath(path []osm.RelationID, id osm.RelationID) bool {
	for _, pid := range path {
		if pid == id {
			return true
		}
	}
	return false
}
'''))
M("emit-helper-without-done", "W4", "send-select@dfs",
  (TAIL, '''	return o.emit(id)
}

func (o *ChildFirstOrdering) emit(id osm.RelationID) error {
	if o.ctx.Err() != nil {
		return o.ctx.Err()
	}

	o.visited[id] = struct{}{}
	o.out <- id
	return nil
}
'''))
M("producer-method-without-defers", "W4", "goroutine-defers@producer",
  (GOROUTINE, '''	go o.run(ids)
'''),
  (TAIL, TAIL + '''
func (o *ChildFirstOrdering) run(ids []osm.RelationID) {
	path := make([]osm.RelationID, 0, 100)
	for i, id := range ids {
		if err := o.walk(id, path); err != nil {
			o.err = err
			return
		}
		o.CompletedIndex = i
	}
	close(o.out)
	o.wg.Done()
}
'''))
M("cut-reported-as-not-cut", "W3", "cycle-scan@dfs",
  (SCAN, '''			if isAncestor(mid, path) {
				return nil
			}
'''),
  (TAIL, TAIL + '''
func isAncestor(rid osm.RelationID, ancestors []osm.RelationID) bool {
	for _, a := range ancestors {
		if a == rid {
			return len(ancestors) > 64
		}
	}
	return false
}
'''))

M("visited-store-deferred", "W2", "unmodelled-control@dfs",
  (VISITED_TEST, VISITED_TEST + '''
	defer func() { o.visited[id] = struct{}{} }()
'''),
  ('''	o.visited[id] = struct{}{}
	select {''', '''	select {'''))
M("depth-limited-worker", "W6", "exit@dfs",
  ('func (o *ChildFirstOrdering) walk(id osm.RelationID, path []osm.RelationID) error {\n',
   '''func (o *ChildFirstOrdering) walk(id osm.RelationID, path []osm.RelationID) error {
	return o.walkAt(id, path, 0)
}

func (o *ChildFirstOrdering) walkAt(id osm.RelationID, path []osm.RelationID, depth int) error {
	if depth > 3 {
		return nil
	}

'''),
  (REC, '''			err := o.walkAt(mid, append(path, mid), depth+1)
			if err != nil {
				return err
			}
'''))

# ---- output --------------------------------------------------------------------------------------------------------
def q(s):
    return json.dumps(s)

out = ['// Code generated by c14_variants_gen.py from the pinned annotate/order.go; DO NOT EDIT.', '',
       'package rules', '', 'import "osmcheck/core"', '',
       '// c14Benign: behaviour-preserving rewrites of annotate/order.go (extract function, producer as a method, switch forms,',
       '// inverted branches and nesting, merged/split guards, aliases, if-init forms, renamed locals and named constants, reordered',
       '// independent statements, moved functions and delegating wrappers, index loops, constructor helper). The C14 rules must stay',
       '// silent on each of them.',
       'var c14Benign = []core.Mutant{']
for name, (f, r) in benign:
    out.append('\t{Name: %s, File: "annotate/order.go",\n\t\tFind:    %s,\n\t\tReplace: %s},' % (q(name), q(f), q(r)))
out.append('}')
out.append('')
out.append('// c14MoreMutants: defects that exercise the generalised rules (helpers, guard whitelist, package-wide scans).')
out.append('var c14MoreMutants = []core.Mutant{')
for name, rule, cons, (f, r) in mutants:
    out.append('\t{Name: %s, File: "annotate/order.go", ExpectRule: %s, ExpectConstruct: %s,\n\t\tFind:    %s,\n\t\tReplace: %s},' % (q(name), q(rule), q(cons), q(f), q(r)))
out.append('}')
open(os.path.join(os.path.dirname(os.path.abspath(__file__)), 'c14_variants.go'), 'w').write('\n'.join(out) + '\n')
print("benign", len(benign), "mutants", len(mutants))
