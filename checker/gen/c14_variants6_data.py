# Round-6 variants of annotate/order.go (executed by c14_variants_gen.py 6; B = behaviour-preserving, M = defect).

WALKFN = ORIG[ORIG.index('func (o *ChildFirstOrdering) walk('):]
STRUCT = 'type ChildFirstOrdering struct {'
SIG = 'func (o *ChildFirstOrdering) walk(id osm.RelationID, path []osm.RelationID) error {\n'
SCAN = WALKFN[WALKFN.index('\t\t\tfor _, pid := range path {'):WALKFN.index('\t\t\terr := o.walk(mid, append(path, mid))')]
TYPETEST = '''			if m.Type != osm.TypeRelation {
				continue
			}

			mid := osm.RelationID(m.Ref)
'''
MAKEPATH = 'path := make([]osm.RelationID, 0, 100)'


def ancestry(first='len(a) - 1', cond='i >= 0', elem='a[i]'):
    return '''// ancestry is the chain of relations being walked, outermost first.
type ancestry []osm.RelationID

// has looks from the innermost ancestor outwards.
func (a ancestry) has(id osm.RelationID) bool {
	for i := %s; %s; i-- {
		if %s == id {
			return true
		}
	}

	return false
}

''' % (first, cond, elem)


def path_type_edits(**kw):
    return [(STRUCT, ancestry(**kw) + STRUCT),
            (SIG, 'func (o *ChildFirstOrdering) walk(id osm.RelationID, path ancestry) error {\n'),
            (MAKEPATH, 'path := make(ancestry, 0, 100)'),
            (SCAN, '''			if path.has(mid) {
				return nil
			}

''')]


# the path becomes a named slice type whose predicate method scans backwards by index
B("path-type-with-backward-scan", *path_type_edits())
# … the same with the `i := len; i > 0; i--` / a[i-1] spelling
B("path-type-with-offset-backward-scan", *path_type_edits(first='len(a)', cond='i > 0', elem='a[i-1]'))

# the length is read once, the scan stays inline
B("scan-with-hoisted-length",
  (SCAN, '''			n := len(path)
			for i := 0; i != n; i++ {
				if path[i] == mid {
					return nil
				}
			}

'''))

# the member test becomes a (value, ok) helper with named results, bare returns and the condition inverted
REL_HELPER = '''
// relationRef reports the id a member refers to when the member is a relation.
func relationRef(m osm.Member) (id osm.RelationID, ok bool) {
	if m.Type == osm.TypeRelation {
		id, ok = osm.RelationID(m.Ref), true
	}

	return
}
'''
B("member-test-as-value-ok-helper-with-bare-returns",
  (TYPETEST, '''			mid, isRelation := relationRef(m)
			if !isRelation {
				continue
			}

'''),
  (WALKFN[-40:], WALKFN[-40:] + REL_HELPER))

# the member loops move into a helper whose named results are assigned and returned bare
LOOPS = WALKFN[WALKFN.index('\tfor _, r := range relations {'):WALKFN.index('\tif o.ctx.Err() != nil {')]


def members_helper(on_cut='cut = true\n\t\t\t\t\treturn', after_loops=''):
    return '''
func (o *ChildFirstOrdering) members(relations osm.Relations, path []osm.RelationID) (cut bool, err error) {
	for _, r := range relations {
		for _, m := range r.Members {
			if m.Type != osm.TypeRelation {
				continue
			}

			mid := osm.RelationID(m.Ref)
			for _, pid := range path {
				if pid == mid {
					%s
				}
			}

			if err = o.walk(mid, append(path, mid)); err != nil {
				return
			}
		}
	}
%s
	return
}
''' % (on_cut, after_loops)


CALL_MEMBERS = '''	cut, err := o.members(relations, path)
	if err != nil {
		return err
	}

	if cut {
		return nil
	}

'''
B("member-loops-helper-with-assigned-named-results", (LOOPS, CALL_MEMBERS), (WALKFN[-40:], WALKFN[-40:] + members_helper()))

# ---- defects ---------------------------------------------------------------------------------------------------

# seed C14-f as seeded: the cut sets a flag, skips the member and the walk goes on
M("cut-sets-flag-and-continues", "W3", "cycle-scan@dfs",
  ('\tfor _, r := range relations {\n\t\tfor _, m := range r.Members {\n', '\tinCycle := false\n\tfor _, r := range relations {\n\tmembers:\n\t\tfor _, m := range r.Members {\n'),
  ('''					// up the stack, we can just return here.
					return nil
''', '''					inCycle = true
					continue members
'''),
  ('''	if o.ctx.Err() != nil {
		return o.ctx.Err()
	}
''', '''	if inCycle {
		return nil
	}

	if o.ctx.Err() != nil {
		return o.ctx.Err()
	}
'''))
# … the same in the helper form: the flag is a named result, the scan is left with break and the member skipped
M("helper-cut-flag-and-continues", "W3", "cycle-scan@dfs", (LOOPS, CALL_MEMBERS),
  (WALKFN[-40:], WALKFN[-40:] + members_helper(on_cut='cut = true\n\t\t\t\t\tbreak').replace(
      '''			if err = o.walk(mid, append(path, mid)); err != nil {''',
      '''			if cut {
				continue
			}

			if err = o.walk(mid, append(path, mid)); err != nil {''')))
# the backward scan forgets the innermost ancestor
M("backward-scan-skips-innermost", "W3", "cycle-scan@dfs", *path_type_edits(first='len(a) - 2'))
# the backward scan stops before the outermost ancestor
M("backward-scan-skips-outermost", "W3", "cycle-scan@dfs", *path_type_edits(cond='i > 0'))
# the (value, ok) helper lets way members through
M("value-ok-helper-accepts-ways", "W5", "relation-only@dfs",
  (TYPETEST, '''			mid, isRelation := relationRef(m)
			if !isRelation {
				continue
			}

'''),
  (WALKFN[-40:], WALKFN[-40:] + REL_HELPER.replace('m.Type == osm.TypeRelation', 'm.Type != osm.TypeNode')))

# ---- defers as methods, defer in Close, two-variable init clauses ------------------------------------------------
DEFERS = '''		defer o.wg.Done()
		defer close(o.out)
'''
CLOSE_BODY = '''	o.done()
	o.wg.Wait()
}
'''
FINISH = '''
// finish ends the iteration: the consumer sees the closed channel, Close stops waiting.
func (o *ChildFirstOrdering) finish() {
	close(o.out)
	o.wg.Done()
}
'''
B("deferred-finish-method-and-deferred-wait",
  (DEFERS, '\t\tdefer o.finish()\n'),
  (CLOSE_BODY, '''	defer o.wg.Wait()
	o.done()
}
''' + FINISH))
B("two-variable-init-loops",
  ('\t\tfor i, id := range ids {\n', '\t\tfor i, n := 0, len(ids); i < n; i++ {\n\t\t\tid := ids[i]\n'),
  (SCAN, '''			for k, depth := 0, len(path); k < depth; k++ {
				if path[k] == mid {
					return nil
				}
			}

'''))
M("finish-method-forgets-close", "W4", "goroutine-defers@producer",
  (DEFERS, '\t\tdefer o.finish()\n'),
  (CLOSE_BODY, CLOSE_BODY + FINISH.replace('\tclose(o.out)\n', '')))
M("finish-method-closes-conditionally", "W4", "goroutine-defers@producer",
  (DEFERS, '\t\tdefer o.finish()\n'),
  (CLOSE_BODY, CLOSE_BODY + FINISH.replace('\tclose(o.out)\n', '\tif o.err == nil {\n\t\tclose(o.out)\n\t}\n')))
M("close-defers-cancel-after-wait", "W4", "close-order@Close",
  (CLOSE_BODY, '''	defer o.done()
	o.wg.Wait()
}
'''))
M("close-defers-in-wrong-order", "W4", "close-order@Close",
  (CLOSE_BODY, '''	defer o.done()
	defer o.wg.Wait()
}
'''))

# ---- parallel results bundled into structs ------------------------------------------------------------------------
HISTORY = WALKFN[WALKFN.index('\trelations, err := o.ds.RelationHistory(o.ctx, id)'):WALKFN.index('\tfor _, r := range relations {')]


def bundled(on_cut='res.cut = true\n\t\t\t\t\treturn res', lookup_fail='return lookup{err: err}', versions='found.versions'):
    return [(HISTORY, '''	found := o.lookup(id)
	if found.err != nil {
		return found.err
	}

	if !found.ok {
		return nil
	}

	res := o.members(%s, path)
	switch {
	case res.err != nil:
		return res.err
	case res.cut:
		return nil
	}

''' % versions),
            (LOOPS, ''),
            (WALKFN[-40:], WALKFN[-40:] + '''
// lookup is what the datasource knows about a relation.
type lookup struct {
	versions osm.Relations
	ok       bool
	err      error
}

// outcome is the result of walking the members of a relation.
type outcome struct {
	cut bool
	err error
}

func (o *ChildFirstOrdering) lookup(id osm.RelationID) lookup {
	versions, err := o.ds.RelationHistory(o.ctx, id)
	if o.ds.NotFound(err) {
		return lookup{}
	}

	if err != nil {
		%s
	}

	return lookup{versions: versions, ok: true}
}

func (o *ChildFirstOrdering) members(relations osm.Relations, path []osm.RelationID) outcome {
	var res outcome
	for _, r := range relations {
		for _, m := range r.Members {
			if m.Type != osm.TypeRelation {
				continue
			}

			mid := osm.RelationID(m.Ref)
			for _, pid := range path {
				if pid == mid {
					%s
				}
			}

			if err := o.walk(mid, append(path, mid)); err != nil {
				return outcome{err: err}
			}
		}
	}

	return res
}
''' % (lookup_fail, on_cut))]


B("results-bundled-into-structs", *bundled())
M("struct-result-drops-lookup-error", "W3", "history-error@dfs", *bundled(lookup_fail='return lookup{}'))
M("struct-result-cut-field-never-set", "W3", "cycle-scan@dfs", *bundled(on_cut='return res'))
M("struct-result-last-version-only", "W5", "all-versions@dfs", *bundled(versions='found.versions[len(found.versions)-1:]'))
