# Round-8 variants of annotate/order.go (executed by c14_variants_gen.py 8): W7 memo / cancel-latency.

WALKFN = ORIG[ORIG.index('func (o *ChildFirstOrdering) walk('):]
CTXCHECK = '''	if o.ctx.Err() != nil {
		return o.ctx.Err()
	}

	o.visited[id] = struct{}{}
'''
CUT = '''					// up the stack, we can just return here.
					return nil
'''

# a different unmemoised way out: big relations are abandoned after their members were walked
M("abandon-big-relations-after-member-loop", "W7", "memo@dfs other",
  (CTXCHECK, '''	if len(relations) > 0 && len(relations[len(relations)-1].Members) > 1000 {
		return nil
	}

''' + CTXCHECK))
# … the same way out, but the context is looked at first: still not memoised
M("abandon-after-context-test", "W7", "memo@dfs other",
  (CTXCHECK, '''	if o.ctx.Err() == nil && len(relations) > 64 {
		return nil
	}

''' + CTXCHECK))
# the cut looks at the context but records nothing: latency is fine, the re-walks stay (known construct only for memo)
B("cycle-cut-tests-the-context-first",
  (CUT, '''					// up the stack, we can just return here.
					if err := o.ctx.Err(); err != nil {
						return err
					}

					return nil
'''))

# the DFS tests the lookup result itself (redundant under the datasource contract)
B("explicit-non-empty-history-guard",
  ('''	if err != nil {
		return err
	}

	for _, r := range relations {
''', '''	if err != nil {
		return err
	}

	if len(relations) == 0 {
		return nil
	}

	for _, r := range relations {
'''))
