# generates rules/c17_benign5.go (round 7: the way-node set, G8)
import json
CONV="osmgeojson/convert.go"
src=open('/tmp/rob-C17/repo/osmgeojson/convert.go').read()
V=[];M=[]
def add(name,find,repl,doc=""):
    assert src.count(find)>=1, name
    V.append((name,CONV,find,repl,0,doc))
def variant(name):
    for v in V:
        if v[0]==name: return v
    raise KeyError(name)
def mut(name,base,old,new,rule,construct,doc):
    (_,file,find,repl,nth,_)=variant(base)
    assert old in repl,name
    M.append((name,file,find,repl.replace(old,new,1),nth,rule,construct,doc))
def mut0(name,find,repl,rule,construct,doc):
    assert find in src,name
    M.append((name,CONV,find,repl,0,rule,construct,doc))
def span(a,b):
    i=src.index(a); j=src.index(b,i)+len(b); return src[i:j]

FILL="""	ctx.wayMember = make(map[osm.NodeID]struct{}, len(ctx.osm.Nodes))
	for _, w := range ctx.osm.Ways {
		for i := range w.Nodes {
			ctx.wayMember[w.Nodes[i].ID] = struct{}{}
		}
	}
"""
LOOP="""	for _, w := range ctx.osm.Ways {
		for i := range w.Nodes {
			ctx.wayMember[w.Nodes[i].ID] = struct{}{}
		}
	}
"""
INS="			ctx.wayMember[w.Nodes[i].ID] = struct{}{}\n"
NODELOOP="""	for _, wn := range w.Nodes {
		if wn.Lon != 0 || wn.Lat != 0 {"""
WAYAPPEND="""		feature := ctx.wayToFeature(way)
		if feature != nil {
			features = append(features, feature)
		}
"""
# ---- mutants on the original shape -------------------------------------------------------------------------------
S=span(FILL,NODELOOP)
SEED=S.replace(LOOP,"").replace("""		} else if n := ctx.getNode(wn.ID); n != nil {
			ls = append""","""		} else if n := ctx.getNode(wn.ID); n != nil {
			ctx.wayMember[n.ID] = struct{}{}
			ls = append""")
S2=span(FILL,"			tainted = true\n		}\n	}\n\n	return ls, tainted\n")
SEED=S2.replace(LOOP,"").replace("""		} else if n := ctx.getNode(wn.ID); n != nil {
""","""		} else if n := ctx.getNode(wn.ID); n != nil {
			ctx.wayMember[n.ID] = struct{}{}
""")
assert SEED!=S2
mut0("g8-seed-fill-only-for-looked-up-nodes",S2,SEED,"G8","coverage@Convert","seed C17-g: the pass is gone, wayToLineString records only nodes it had to look up")
mut0("g8-fill-only-unlocated-way-nodes",INS,"""			if w.Nodes[i].Lat == 0 && w.Nodes[i].Lon == 0 {
				ctx.wayMember[w.Nodes[i].ID] = struct{}{}
			}
""","G8","fill@Convert","way nodes carrying their own coordinates are not recorded")
mut0("g8-fill-skips-missing-nodes",INS,"""			if ctx.getNode(w.Nodes[i].ID) == nil {
				continue
			}
			ctx.wayMember[w.Nodes[i].ID] = struct{}{}
""","G8","fill@Convert","`continue` for nodes missing from the node set before the insertion")
S3=span(FILL,WAYAPPEND)
mut0("g8-fill-only-ways-with-features",S3,S3.replace(LOOP,"").replace(WAYAPPEND,"""		feature := ctx.wayToFeature(way)
		if feature != nil {
			features = append(features, feature)
			for i := range way.Nodes {
				ctx.wayMember[way.Nodes[i].ID] = struct{}{}
			}
		}
"""),"G8","coverage@Convert","nodes recorded only for the ways that produced a feature in the way pass")
S4=span(FILL,"	fc := geojson.NewFeatureCollection()\n")
mut0("g8-fill-after-node-pass",S4,S4.replace(LOOP,"").replace("	fc := geojson.NewFeatureCollection()\n",LOOP+"\n	fc := geojson.NewFeatureCollection()\n"),"G8","read-after-fill@Convert","the fill pass runs after the node pass that reads the set")
mut0("g8-fill-ranges-over-tagged-ways",LOOP,"""	tagged := make(osm.Ways, 0, len(ctx.osm.Ways))
	for _, w := range ctx.osm.Ways {
		if len(w.Tags) != 0 {
			tagged = append(tagged, w)
		}
	}
	for _, w := range tagged {
		for i := range w.Nodes {
			ctx.wayMember[w.Nodes[i].ID] = struct{}{}
		}
	}
""","G8","coverage@Convert","the fill pass ranges over a filtered copy of the ways")
mut0("g8-fill-loop-left-early",INS,INS+"""			if i > 2000 {
				break
			}
""","G8","fill@Convert","the node loop is left early for long ways")

# ---- benign --------------------------------------------------------------------------------------------------------
HEAD=span("// Convert takes a set of osm elements and converts them\n",FILL)
add("b-g8-pass-extracted-to-method",HEAD,
"""// indexWayNodes remembers the nodes that are part of a way.
func (ctx *context) indexWayNodes() {
	ctx.wayMember = make(map[osm.NodeID]struct{}, len(ctx.osm.Nodes))
	for _, w := range ctx.osm.Ways {
		for _, wn := range w.Nodes {
			ctx.wayMember[wn.ID] = struct{}{}
		}
	}
}

"""+HEAD.replace(FILL,"	ctx.indexWayNodes()\n"),doc="fill pass extracted to a method; range by value instead of by index")
add("b-g8-per-way-and-per-node-helpers",HEAD,
"""// markNode remembers that the node is part of a way.
func (ctx *context) markNode(id osm.NodeID) {
	ctx.wayMember[id] = struct{}{}
}

// markNodes remembers the nodes of the way.
func (ctx *context) markNodes(w *osm.Way) {
	for i := range w.Nodes {
		wn := &w.Nodes[i]
		ctx.markNode(wn.ID)
	}
}

"""+HEAD.replace(LOOP,"""	for i := range ctx.osm.Ways {
		ctx.markNodes(ctx.osm.Ways[i])
	}
"""),doc="per-way and per-node helpers, pointer alias to the way node, ways ranged by index")
mut("r-g8-per-way-helper-returns-early","b-g8-per-way-and-per-node-helpers",
"""	for i := range w.Nodes {
		wn := &w.Nodes[i]""","""	if len(w.Tags) == 0 {
		return
	}
	for i := range w.Nodes {
		wn := &w.Nodes[i]""","G8","coverage@Convert","the per-way helper returns early for untagged ways")
mut("r-g8-per-node-helper-conditional","b-g8-per-way-and-per-node-helpers",
"""	ctx.wayMember[id] = struct{}{}
}""","""	if ctx.nodeMap != nil {
		ctx.wayMember[id] = struct{}{}
	}
}""","G8","fill@(*context).markNode","the per-node helper records only once the node map exists")
# the seed's shape done right: recorded unconditionally at the top of the per-node loop of the line builder
GOOD=S2.replace(LOOP,"").replace(NODELOOP,"""	for _, wn := range w.Nodes {
		// every node of a way, located or not, is part of it.
		ctx.wayMember[wn.ID] = struct{}{}
		if wn.Lon != 0 || wn.Lat != 0 {""")
add("b-g8-fill-in-line-builder-unconditional",S2,GOOD,doc="no dedicated pass: the line builder records every way node at the top of its loop; every way is resolved in the way pass or, if skippable, when it was made skippable")
mut("r-g8-line-builder-fill-after-located","b-g8-fill-in-line-builder-unconditional",
"""		// every node of a way, located or not, is part of it.
		ctx.wayMember[wn.ID] = struct{}{}
		if wn.Lon != 0 || wn.Lat != 0 {""","""		if wn.Lon != 0 || wn.Lat != 0 {""","G8","coverage@Convert","placeholder")
M.pop()
mut("r-g8-line-builder-fill-under-else","b-g8-fill-in-line-builder-unconditional",
"""		// every node of a way, located or not, is part of it.
		ctx.wayMember[wn.ID] = struct{}{}
		if wn.Lon != 0 || wn.Lat != 0 {
			ls = append(ls, orb.Point{wn.Lon, wn.Lat})""","""		if wn.Lon != 0 || wn.Lat != 0 {
			ls = append(ls, orb.Point{wn.Lon, wn.Lat})
			continue
		}
		ctx.wayMember[wn.ID] = struct{}{}
		if false {""","G8","coverage@Convert","the line builder records only way nodes without coordinates of their own")
# map[osm.NodeID]bool
TOP=span("	wayMember      map[osm.NodeID]struct{}\n",FILL)
add("b-g8-set-as-bool-map",TOP,TOP.replace("	wayMember      map[osm.NodeID]struct{}\n","	wayMember      map[osm.NodeID]bool\n").replace("make(map[osm.NodeID]struct{}, len(ctx.osm.Nodes))","make(map[osm.NodeID]bool, len(ctx.osm.Nodes))").replace("ctx.wayMember[w.Nodes[i].ID] = struct{}{}","ctx.wayMember[w.Nodes[i].ID] = true"),doc="set kept as map[osm.NodeID]bool")
# sorted slice + binary search
BIG=span("import (\n	\"fmt\"\n","			!hasInterestingTags(node.Tags, nil) {\n")
SL=BIG.replace("import (\n	\"fmt\"\n","import (\n	\"fmt\"\n	\"sort\"\n").replace("	wayMember      map[osm.NodeID]struct{}\n","	wayMember      []osm.NodeID // sorted\n").replace(FILL,"""	ctx.wayMember = make([]osm.NodeID, 0, len(ctx.osm.Nodes))
	for _, w := range ctx.osm.Ways {
		for _, wn := range w.Nodes {
			ctx.wayMember = append(ctx.wayMember, wn.ID)
		}
	}
	sort.Slice(ctx.wayMember, func(i, j int) bool { return ctx.wayMember[i] < ctx.wayMember[j] })
""").replace("""		if _, ok := ctx.wayMember[node.ID]; ok &&""","""		at := sort.Search(len(ctx.wayMember), func(i int) bool { return ctx.wayMember[i] >= node.ID })
		if ok := at < len(ctx.wayMember) && ctx.wayMember[at] == node.ID; ok &&""")
assert SL.count("sort.")==2
add("b-g8-set-as-sorted-slice",BIG,SL,doc="set kept as a sorted slice of ids, read by binary search")
mut("r-g8-sorted-slice-only-first-node","b-g8-set-as-sorted-slice",
"""		for _, wn := range w.Nodes {
			ctx.wayMember = append(ctx.wayMember, wn.ID)
		}""","""		for _, wn := range w.Nodes {
			ctx.wayMember = append(ctx.wayMember, wn.ID)
			break
		}""","G8","","only the first node of each way is recorded")

S5=span(FILL,"		ls, t := ctx.wayToLineString(way)\n")
GOOD5=S5.replace(LOOP,"").replace(NODELOOP,"""	for _, wn := range w.Nodes {
		// every node of a way, located or not, is part of it.
		ctx.wayMember[wn.ID] = struct{}{}
		if wn.Lon != 0 || wn.Lat != 0 {""")
mut0("r-g8-skippable-way-not-resolved",S5,GOOD5.replace("		ls, t := ctx.wayToLineString(way)\n","""		if len(way.Nodes) > 2000 {
			// too long to be part of the route line
			continue
		}

		ls, t := ctx.wayToLineString(way)
"""),"G8","coverage@Convert","fill in the line builder, but the route builder can make a way skippable without resolving its line: the way pass skips it and its nodes are never recorded")

# ---- G5: emissions through a local closure ---------------------------------------------------------------------------
EM=span("	features := make([]*geojson.Feature, 0, len(ctx.osm.Relations)+len(ctx.osm.Ways))\n","		feature := ctx.nodeToFeature(node)\n		if feature != nil {\n			features = append(features, feature)\n		}\n")
CL=EM.replace("	features := make([]*geojson.Feature, 0, len(ctx.osm.Relations)+len(ctx.osm.Ways))\n","""	features := make([]*geojson.Feature, 0, len(ctx.osm.Relations)+len(ctx.osm.Ways))
	emit := func(f *geojson.Feature) {
		if f != nil {
			features = append(features, f)
		}
	}
""").replace("""			feature := ctx.buildRouteLineString(relation)
			if feature != nil {
				features = append(features, feature)
			}
""","			emit(ctx.buildRouteLineString(relation))\n").replace("""			feature := ctx.buildPolygon(relation)
			if feature != nil {
				features = append(features, feature)
			}
""","			emit(ctx.buildPolygon(relation))\n").replace("""		feature := ctx.wayToFeature(way)
		if feature != nil {
			features = append(features, feature)
		}
""","		emit(ctx.wayToFeature(way))\n").replace("""		feature := ctx.nodeToFeature(node)
		if feature != nil {
			features = append(features, feature)
		}
""","		emit(ctx.nodeToFeature(node))\n")
assert CL.count("emit(")==4
add("b-g5-emit-closure",EM,CL,doc="the four copies of the nil-dropping append replaced by a local closure capturing the feature list")
mut("r-g5-emit-closure-appends-twice","b-g5-emit-closure",
"			features = append(features, f)\n","			features = append(features, f, f)\n","G5","loop@Convert","the closure appends the feature twice")
mut("r-g5-emit-closure-way-called-before-skip-test","b-g5-emit-closure",
"""		if _, skip := ctx.skippable[way.ID]; skip {
			continue
		}

		emit(ctx.wayToFeature(way))""","""		emit(ctx.wayToFeature(way))
		if _, skip := ctx.skippable[way.ID]; skip {
			continue
		}
""","G5","skippable@Convert ways","the closure is called before the skippable test")

mut("r-g5-emit-closure-without-nil-check","b-g5-emit-closure",
"""		if f != nil {
			features = append(features, f)
		}
""","""		features = append(features, f)
""","G5","nonnil@","the closure appends whatever the builder returned, nil included")
mut0("g5-node-append-without-nil-check","""		feature := ctx.nodeToFeature(node)
		if feature != nil {
			features = append(features, feature)
		}
""","""		feature := ctx.nodeToFeature(node)
		features = append(features, feature)
""","G5","nonnil@Convert","nodes without location add a nil entry to the collection")
# ways pass before the relation pass (closure shape)
_i=CL.index("	// relations\n	for _, relation := range ctx.osm.Relations {")
_j=CL.index("	for _, way := range ctx.osm.Ways {")
_k=CL.index("	for _, node := range ctx.osm.Nodes {")
SW=CL[:_i]+CL[_j:_k]+CL[_i:_j]+CL[_k:]
M.append(("r-g5-emit-closure-ways-before-relations",CONV,EM,SW,0,"G5","order@Convert","the way pass (emitting through the closure) runs before the relation pass that fills the skippable set"))

# ---- G9: the node interest rule ------------------------------------------------------------------------------------------
mut0("g9-node-rule-ignores-relation-membership","""			len(ctx.relationMember[node.FeatureID()]) == 0 &&
""","","G9","noderule@Convert","the skip condition no longer asks whether the node is a relation member")
mut0("g9-node-rule-interesting-inverted","""			!hasInterestingTags(node.Tags, nil) {""","""			hasInterestingTags(node.Tags, nil) {""","G9","noderule@Convert","nodes with interesting tags are skipped instead of the uninteresting ones")
NP=span("	for _, node := range ctx.osm.Nodes {\n","	return fc, nil\n}\n")
SKIPCOND=span("		// should NOT skip if any are true:\n","			continue\n		}\n")
assert SKIPCOND in NP
WN=NP.replace(SKIPCOND,"""		if !ctx.wantsNodeFeature(node) {
			continue
		}
""")+"""
// wantsNodeFeature: a node gets a point unless it is part of a way, not a
// relation member and without interesting tags.
func (ctx *context) wantsNodeFeature(n *osm.Node) bool {
	if _, inWay := ctx.wayMember[n.ID]; !inWay {
		return true
	}

	return len(ctx.relationMember[n.FeatureID()]) > 0 || n.Tags.AnyInteresting()
}
"""
add("b-g9-wants-node-feature-demorgan",NP,WN,doc="the skip condition as the De Morgan inverse in a helper with an early return; interest test through the library method")
mut("r-g9-wants-node-feature-drops-membership","b-g9-wants-node-feature-demorgan",
"	return len(ctx.relationMember[n.FeatureID()]) > 0 || n.Tags.AnyInteresting()","	return n.Tags.AnyInteresting()","G9","noderule@Convert","one disjunct dropped from the helper: uninteresting way nodes that are relation members get no point")
mut("r-g9-wants-node-feature-and-instead-of-or","b-g9-wants-node-feature-demorgan",
"	return len(ctx.relationMember[n.FeatureID()]) > 0 || n.Tags.AnyInteresting()","	return len(ctx.relationMember[n.FeatureID()]) > 0 && n.Tags.AnyInteresting()","G9","noderule@Convert","|| turned into &&")

# ---- G8: the fill fused into the way index loop of a helper ------------------------------------------------------------------
WM="""	ctx.wayMap = make(map[osm.WayID]*osm.Way, len(o.Ways))
	for _, w := range ctx.osm.Ways {
		ctx.wayMap[w.ID] = w
	}

"""
H2=span("// Convert takes a set of osm elements and converts them\n",FILL)
assert WM in H2
add("b-g8-fill-fused-into-index-helper",H2,
"""// indexWays builds the id to way lookup and the set of nodes that are part of a way.
func (ctx *context) indexWays() {
	ctx.wayMap = make(map[osm.WayID]*osm.Way, len(ctx.osm.Ways))
	ctx.wayMember = make(map[osm.NodeID]struct{}, len(ctx.osm.Nodes))
	for _, w := range ctx.osm.Ways {
		ctx.wayMap[w.ID] = w
		for i := range w.Nodes {
			ctx.wayMember[w.Nodes[i].ID] = struct{}{}
		}
	}
}

"""+H2.replace(WM,"").replace(FILL,"	ctx.indexWays()\n"),doc="the two loops over the ways fused, in a helper method")
mut("r-g8-fused-index-skips-untagged-ways","b-g8-fill-fused-into-index-helper",
"""		ctx.wayMap[w.ID] = w
		for i := range w.Nodes {""","""		if len(w.Tags) == 0 {
			continue
		}
		ctx.wayMap[w.ID] = w
		for i := range w.Nodes {""","G8","coverage@Convert","the fused index loop skips ways without tags")

def q(t):
    return json.dumps(t) if "`" in t else "`"+t+"`"
out=["package rules\n","import \"osmcheck/core\"\n",
"// c17Benign5: behaviour-preserving variants, round 7 (G8, the set of node ids that are part of a way): the fill pass in\n// a method, per-way / per-node helpers, the fill inside the line builder (covered through the skippable set), the set\n// as a bool map and as a sorted slice.\nvar c17Benign5 = []core.Mutant{"]
for (name,file,find,repl,nth,doc) in V:
    out.append("\t// %s\n\t{Name: %s, File: %s, Nth: %d,\n\t\tFind: %s,\n\t\tReplace: %s},"%(doc,json.dumps(name),json.dumps(file),nth,q(find),q(repl)))
out.append("}\n")
out.append("// c17Mutants5: the seeded defect C17-g, other spellings of it, and defects seeded into the shapes above.\nvar c17Mutants5 = []core.Mutant{")
for (name,file,find,repl,nth,rule,construct,doc) in M:
    out.append("\t// %s\n\t{Name: %s, File: %s, Nth: %d, ExpectRule: %s, ExpectConstruct: %s,\n\t\tFind: %s,\n\t\tReplace: %s},"%(doc,json.dumps(name),json.dumps(file),nth,json.dumps(rule),json.dumps(construct),q(find),q(repl)))
out.append("}\n")
open('/tmp/rob-C17/checker/rules/c17_benign5.go','w').write("\n".join(out))
print(len(V),"variants",len(M),"mutants")
