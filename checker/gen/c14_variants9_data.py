# Round-8 refactoring follow-up (executed by c14_variants_gen.py 9): aliases cached in fields, path capacity grown by copy.

FIELDS = '\tctx     context.Context\n'
LIT = '\t\tctx:     ctx,\n'
DONE_CASES = ('case <-o.ctx.Done():', 'case <-o.stop:', 'all')
REC = '''			err := o.walk(mid, append(path, mid))
'''


def cached_done(lit='\t\tstop:    ctx.Done(),\n', before_wc='', extra=()):
    return [(FIELDS, FIELDS + '\tstop    <-chan struct{} // Done channel of ctx, fetched once\n'),
            (LIT, LIT + lit), DONE_CASES] + ([('\tctx, done := context.WithCancel(ctx)\n', before_wc + '\tctx, done := context.WithCancel(ctx)\n')] if before_wc else []) + list(extra)


B("done-channel-cached-in-a-field", *cached_done())
M("done-channel-cached-from-the-parent-context", "W4", "send-select@dfs", *cached_done(lit='\t\tstop:    parentDone,\n', before_wc='\tparentDone := ctx.Done()\n'))
M("cached-done-channel-reassigned-later", "W4", "send-select@dfs", *cached_done(extra=[('\to.done()\n\to.wg.Wait()\n', '\to.done()\n\to.wg.Wait()\n\to.stop = nil\n')]))

GROW = '''
// roomier returns a slice with the same ancestors and more room behind them.
func roomier(path []osm.RelationID) []osm.RelationID {
	bigger := make([]osm.RelationID, len(path), 2*cap(path)+16)
%s	return bigger
}
'''
TAILEND = ORIG[-40:]


def grown(call='''			if len(path) == cap(path) {
				path = roomier(path)
			}

''', body='\tcopy(bigger, path)\n'):
    return [(REC, call + REC), (TAILEND, TAILEND + GROW % body)]


B("path-capacity-grown-through-copy-helper", *grown())
B("path-capacity-grown-inline-on-entry",
  ('\trelations, err := o.ds.RelationHistory(o.ctx, id)\n', '''	if len(path) == cap(path) {
		bigger := make([]osm.RelationID, len(path), 2*cap(path)+16)
		copy(bigger, path)
		path = bigger
	}

	relations, err := o.ds.RelationHistory(o.ctx, id)
'''))
B("path-regrown-by-append-copy",
  (REC, '''			if len(path) == cap(path) {
				path = append(make([]osm.RelationID, 0, 2*cap(path)+16), path...)
			}

''' + REC))
M("grow-helper-forgets-the-copy", "W3", "params-stable@dfs", *grown(body=''))
M("grow-helper-copies-conditionally", "W3", "params-stable@dfs", *grown(body='\tif len(path) < 64 {\n\t\tcopy(bigger, path)\n\t}\n'))
M("regrow-drops-the-innermost-ancestor", "W3", "params-stable@dfs", *grown(call='''			if len(path) == cap(path) {
				path = roomier(path[:len(path)-1])
			}

'''))
