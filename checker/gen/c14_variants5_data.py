# Round-5 variants of annotate/order.go (executed by c14_variants_gen.py; B = behaviour-preserving, M = defect).

WALKFN = ORIG[ORIG.index('func (o *ChildFirstOrdering) walk('):]
FIELD = '\tvisited map[osm.RelationID]struct{}\n'
MAKE = 'visited: make(map[osm.RelationID]struct{}, len(ids)),'
STRUCT = 'type ChildFirstOrdering struct {'

SET_TYPE = '''// idSet is the set of ids handed to the consumer so far.
type idSet map[osm.RelationID]struct{}

func (s idSet) contains(id osm.RelationID) bool {
	_, ok := s[id]
	return ok
}

func (s idSet) insert(id osm.RelationID) {
	s[id] = struct{}{}
}

'''


def pipeline(versions='versions', guard='', cutret='return true, nil', publish_head='''	if err := o.ctx.Err(); err != nil {
		return err
	}

	o.visited.insert(id)
''', lookup_err='return nil, false, err'):
    return '''func (o *ChildFirstOrdering) walk(id osm.RelationID, path []osm.RelationID) error {
	if o.visited.contains(id) {
		return nil
	}

	versions, ok, err := o.lookup(id)
	if !ok {
		return err
	}

	switch stop, err := o.descend(versions, path); {
	case err != nil:
		return err
	case stop:
		return nil
	}

	return o.publish(id)
}

// lookup reports ok=false with a nil error for a relation the datasource does not know.
func (o *ChildFirstOrdering) lookup(id osm.RelationID) (osm.Relations, bool, error) {
	versions, err := o.ds.RelationHistory(o.ctx, id)
	if o.ds.NotFound(err) {
		return nil, false, nil
	}

	if err != nil {
		%s
	}

	return versions, true, nil
}

// descend walks the relation members of every version; stop means a member is an ancestor.
func (o *ChildFirstOrdering) descend(versions osm.Relations, path []osm.RelationID) (stop bool, err error) {
	for _, v := range %s {
		for _, m := range v.Members {
			if m.Type != osm.TypeRelation {
				continue
			}

			child := osm.RelationID(m.Ref)
%s			if contains(path, child) {
				%s
			}

			if err := o.walk(child, append(path, child)); err != nil {
				return false, err
			}
		}
	}

	return false, nil
}

func contains(path []osm.RelationID, id osm.RelationID) bool {
	for i := 0; i < len(path); i++ {
		if path[i] == id {
			return true
		}
	}

	return false
}

func (o *ChildFirstOrdering) publish(id osm.RelationID) error {
%s	select {
	case o.out <- id:
	case <-o.ctx.Done():
		return o.ctx.Err()
	}

	return nil
}
''' % (lookup_err, versions, guard, cutret, publish_head)


SET_EDITS = [(STRUCT, SET_TYPE + STRUCT), (FIELD, '\tvisited idSet\n'), (MAKE, 'visited: make(idSet, len(ids)),')]

# representation: early returns from the nested loop become a (stop, err) result, the history lookup a (versions, ok, err)
# triple, the visited map a set type with methods, the scan an index-loop predicate
B("pipeline-with-result-tuples-and-set-type", *(SET_EDITS + [(WALKFN, pipeline())]))

# representation: the cut is reported as a pointer to the offending ancestor instead of a flag
B("cut-reported-as-pointer",
  (WALKFN, pipeline(cutret='return true, nil')
   .replace('(stop bool, err error)', '(ancestor *osm.RelationID, err error)')
   .replace('\t\t\t\treturn true, nil\n', '\t\t\t\thit := child\n\t\t\t\treturn &hit, nil\n')
   .replace('return false, err', 'return nil, err')
   .replace('\treturn false, nil\n}\n\nfunc contains', '\treturn nil, nil\n}\n\nfunc contains')
   .replace('''	switch stop, err := o.descend(versions, path); {
	case err != nil:
		return err
	case stop:
		return nil
	}
''', '''	ancestor, err := o.descend(versions, path)
	if err != nil {
		return err
	}

	if ancestor != nil {
		return nil
	}
''')),
  *SET_EDITS)

# representation: state grouped into structs (context + cancel pair, set type wrapping the map behind a pointer)
B("state-grouped-into-structs",
  (STRUCT, '''type lifecycle struct {
	ctx    context.Context
	cancel context.CancelFunc
}

type seenSet struct {
	ids map[osm.RelationID]struct{}
}

func (s *seenSet) has(id osm.RelationID) bool {
	_, ok := s.ids[id]
	return ok
}

func (s *seenSet) add(id osm.RelationID) { s.ids[id] = struct{}{} }

''' + STRUCT),
  ('\tctx     context.Context\n\tdone    context.CancelFunc\n', '\tlife    lifecycle\n'),
  (FIELD, '\tvisited *seenSet\n'),
  ('\t\tctx:     ctx,\n\t\tdone:    done,\n', '\t\tlife:    lifecycle{ctx: ctx, cancel: done},\n'),
  (MAKE, 'visited: &seenSet{ids: make(map[osm.RelationID]struct{}, len(ids))},'),
  ('o.ctx', 'o.life.ctx', 'all'),
  ('\to.done()\n', '\to.life.cancel()\n'),
  ('\tif _, ok := o.visited[id]; ok {\n', '\tif o.visited.has(id) {\n'),
  ('\to.visited[id] = struct{}{}\n', '\to.visited.add(id)\n'))

# callbacks: the double loop lives in an iteration helper that calls back for every relation member
LOOPS = WALKFN[WALKFN.index('\tfor _, r := range relations {'):WALKFN.index('\tif o.ctx.Err() != nil {')]
B("members-visited-through-callback",
  (LOOPS, '''	cut, err := eachRelationMember(relations, func(mid osm.RelationID) (bool, error) {
		for _, pid := range path {
			if pid == mid {
				return true, nil
			}
		}

		return false, o.walk(mid, append(path, mid))
	})
	if cut || err != nil {
		return err
	}

'''),
  ('''	case <-o.ctx.Done():
		return o.ctx.Err()
	}

	return nil
}
''', '''	case <-o.ctx.Done():
		return o.ctx.Err()
	}

	return nil
}

// eachRelationMember calls visit for the relation members of all the versions until it reports stop or fails.
func eachRelationMember(versions osm.Relations, visit func(osm.RelationID) (bool, error)) (bool, error) {
	for _, v := range versions {
		for _, m := range v.Members {
			if m.Type != osm.TypeRelation {
				continue
			}

			if stop, err := visit(osm.RelationID(m.Ref)); stop || err != nil {
				return stop, err
			}
		}
	}

	return false, nil
}
'''))

# ---- defects seeded into the refactored (pipeline) shape ---------------------------------------------------------

def PM(name, rule, construct, **kw):
    M(name, rule, construct, *(SET_EDITS + [(WALKFN, pipeline(**kw))]))

# only the last version's members are walked
PM("pipeline-last-version-only", "W5", "all-versions@dfs", versions='versions[len(versions)-1:]')
# a member that was already emitted is reported as "cut": the parent is abandoned un-emitted
PM("pipeline-cut-for-visited-member", "W6", "exit@dfs:unexplained", guard='''			if o.visited.contains(child) {
				return true, nil
			}

''')
# the id is marked visited before the cancellation test can return
PM("pipeline-visited-before-ctx-check", "W2", "visited-only-when-emitting@dfs", publish_head='''	o.visited.insert(id)
	if err := o.ctx.Err(); err != nil {
		return err
	}

''')
# seed C14-e in the helper form: a depth cut-off reported as "cut"
PM("pipeline-depth-cutoff-as-cut", "W6", "exit@dfs:unexplained", guard='''			if len(path) >= 100 {
				return true, nil
			}

''')
# the cut is lost: the walk of the current id carries on and emits
PM("pipeline-cut-not-reported", "W3", "cycle-scan@dfs", cutret='return false, nil')
# a datasource failure is turned into "not found"
PM("pipeline-lookup-swallows-error", "W3", "history-error@dfs", lookup_err='return nil, false, nil')

# seed C14-e as seeded: depth guard before the cycle scan
M("depth-guard-before-scan", "W6", "exit@dfs:unexplained",
  ('''			mid := osm.RelationID(m.Ref)
''', '''			mid := osm.RelationID(m.Ref)
			if len(path) >= 100 {
				return nil
			}

'''))
# seed C14-d: the wait group is raised by the goroutine itself
M("wg-add-inside-goroutine", "W4", "wg-add@NewChildFirstOrdering",
  ('''	o.wg.Add(1)
	go func() {
		defer o.wg.Done()
''', '''	go func() {
		o.wg.Add(1)
		defer o.wg.Done()
'''))
# the callback form loses the child's error
M("callback-drops-child-error", "W3", "rec-error@dfs",
  (LOOPS, '''	cut, err := eachRelationMember(relations, func(mid osm.RelationID) (bool, error) {
		for _, pid := range path {
			if pid == mid {
				return true, nil
			}
		}

		o.walk(mid, append(path, mid))
		return false, nil
	})
	if cut || err != nil {
		return err
	}

'''),
  ('''	case <-o.ctx.Done():
		return o.ctx.Err()
	}

	return nil
}
''', '''	case <-o.ctx.Done():
		return o.ctx.Err()
	}

	return nil
}

func eachRelationMember(versions osm.Relations, visit func(osm.RelationID) (bool, error)) (bool, error) {
	for _, v := range versions {
		for _, m := range v.Members {
			if m.Type != osm.TypeRelation {
				continue
			}

			if stop, err := visit(osm.RelationID(m.Ref)); stop || err != nil {
				return stop, err
			}
		}
	}

	return false, nil
}
'''))

# the emission goes through a free function that gets the context and the channel as parameters
B("generic-send-helper",
  ('''	select {
	case o.out <- id:
	case <-o.ctx.Done():
		return o.ctx.Err()
	}

	return nil
}
''', '''	return sendID(o.ctx, o.out, id)
}

func sendID(ctx context.Context, ch chan<- osm.RelationID, v osm.RelationID) error {
	select {
	case ch <- v:
		return nil
	case <-ctx.Done():
		return ctx.Err()
	}
}
'''))
